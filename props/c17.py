"""C17 — The HTTP client transmits a non-idempotent request at most once (DESIGN §7 C17).

Tie = translator unit `httpretry` (retry-classification facts -> Gen/HttpRetry.lean) + trace inclusion: the REAL HttpClient
(real Transport, real TcpEngine, loopback sockets) against a scripted raw-socket server inside the harness process; the Lean
driver predicts, from the fault class of every attempt, the engine-call trace (connect/send/close per session), the result
class, the number of attempts and the cache/lease state.  Property monitors look at the implementation's output only.
"""
import os, json, re
from vlib.core import Ctx, hexs, unhex, ddmin, ModelBuildError

ID = "C17"
MODULES = ["IoraModel.Props.C17"]
OBLIGATIONS = [
    {"id": "C17_R1", "theorem": "Iora.C17.R1_at_most_once", "kind": "proved",
     "statement": "non-idempotent method: every attempt but the last ended in HttpRequestNotSentError without calling sendSync (all budgets, scripts, client states)"},
    {"id": "C17_R1_count", "theorem": "Iora.C17.R1_send_count", "kind": "proved",
     "statement": "non-idempotent method: at most one attempt reaches sendSync"},
    {"id": "C17_R1_trace", "theorem": "Iora.C17.R1_trace", "kind": "proved",
     "statement": "non-idempotent method: engine->send is called at most once in the whole trace of the request"},
    {"id": "C17_R2", "theorem": "Iora.C17.R2_budget", "kind": "proved",
     "statement": "every method: attempts <= max(budget,0)+1; the model's fuel is never the reason the loop stops"},
    {"id": "C17_R3", "theorem": "Iora.C17.R3_framing_not_retried", "kind": "proved",
     "statement": "every method: an attempt followed by another attempt did not end in HttpFramingError"},
    {"id": "C17_R3_last", "theorem": "Iora.C17.R3_result_is_last", "kind": "proved",
     "statement": "the caller gets the outcome of the last attempt"},
    {"id": "C17_R3_outcomes", "theorem": "Iora.C17.R3_framing_outcomes", "kind": "proved",
     "statement": "malformed message / response cap / sync-buffer overflow after the request was sent end the attempt in HttpFramingError"},
    {"id": "C17_R4a", "theorem": "Iora.C17.R4_failure_evicts", "kind": "proved",
     "statement": "an attempt that held the lease and failed (any failure) leaves no cached connection for the host"},
    {"id": "C17_R4b", "theorem": "Iora.C17.R4_reuse_only_if", "kind": "proved",
     "statement": "a connection stays cached only if reuse is configured, no close signal, no surplus handed to the framer, not close-delimited, NO residue in the transport when probed (residualDataPending, repair FC17a), async switch ok"},
    {"id": "C17_R4i", "theorem": "Iora.C17.R4_residue_evicts", "kind": "proved",
     "statement": "whatever the response: if the transport still holds received bytes / a close / an error when the reuse decision is taken, nothing stays cached for the host"},
    {"id": "C17_R4b2", "theorem": "Iora.C17.R4_surplus_or_close_delimited_never_kept", "kind": "proved",
     "statement": "a kept connection's response was completed by frameResponse (never by peer close) with no surplus among the bytes handed to the framer AND none left in the transport"},
    {"id": "C17_R4g", "theorem": "Iora.C17.R4_close_signal_spec", "kind": "proved",
     "statement": "responseRequestsClose (the C++ index loop) = RFC 7230 reading for every value/version: comma-split, OWS-trimmed, ASCII-case-folded token `close`, else `keep-alive`, else HTTP/1.0 default"},
    {"id": "C17_R4g0", "theorem": "Iora.C17.R4_close_signal_absent", "kind": "proved",
     "statement": "no Connection field: close iff version is 1.0"},
    {"id": "C17_R4h", "theorem": "Iora.C17.R4_close_token_evicts", "kind": "proved",
     "statement": "a completed response whose Connection field has a `close` token leaves no cached connection"},
    {"id": "C17_R4c", "theorem": "Iora.C17.R4_sequences", "kind": "proved",
     "statement": "every sequence of requests: no session used after close; <=1 cached connection per host:port; cached sessions never closed; no lease left held"},
    {"id": "C17_R4d", "theorem": "Iora.C17.R4_one_lease_holder", "kind": "proved",
     "statement": "concurrent callers, every schedule: per host:port, threads inside an exchange = lease entries <= 1"},
    {"id": "C17_R4e", "theorem": "Iora.C17.R4_concurrent_trace", "kind": "proved",
     "statement": "concurrent callers, every schedule: no session used after close; cache invariant"},
    {"id": "C17_R123c", "theorem": "Iora.C17.R123_concurrent", "kind": "proved",
     "statement": "concurrent callers, every schedule: every thread obeys the retry discipline (R1/R2/R3) at every moment"},
    {"id": "C17_R1c", "theorem": "Iora.C17.R1_concurrent_reading", "kind": "proved",
     "statement": "a finished non-idempotent caller: <= budget+1 attempts, all but the last not sent, at most one reached sendSync"},
    {"id": "C17_R4f", "theorem": "Iora.C17.R4_no_deadlock", "kind": "proved",
     "statement": "concurrent callers, every schedule: while a caller is unfinished some thread can make a working step (lease never strands callers)"},
    {"id": "C17_R4k", "theorem": "Iora.C17.R4_other_mode_not_reused", "kind": "proved",
     "statement": "a cached connection of the other TLS mode (FC07a) or an idle one is closed and evicted, never handed out; a new one is opened in the request's mode"},
    {"id": "C17_P1", "theorem": "Iora.C17.P1_entry_table", "kind": "proved",
     "statement": "the public entry points (every function with an `int retries` parameter) and the method each hands to performRequest, directly or by delegation; no duplicate rows (translator: one request-issuing call per body, no try/catch, not in a loop, budget = the caller's `retries`)"},
    {"id": "C17_P2", "theorem": "Iora.C17.P2_call_sites", "kind": "proved",
     "statement": "EVERY textual call of performRequest/executeRequest (http_client.hpp + pool): executeRequest is called by performRequest alone; every caller of performRequest is a checked row of the entry table; no function calls twice; every such row is a real call site"},
    {"id": "C17_P2u", "theorem": "Iora.C17.P2_public_is_one_performRequest", "kind": "proved",
     "statement": "(unfolding of publicCall) a public call is one performRequest with the table's method and the caller's budget"},
    {"id": "C17_R1_public", "theorem": "Iora.C17.R1_public", "kind": "proved",
     "statement": "R1/R2 for the public API: post/postJson/postFile/postStream/postJsonAsync with any budget and script: all attempts but the last not sent, at most one reaches sendSync, at most budget+1 attempts"},
    {"id": "C17_backoff", "theorem": "Iora.C17.Backoff_fits_int", "kind": "proved",
     "statement": "the back-off delay (1 << min(attempt,16)) * 100 + jitter fits a 32-bit int for every attempt (repair FC17c; unclamped it overflows at attempt 25)"},
    {"id": "C17_R6_waits", "theorem": "Iora.C17.R6_wait_budgets", "kind": "proved",
     "statement": "time-out expression of every timed wait, from the source: lease = leaseAcquireTimeout, loopback connect = min(connectTimeout, 200), receive = requestTimeout, probe = 0"},
    {"id": "C17_R5", "theorem": "Iora.C17.R5_exact", "kind": "proved",
     "statement": "isIdempotentMethod = exact membership in {GET,HEAD,PUT,DELETE,OPTIONS,TRACE}"},
    {"id": "C17_R5_case", "theorem": "Iora.C17.R5_case_sensitive", "kind": "proved",
     "statement": "an idempotent token consists of upper-case ASCII letters only"},
    {"id": "C17_R5_table", "theorem": "Iora.C17.R5_table_and_defaults", "kind": "proved",
     "statement": "the extracted idempotent table is the RFC 9110 table; every public entry point has default budget 0"},
    {"id": "C17_R6_bound", "theorem": "Iora.C17.R6_receive_bound", "kind": "proved",
     "statement": "an attempt makes at most (#need-more answers)+1 receiveSync calls"},
    {"id": "C17_R6_silence", "theorem": "Iora.C17.R6_silence_ends_attempt", "kind": "proved",
     "statement": "a silent peer ends the attempt with an error at that receive"},
    {"id": "C17_R6_lease", "theorem": "Iora.C17.R6_lease_wait_bounded", "kind": "proved",
     "statement": "acquireLease's timed wait as a loop of wake-ups with ONE absolute deadline: for EVERY wake-up pattern (notify_all of other hosts' releases, spurious, cleanup) the wait ends no later than leaseAcquireTimeout after it began, a time-out is reported exactly then, the lease is granted only by a wake-up that saw the host free and the client not closing"},
    {"id": "C17_R6_lease_foreign", "theorem": "Iora.C17.R6_lease_wait_foreign_wakeups", "kind": "proved",
     "statement": "the seeded scenario C17-d: any number of wake-ups by exchanges with another host, at any interval, while the host stays leased: the waiter times out at exactly leaseAcquireTimeout"},
    {"id": "C17_R6_dns", "theorem": "Iora.C17.R6_send_and_dns_waits", "kind": "proved",
     "statement": "the list of timed waits of the request path is complete (6 rows): sendSync is bounded by requestTimeout; (observation) the DNS look-up of a host name runs on DnsClient's own defaults, which no HttpClient::Config value bounds"},
    {"id": "C17_U1", "theorem": "Iora.C17.U1_port_in_range", "kind": "proved",
     "statement": "parseUrl: the port handed to connectSync and put into the host:port key is < 65536"},
    {"id": "C17_U2", "theorem": "Iora.C17.U2_port_wraps", "kind": "proved",
     "statement": "(observation) static_cast<uint16_t>(stoi): port p+65536 is the same port/key as p (http://h:65616/ goes to port 80)"},
    {"id": "C17_U3", "theorem": "Iora.C17.U3_url_failure", "kind": "proved",
     "statement": "parseUrl fails only with invalid_argument (no match) or out_of_range (port beyond int), before the lease; either way <= budget+1 executeRequest calls and exactly ONE for a non-idempotent method"},
    {"id": "C17_U3t", "theorem": "Iora.C17.U3_tie", "kind": "proved",
     "statement": "for invalid_argument the count of the pre-lease failure loop is the full model's; no engine call, client unchanged"},
    {"id": "C17_L1", "theorem": "Iora.C17.L1_cleanup", "kind": "proved",
     "statement": "cleanup(): _closing set for good, exactly the cached sessions closed, cache empty"},
    {"id": "C17_L2", "theorem": "Iora.C17.L2_after_cleanup_every_request_fails", "kind": "proved",
     "statement": "after cleanup EVERY request (method, budget, script): no engine call at all, cache stays empty, no attempt reaches sendSync, <= budget+1 attempts, std::runtime_error"},
    {"id": "C17_S1", "theorem": "Iora.C17.S1_start_failure_no_attempt", "kind": "proved",
     "statement": "ensureInitialized() runs before the loop: a transport start failure ends performRequest with std::runtime_error after ZERO attempts (no executeRequest, no engine call, client unchanged), for every method and budget"},
    {"id": "C17_G", "theorem": "Iora.C17.G_skeleton_pins", "kind": "proved",
     "statement": "skeleton facts the model relies on without computing with them (calls before/inside the pre-send region, cap comparison, receiveSync never ok with 0 bytes, form of the lease wait, thrown types of parseUrl) are pinned: a change stops the build"},
    {"id": "C17_R4link", "theorem": "Iora.C17.R4_bytes_reuse_decision_agrees", "kind": "proved",
     "statement": "C15's byte-level executeReceive drops the connection iff C17's underLease does on the attempt ABSTRACTED from the same bytes (recvs, surplus, residue, Connection value, version computed by the byte-level loop); result classes agree — every script, client state, host, configuration"},
    {"id": "C17_R4rrc", "theorem": "Iora.C17.R4_bytes_close_signal_agrees", "kind": "proved",
     "statement": "the two Lean models of responseRequestsClose (C15 split/trim/lower, C17 index loop) agree on every parsed response"},
    {"id": "C17_R4beyond", "theorem": "Iora.C17.R4_bytes_beyond_message_not_cached", "kind": "proved",
     "statement": "byte level: if ANY received byte lies beyond the framed message (handed to the framer or left in the transport) nothing is cached for the host afterwards"},
    {"id": "C17_R3chunk", "theorem": "Iora.C17.R3_bytes_chunk_size_above_cap_is_framing_error", "kind": "proved",
     "statement": "advanceChunked rejects right after the chunk-size parse, BEFORE waiting for chunk data, when the number does not parse or exceeds the cap (regenerated fact); the byte-level model accepts a size line only within the cap, answers NeedMore after a complete size line only for a size within the cap; and every byte-level framing error is HttpFramingError here (never retried), connection dropped"},
    {"id": "C17_R3chunk_demo", "theorem": "Iora.C17.R3_bytes_chunk_demo", "kind": "proved",
     "statement": "concrete bytes: chunk-size 7FFFFFFF / FFFFFFFFFFFFFFFF / cap+1 are Malformed at the size line with the default cap, exactly the cap is NeedMore"},
    {"id": "C17_R4demo", "theorem": "Iora.C17.R4_bytes_demo", "kind": "proved",
     "statement": "non-vacuity with concrete bytes: keep-alive response + 1 surplus byte in the same delivery is not cached, without it it is"},
]
LEANCHECK = MODULES + ["IoraModel.Lemmas.HttpClientLife", "IoraModel.Lemmas.HttpRetryFraming", "IoraModel.Model.HttpClientLife", "IoraModel.Lemmas.HttpRetry", "IoraModel.Lemmas.HttpRetryCache", "IoraModel.Lemmas.HttpLease", "IoraModel.Lemmas.HttpClose", "IoraModel.Model.HttpRetry", "IoraModel.Model.HttpLease"]
ANCHOR_FILES = ["include/iora/network/http_client.hpp", "include/iora/network/transport_impl.hpp"]
HERE = os.path.dirname(os.path.dirname(os.path.abspath(__file__)))

# the generator's own table (RFC 9110 §9.2.2) — independent of the source and of the model
RFC_IDEMPOTENT = {"GET", "HEAD", "PUT", "DELETE", "OPTIONS", "TRACE"}
METHODS_IDEM = ["GET", "HEAD", "PUT", "DELETE", "OPTIONS", "TRACE"]
METHODS_NON = ["POST", "PATCH", "get", "Get", "post", "put", "delete", "FOO", "GETX", "GE", "PUTT", "LOCK", "hEAD", "Post", "TRACe", "OPTION"]
# three DISTINCT time-outs, requestTimeout the smallest, so that a wait with the wrong (or a scaled) time-out is recognisable
REQUEST_TIMEOUT_MS = 120          # Config::requestTimeout the harness configures (client-visible milliseconds)
CONNECT_TIMEOUT_MS = 2000         # Config::connectTimeout: connectSync to a loopback address waits min(2000, 200) = 200 ms. (Not below the cap:
                                  # the engine applies connectTimeout itself, and two equal time-outs on one connect would race.)
LEASE_TIMEOUT_MS = 250            # Config::leaseAcquireTimeout (0 in some streams: wait for ever)
RESET = "reset %d %d %d %d %d"    # reuseConnections, response cap, lease, request, connect
# the public API as documented (independent of the source and of the model): entry point -> HTTP method
PY_ENTRY = {"get": "GET", "head": "HEAD", "post": "POST", "postJson": "POST", "postFile": "POST", "postStream": "POST",
            "deleteRequest": "DELETE", "getAsync": "GET", "postJsonAsync": "POST"}
FRAMING_CLASSES = "FPV"


# ------------------------------------------------------------------ responses (generator-side reference)
class Resp:
    def __init__(self, wire, status, conn, version, surplus, body, header_end, mode):
        self.wire, self.status, self.conn, self.version, self.surplus = wire, status, conn, version, surplus
        self.body, self.header_end, self.mode = body, header_end, mode

    def sem(self):
        return "%d,%s,%s,%d" % (self.status, "~" if self.conn is None else hexs(self.conn), hexs(self.version), 1 if self.surplus else 0)

    def boundaries(self):
        """offsets at and around every field of the response"""
        msg = self.wire
        out = {0, 1, len(msg) - 1, len(msg)}
        off = 0
        for line in msg[:self.header_end].split(b"\r\n"):
            out |= {off, off + 1, off + len(line), off + len(line) + 1, off + len(line) + 2}
            c = line.find(b":")
            if c >= 0:
                out |= {off + c, off + c + 1, off + c + 2}
            off += len(line) + 2
        out |= {self.header_end - 1, self.header_end, self.header_end + 1}
        return sorted(o for o in out if 0 <= o <= len(msg))


READ_CHUNK = 8192      # executeRequest's receive buffer: one receiveSync hands over at most this many bytes


def mk_resp(tag, method="GET", version=b"1.1", status=200, conn=None, mode="cl", surplus=b"", interim=0, conn_name=b"Connection", total=None, pad=0):
    """`total`: pad (the body, or an X-Pad field for body-less responses) so that the message without surplus is exactly that long"""
    if total is not None:
        base = len(mk_resp(tag, method, version, status, conn, mode, b"", interim, conn_name).wire)
        need = total - base
        # length digits (Content-Length / chunk sizes) may grow with the padding: search around the naive value
        for p in range(max(need - 12, 1), need + 1):
            r = mk_resp(tag, method, version, status, conn, mode, surplus, interim, conn_name, pad=p)
            if len(r.wire) - len(surplus) == total:
                return r
        raise ValueError("cannot pad a %s response to %d" % (mode, total))
    body = (b"body-" + tag + b"." * pad) if mode != "nobody" else b""
    reason = {200: b"OK", 201: b"Created", 204: b"No Content", 304: b"Not Modified", 404: b"Not Found", 500: b"Oops", 503: b"Busy"}.get(status, b"X")
    head = b"HTTP/" + version + b" " + str(status).encode() + b" " + reason + b"\r\n"
    head += b"X-Tag: " + tag + b"\r\n"
    if mode == "nobody" and pad:
        head += b"X-Pad: " + b"p" * max(pad - 9, 0) + b"\r\n"
    if conn is not None:
        head += conn_name + b": " + conn + b"\r\n"
    if mode == "cl":
        head += b"Content-Length: " + str(len(body)).encode() + b"\r\n"
        payload = body
    elif mode == "chunked":
        head += b"Transfer-Encoding: chunked\r\n"
        cut = len(body) // 2
        payload = b""
        for part in (body[:cut], body[cut:]):
            if part:
                payload += ("%x" % len(part)).encode() + b"\r\n" + part + b"\r\n"
        payload += b"0\r\n\r\n"
    elif mode == "nobody":
        if status not in (204, 304):
            head += b"Content-Length: 7\r\n"     # HEAD: a length without a body
        payload = b""
    else:   # close-delimited
        payload = body
    pre = b"HTTP/1.1 100 Continue\r\n\r\n" * interim
    wire = pre + head + b"\r\n" + payload
    return Resp(wire + surplus, status, conn, version, bool(surplus), body, len(pre) + len(head) + 2, mode)


def py_close_signalled(conn, version):
    """RFC 7230 §6.1/§6.3, written independently of the model: token list, OWS-trimmed, ASCII case-folded."""
    if conn is not None:
        toks = [t.strip(b" \t").lower() for t in conn.split(b",")]
        if b"close" in toks:
            return True
        if b"keep-alive" in toks:
            return False
    return version == b"1.0"


# body-framing violations (not evaluated for a HEAD request: RFC 9112 §6.3 rule 1 comes first)
MALFORMED_BODY = [
    b"HTTP/1.1 200 OK\r\nContent-Length: 5\r\nTransfer-Encoding: chunked\r\n\r\n5\r\nhello\r\n0\r\n\r\n",
    b"HTTP/1.1 200 OK\r\nContent-Length: 5x\r\n\r\nhello",
    b"HTTP/1.1 200 OK\r\nContent-Length: 3, 4\r\n\r\nhello",
    b"HTTP/1.1 200 OK\r\nTransfer-Encoding: chunked\r\n\r\nzz\r\nhello\r\n0\r\n\r\n",
    b"HTTP/1.1 200 OK\r\nContent-Length: \r\n\r\n",
    b"HTTP/1.1 200 OK\r\nContent-Length: 99999999999999999999999\r\n\r\n",
]
# header-block violations (every method)
MALFORMED = [
    b"HTTP/1.1 200 OK\r\nContent-Length: 5\r\nContent-Length: 6\r\n\r\nhello!",
    b"HTTP/2.0 200 OK\r\nContent-Length: 0\r\n\r\n",
    b"HTTP/1.1 abc OK\r\nContent-Length: 0\r\n\r\n",
    b"garbage-without-a-status-line\r\n\r\n",
    b"HTTP/1.1 200 OK\r\nX-A: 1\r\n folded\r\nContent-Length: 0\r\n\r\n",
    b"HTTP/1.1 200 OK\r\nno colon here\r\nContent-Length: 0\r\n\r\n",
]
DEFAULT_CAP = 16 * 1024 * 1024      # effectiveCap = max(maxResponseBytes, jsonConfig.maxPayloadSize) of Config() (the harness sets both when cap > 0)


def chunk_over_cap(cap):
    """well-formed chunked responses that ANNOUNCE a chunk above the response cap (`cap` as on the reset line, 0 = default) and deliver five bytes
    of it: a deterministic framing error at the size line, whatever the peer does next"""
    eff = cap if cap > 0 else DEFAULT_CAP
    return [b"HTTP/1.1 200 OK\r\nTransfer-Encoding: chunked\r\n\r\n" + sz + b"\r\nhello"
            for sz in (("%X" % (eff + 1)).encode(), b"7FFFFFFF", b"FFFFFFFFFFFFFFFF", ("%x" % (eff + 1)).encode() + b";ext=1")]


def gen_chunk_over_cap(rng, seq):
    """(seed C17-e) every announced-too-large chunk x what the server does after the bytes (f = close, s = stall until the request time-out,
    k = keep the connection open and idle) x idempotent methods at budgets 0,1,2,4 (+ a POST): the attempt must end in HttpFramingError at
    once — not wait, not be retried."""
    cases = []
    for cap in (0, 3000):
        for mi, m in enumerate(chunk_over_cap(cap)):
            for act in "fsk":
                for method, budget in (("GET", 0), ("GET", 1), ("PUT", 2), ("DELETE", 4), ("GET", 2), ("POST", 2)):
                    if (mi + budget) % 2 and act == "k":
                        continue
                    seq.next()
                    tok = "F@" + conc(resp=m, act=act, cut=rng.choice([0, 0, len(m) - 7]))
                    cases.append({"cat": "chunk-over-cap", "ops": [RESET % (1, cap, LEASE_TIMEOUT_MS, REQUEST_TIMEOUT_MS, CONNECT_TIMEOUT_MS),
                                                                   req_op(method, budget, 0, 0, [tok] * (budget + 2))]})
    return cases


CONN_VALUES = [None, b"keep-alive", b"close", b"Close", b"CLOSE", b"foo, close", b"close, foo", b"keep-alive, close", b"close,keep-alive",
               b" close ", b"\tclose", b"foo,\tclose\t", b"x-close-hint", b"closed", b"clos", b"keep-alive, upgrade", b"Keep-Alive", b"upgrade",
               b"", b",", b",close", b"close,", b"foo,,close", b"c lose", b"keep-alive,", b"  ,  ,  "]


def request_fields(method, seq, body_len, reuse=True):
    """(length, offsets at and around every field) of the request the client will build"""
    line = "%s /r%d?q=1 HTTP/1.1\r\nHost: 127.0.0.1\r\nUser-Agent: Iora-HttpClient/1.0\r\nConnection: %s\r\nX-Req-Id: %d\r\n" % (
        method, seq, "keep-alive" if reuse else "close", seq)
    if body_len:
        line += "Content-Length: %d\r\n" % body_len
    fields = []
    off = 0
    for part in line.split("\r\n")[:-1]:
        fields += [off, off + 1, off + len(part), off + len(part) + 1, off + len(part) + 2]
        c = part.find(":")
        if c >= 0:
            fields += [off + c, off + c + 1, off + c + 2]
        sp = part.find(" ")
        if off == 0 and sp >= 0:
            fields += [sp, sp + 1]
        off += len(part) + 2
    total = len(line) + 2 + body_len
    fields += [total - body_len - 2, total - body_len - 1, total - body_len, total - 1, total]
    if body_len > 4096:      # inside a body that does not fit one segment / one socket write
        fields += [total - body_len + x for x in (1000, 4096, 30000, 65535, 65536, 65537) if x < body_len]
    return total, sorted(set(f for f in fields if 0 <= f <= total))


# ------------------------------------------------------------------ script tokens:  <semantic>@<concrete>
def conc(req="n0", resp=b"", j=-1, act="k", cut=0, xbody=None):
    return "%s,%s,%d,%s,%d,%s" % (req, hexs(resp), j, act, cut, "~" if xbody is None else hexs(xbody))


def tok_client(cls):
    return cls + "@" + conc()


def tok_ok(r, async_ok=True, cut=0, residue=False):
    """residue: bytes follow the message in the same write but the read that completes the message stops exactly at its end,
    so the framer never sees them (they stay in the transport); the model is told `residue` instead of `surplus`"""
    if residue:
        sem = "%d,%s,%s,0" % (r.status, "~" if r.conn is None else hexs(r.conn), hexs(r.version))
        return "K:%s:%d:1@%s" % (sem, 1 if async_ok else 0, conc(resp=r.wire, cut=cut, xbody=r.body))
    return "K:%s:%d@%s" % (r.sem(), 1 if async_ok else 0, conc(resp=r.wire, cut=cut, xbody=r.body))


def tok_req_fault(kind, k):
    """kind: r = RST, f = FIN, s = silence after k request bytes; w = RST with the request unread; a = RST at accept"""
    return ("T" if kind == "s" else "C") + "@" + conc(req="%s%d" % (kind, k))


def tok_resp_fault(r, j, act):
    """j bytes of the response r, then f = FIN, r = RST, s = silence"""
    return ("T" if act == "s" else "C") + "@" + conc(resp=r.wire, j=j, act=act)


def rand_ok(rng, tag, method):
    head = method == "HEAD"
    mode = "nobody" if head else rng.choice(["cl", "cl", "cl", "chunked", "nobody"])
    status = rng.choice([200, 200, 200, 201, 404, 500, 503]) if mode != "nobody" or head else rng.choice([204, 304])
    version = rng.choice([b"1.1", b"1.1", b"1.1", b"1.0"])
    conn = rng.choice(CONN_VALUES) if rng.chance(2, 3) else None
    surplus = rng.choice([b"", b"", b"", b"X", b"HTTP/1.1 200 OK\r\nContent-Length: 0\r\n\r\n", b"\r\n"])
    r = mk_resp(tag, method, version, status, conn, mode, surplus, rng.choice([0, 0, 0, 1, 2]), rng.choice([b"Connection", b"connection", b"CONNECTION"]))
    cut = rng.choice([0, 0, 1, r.header_end - 2, r.header_end, r.header_end + 1, len(r.wire) - len(surplus) - 1, rng.range(1, max(len(r.wire) - 1, 1))])
    if cut < 0 or cut >= len(r.wire) - len(surplus):
        cut = 0          # never separate the surplus from the message it follows (see `assumptions`)
    return tok_ok(r, not rng.chance(1, 12), cut)


def rand_close_delimited(rng, tag, method):
    r = mk_resp(tag, method, rng.choice([b"1.1", b"1.0"]), rng.choice([200, 500]), rng.choice([None, b"close", b"keep-alive"]), "close")
    # any cut at or after the end of the header block is a complete close-delimited message
    j = rng.choice([len(r.wire), len(r.wire), r.header_end, r.header_end + 1, rng.range(r.header_end, len(r.wire))])
    cut = rng.choice([0, r.header_end - 1, r.header_end])
    if cut >= j:
        cut = 0
    return "D:%s@%s" % (r.sem(), conc(resp=r.wire, j=j, act="f", cut=cut, xbody=r.wire[r.header_end:j]))


def rand_fault(rng, cls, tag, method, seq, body_len, reuse_cfg, cap=0):
    total, fields = request_fields(method, seq, body_len, reuse_cfg)
    if cls in "LRBMESO":
        return tok_client(cls)
    if cls in "TC":
        on_request = rng.chance(1, 2)
        if on_request:
            if cls == "T":
                return tok_req_fault("s", rng.choice(fields))
            v = rng.below(5)
            if v == 0:
                return tok_req_fault("w", 0)
            k = rng.choice(fields)
            if v >= 3 and k == 0:
                k = 1            # FIN before any byte was read races with the arrival of the request; RST covers offset 0
            return tok_req_fault("r" if v < 3 else "f", k)
        r = mk_resp(tag, method, mode=rng.choice(["cl", "chunked"]) if method != "HEAD" else "cl")
        lim = len(r.wire) if method != "HEAD" else r.header_end
        j = max(0, min(rng.choice(r.boundaries() + [rng.range(0, lim - 1)]), lim - 1))
        return tok_resp_fault(r, j, "s" if cls == "T" else rng.choice("fr"))
    if cls == "F":
        if method != "HEAD" and rng.chance(1, 4):
            m = rng.choice(chunk_over_cap(cap))
            return "F@" + conc(resp=m, act=rng.choice("fsk"), cut=rng.choice([0, 0, len(m) - 7]))
        m = rng.choice(MALFORMED if method == "HEAD" else MALFORMED + MALFORMED_BODY)
        return "F@" + conc(resp=m, cut=rng.choice([0, 0, 5, len(m) // 2]))
    if cls == "V":
        return "V@" + conc(resp=b"HTTP/1.1 200 OK\r\nContent-Length: 5000\r\n\r\n" + b"v" * 900, act="s")
    raise ValueError(cls)


def tok_cap(rng, tag, cap):
    hdr = b"HTTP/1.1 200 OK\r\nX-Tag: " + tag + b"\r\n\r\n"
    return "P@" + conc(resp=hdr + b"p" * (cap + 1 - len(hdr) + rng.choice([0, 1, 50])), act="s")


RESET1 = RESET % (1, 0, LEASE_TIMEOUT_MS, REQUEST_TIMEOUT_MS, CONNECT_TIMEOUT_MS)


def call_op(entry, budget, url_kind, body_len, toks):
    return "call %s %d %d %d %s" % (entry, budget, url_kind, body_len, " ".join(toks))


def req_op(method, budget, url_kind, body_len, toks):
    return "req %s %d %d %d %s" % (hexs(method.encode("latin-1")), budget, url_kind, body_len, " ".join(toks))


# ------------------------------------------------------------------ case generation
class Seq:
    """running number of `req` operations = the X-Req-Id the harness will use (exact unless the harness had to be restarted)"""
    def __init__(self):
        self.n = 0

    def next(self):
        self.n += 1
        return self.n


def gen_random(rng, seq, n_cases):
    cases = []
    for ci in range(n_cases):
        reuse_cfg = not rng.chance(1, 8)
        cap = rng.choice([0, 0, 0, 3000])
        lease = rng.choice([LEASE_TIMEOUT_MS, LEASE_TIMEOUT_MS, 0])      # 0 = acquireLease waits without a time-out
        classes = list("LRBMESOTTTCCCCFFV") if lease else list("RBMESOTTTCCCCFFV")
        ops = [RESET % (1 if reuse_cfg else 0, cap, lease, REQUEST_TIMEOUT_MS, CONNECT_TIMEOUT_MS)]
        for ri in range(rng.choice([1, 2, 2, 3, 4, 6])):
            s = seq.next()
            method = rng.choice(METHODS_IDEM) if rng.chance(1, 2) else rng.choice(METHODS_NON)
            budget = rng.choice([0, 1, 1, 2, 2, 3, 3, -1, 5])
            host = 1 if rng.chance(1, 6) else 0
            url_kind = 9 if rng.chance(1, 40) else host
            body_len = rng.choice([0, 0, 5, 300, 300, 70000]) if method not in ("GET", "HEAD") else 0
            toks = []
            for ai in range(max(budget, 0) + 2):
                tag = ("c%dr%da%d" % (ci, ri, ai)).encode()
                roll = rng.below(100)
                if roll < 34:
                    t = rand_ok(rng, tag, method)
                elif roll < 40 and method != "HEAD":      # a HEAD response has no body, so it is never close-delimited
                    t = rand_close_delimited(rng, tag, method)
                elif roll < 44 and cap:
                    t = tok_cap(rng, tag, cap)
                else:
                    t = rand_fault(rng, rng.choice(classes), tag, method, s, body_len, reuse_cfg, cap)
                if rng.chance(1, 25):
                    t = "I" + t
                toks.append(t)
            entries = [e for e, mth in PY_ENTRY.items() if mth == method]
            if entries and rng.chance(1, 2):
                ops.append(call_op(rng.choice(entries), budget, url_kind, body_len, toks))     # through the public API
            else:
                ops.append(req_op(method, budget, url_kind, body_len, toks))
        cases.append({"cat": "sequence", "ops": ops})
    return cases


def gen_offsets(rng, seq, every_byte):
    """Fault position sweep: (method, budget, fault kind) x offsets of the request and of the response.
    quick: offsets at and around every field; thorough: EVERY byte offset."""
    cases = []
    methods = [("POST", 5), ("GET", 0)] if not every_byte else [("POST", 5), ("GET", 0), ("PUT", 3), ("PATCH", 0)]
    budgets = [1] if not every_byte else [0, 1, 2, 3]
    for method, body_len in methods:
        for budget in budgets:
            # the request the client builds: X-Req-Id digits vary with the running number, so compute per case
            probe_total, probe_fields = request_fields(method, seq.n + 1, body_len)
            offs = list(range(probe_total + 1)) if every_byte else probe_fields
            for kind in "rfs":
                for k in offs:
                    if kind == "f" and k == 0:
                        continue
                    s = seq.next()
                    tag = ("o%d" % s).encode()
                    final = tok_ok(mk_resp(tag, method))
                    n_fault = max(budget, 0) + 1 if rng.chance(1, 3) else 1     # sometimes the fault persists over the whole budget
                    toks = [tok_req_fault(kind, k)] * n_fault + [final] * (max(budget, 0) + 2 - n_fault)
                    cases.append({"cat": "offset-request", "ops": [RESET1, req_op(method, budget, 0, body_len, toks)]})
            for mode in ("cl", "chunked"):
                probe = mk_resp(b"o%d" % (seq.n + 1), method, mode=mode)
                offs = list(range(len(probe.wire))) if every_byte else [o for o in probe.boundaries() if o < len(probe.wire)]
                for act in "frs":
                    for j in offs:
                        s = seq.next()
                        tag = ("o%d" % s).encode()
                        r = mk_resp(tag, method, mode=mode)
                        jj = min(j, len(r.wire) - 1)
                        final = tok_ok(mk_resp(tag + b"z", method))
                        n_fault = max(budget, 0) + 1 if rng.chance(1, 3) else 1
                        toks = [tok_resp_fault(r, jj, act)] * n_fault + [final] * (max(budget, 0) + 2 - n_fault)
                        cases.append({"cat": "offset-response", "ops": [RESET1, req_op(method, budget, 0, body_len, toks)]})
    return cases


def gen_persistent(rng, seq):
    """the same fault on EVERY attempt (the script is longer than any budget allows): counts attempts for each class, each kind of
    method and each budget — pre-send faults included, which random scripts rarely repeat often enough"""
    cases = []
    for cls in "RBMLESOTCFV":
        for method in ("GET", "POST", "PUT", "PATCH", "get"):
            for budget in (0, 1, 2, 4) + ((40,) if cls == "R" and method in ("GET", "POST") else ()):
                s = seq.next()
                tag = ("q%d" % s).encode()
                if cls in "RBMLESO":
                    t = tok_client(cls)
                elif cls == "T":
                    t = tok_req_fault("s", 25)
                elif cls == "C":
                    t = tok_req_fault("r", 25)
                elif cls == "F":
                    t = "F@" + conc(resp=MALFORMED[1])
                else:
                    t = rand_fault(rng, "V", tag, method, s, 0, True)
                entries = [e for e, mth in PY_ENTRY.items() if mth == method]
                op = call_op(rng.choice(entries), budget, 0, 0, [t] * (budget + 3)) if entries and rng.chance(1, 2) else \
                    req_op(method, budget, 0, 0, [t] * (budget + 3))
                cases.append({"cat": "persistent", "ops": [RESET1, op]})
    return cases


FORGED = b"HTTP/1.1 200 OK\r\nContent-Length: 6\r\n\r\nFORGED"


def gen_read_boundary(rng, seq, thorough):
    """Responses whose length is at / just below / just above a multiple of the client's read size (8192), for every framing
    mode, without surplus, with surplus in the SAME write, and with surplus in a LATER write; each followed by a second request
    that shows whether the connection was kept. With surplus in the same write the connection must be gone whatever the
    alignment (at k*8192 the framer is never handed the surplus: it is residue in the transport when the reuse decision is taken).
    Surplus in a later write arrives after the decision (the client cannot know): judged by the monitors only — reuse is allowed,
    misattribution is not."""
    cases = []
    ks = (1, 2, 3) if not thorough else (1, 2, 3, 4, 5)
    for k in ks:
        for delta in (-1, 0, 1):
            for mode, method in (("cl", "GET"), ("chunked", "POST"), ("nobody", "HEAD"), ("cl", "PUT")):
                if mode == "nobody" and k > 2 and not thorough:
                    continue
                total = k * READ_CHUNK + delta
                for placement in ("none", "same", "later"):
                    seq.next()
                    tag = ("b%d" % seq.n).encode()
                    surplus = b"" if placement == "none" else rng.choice([FORGED, b"X", b"\r\n"])
                    r = mk_resp(tag, method, mode=mode, surplus=surplus, total=total)
                    assert len(r.wire) - len(surplus) == total
                    if placement == "same":
                        t = tok_ok(r, True, 0, residue=(delta == 0))
                    elif placement == "later":
                        t = tok_ok(r, True, total)          # pause at the end of the message, then the surplus
                    else:
                        t = tok_ok(r)
                    seq.next()
                    follow = tok_ok(mk_resp(tag + b"n", "GET"))
                    first, second = req_op(method, 0, 0, 0, [t, follow]), req_op("GET", 0, 0, 0, [follow, follow])
                    if placement == "later":
                        # the client stays idle until the late write has arrived; a request issued at once would race with it,
                        # and bytes that arrive after a request was sent are that request's response by definition
                        cases.append({"cat": "late-surplus", "ops": [RESET1, first, "pause 15", second]})
                    else:
                        cases.append({"cat": "read-boundary", "ops": [RESET1, first, second]})
        # close-delimited bodies ending on the boundary (never reusable; the boundary must not change that)
        for delta in (-1, 0, 1):
            seq.next()
            tag = ("b%d" % seq.n).encode()
            r = mk_resp(tag, "GET", mode="close", total=k * READ_CHUNK + delta)
            t = "D:%s@%s" % (r.sem(), conc(resp=r.wire, j=len(r.wire), act="f", xbody=r.body))
            seq.next()
            follow = tok_ok(mk_resp(tag + b"n", "GET"))
            cases.append({"cat": "read-boundary", "ops": [RESET1, req_op("GET", 0, 0, 0, [t, follow]), req_op("GET", 0, 0, 0, [follow, follow])]})
    return cases


def gen_repeated_connection(rng, seq):
    """The `Connection` field spread over several field lines: by RFC 9110 §5.3 they combine, in order, into one comma-separated
    list, so a `close` on ANY of the lines closes. The model is told the combined value (what the framer must hand over)."""
    cases = []
    combos = [([b"close", b"keep-alive"], b"Connection"), ([b"keep-alive", b"close"], b"Connection"), ([b"close", b"upgrade"], b"connection"),
              ([b"foo", b"Close", b"bar"], b"Connection"), ([b"keep-alive", b"upgrade"], b"Connection"), ([b"keep-alive", b"keep-alive"], b"CONNECTION")]
    for vals, second_name in combos:
        for version in (b"1.1", b"1.0"):
            seq.next()
            tag = ("r%d" % seq.n).encode()
            body = b"body-" + tag
            head = b"HTTP/" + version + b" 200 OK\r\nX-Tag: " + tag + b"\r\nConnection: " + vals[0] + b"\r\n"
            for v in vals[1:]:
                head += second_name + b": " + v + b"\r\n"
            wire = head + b"Content-Length: " + str(len(body)).encode() + b"\r\n\r\n" + body
            combined = b", ".join(vals)
            t = "K:200,%s,%s,0:1@%s" % (hexs(combined), hexs(version), conc(resp=wire, xbody=body))
            seq.next()
            follow = tok_ok(mk_resp(tag + b"n", "GET"))
            cases.append({"cat": "repeated-connection", "ops": [RESET1, req_op("GET", 0, 0, 0, [t, follow]), req_op("GET", 0, 0, 0, [follow, follow])]})
    return cases


def gen_public_api(rng, seq):
    """Every public entry point under every kind of fault: the entry point must behave as ONE performRequest with its documented
    method and the caller's budget (a wrapper that re-issues the request, adds to the budget or swallows an error shows here)."""
    cases = []
    for entry, method in PY_ENTRY.items():
        for cls in "RMESOTCFK":
            for budget in (0, 2):
                s = seq.next()
                tag = ("u%d" % s).encode()
                if cls == "K":
                    first = rand_ok(rng, tag, method)
                elif cls in "RMESO":
                    first = tok_client(cls)
                elif cls == "T":
                    first = tok_req_fault("s", rng.choice([0, 30, 10 ** 6]))
                elif cls == "C":
                    first = rng.choice([tok_req_fault("r", rng.choice([0, 40, 10 ** 6])), tok_resp_fault(mk_resp(tag, method, mode="cl"), 12, "f")])
                else:
                    first = "F@" + conc(resp=rng.choice(MALFORMED))
                second = rng.choice([first, rand_ok(rng, tag + b"b", method)])
                rest = [rand_ok(rng, tag + b"c", method), tok_ok(mk_resp(tag + b"d", method, mode="nobody" if method == "HEAD" else "cl"))]
                cases.append({"cat": "public-api", "ops": [RESET1, call_op(entry, budget, 0, rng.choice([0, 7]), [first, second] + rest)]})
    return cases


def gen_stale_and_scheme(rng, seq):
    """(a) the server closes (FIN) or resets a kept-alive connection while the client is idle, then the next request goes out:
    the commonest real fault. The request is handed to sendSync on the dead session, so a non-idempotent one fails WITHOUT a retry
    (nothing reached the wire, but the client cannot know) and an idempotent one is retried on a new connection.
    (b) https:// to a host:port whose cached connection is plain (FC07a): the entry is closed and evicted, the TLS handshake with
    this plain server never completes (connect time-out = not sent)."""
    cases = []
    for how in "fr":
        for method, budget in (("POST", 2), ("PATCH", 0), ("GET", 2), ("PUT", 1), ("post", 3), ("DELETE", 0)):
            s0 = seq.next(); s1 = seq.next(); s2 = seq.next()
            tag = ("z%d" % s1).encode()
            warm = tok_ok(mk_resp(tag + b"w", "GET"))
            oks = [tok_ok(mk_resp(tag + b"%d" % i, method)) for i in range(budget + 2)]
            entries = [e for e, mth in PY_ENTRY.items() if mth == method]
            second = call_op(rng.choice(entries), budget, 0, 0, ["C@" + conc()] + oks) if entries and rng.chance(1, 2) else \
                req_op(method, budget, 0, 0, ["C@" + conc()] + oks)
            cases.append({"cat": "stale-connection", "ops": [RESET1, req_op("GET", 0, 0, 0, [warm, warm]), "srvclose " + how, second,
                                                             req_op("GET", 0, 0, 0, [warm, warm])]})
    for method, budget in (("GET", 0), ("GET", 2), ("POST", 1)):
        for warm_first in (True, False):
            s0 = seq.next(); s1 = seq.next(); s2 = seq.next()
            tag = ("h%d" % s1).encode()
            warm = tok_ok(mk_resp(tag + b"w", "GET"))
            ops = [RESET1]
            if warm_first:
                ops.append(req_op("GET", 0, 0, 0, [warm, warm]))
            ops.append(req_op(method, budget, 2, 0, ["H@" + conc()] * (budget + 3)))      # https
            ops.append(req_op("GET", 0, 0, 0, [warm, warm]))
            cases.append({"cat": "scheme", "ops": ops})
    return cases


def gen_fin_after_response(rng, seq, n):
    """a complete keep-alive response followed at once by FIN: the residual-data probe sees the close (evict) unless the FIN is
    processed after the decision (kept, and the next request meets a stale connection). Both are fine: monitors only."""
    cases = []
    for i in range(n):
        s0 = seq.next(); s1 = seq.next()
        tag = ("f%d" % s0).encode()
        method = rng.choice(["GET", "POST", "PUT"])
        r = mk_resp(tag, method, mode=rng.choice(["cl", "chunked"]))
        t = "K:%s:1@%s" % (r.sem(), conc(resp=r.wire, act="f", cut=rng.choice([0, len(r.wire) - 1]), xbody=r.body))
        ok = tok_ok(mk_resp(tag + b"n", "GET"))
        cases.append({"cat": "fin-after-response", "ops": [RESET1, req_op(method, 0, 0, 0, [t, ok]), "pause 5", req_op("GET", 2, 0, 0, [ok] * 4)]})
    return cases


def gen_racy(rng, seq, n):
    """RST at accept races with the completion of connectSync: the client sees either a failed connect (not sent, retried for
    every method) or a closed connection (possibly sent). Both satisfy the property; the model cannot know which one happened,
    so these cases are judged by the monitors only."""
    cases = []
    for i in range(n):
        s = seq.next()
        method = rng.choice(["POST", "GET", "PATCH", "PUT", "post"])
        budget = rng.choice([0, 1, 2, 3])
        tag = ("y%d" % s).encode()
        toks = [tok_req_fault("a", 0)] * rng.range(1, budget + 1) + [tok_ok(mk_resp(tag, method))] * (budget + 2)
        cases.append({"cat": "racy", "ops": [RESET1, req_op(method, budget, 0, 5 if method not in ("GET",) else 0, toks[:budget + 2])]})
    return cases


def gen_realtime(rng, seq, n):
    """a few silent peers with REAL time-outs (virtual clock off): the attempt must end within a small multiple of requestTimeout"""
    ops = [RESET1, "vclock 0"]
    for i in range(n):
        s = seq.next()
        method = rng.choice(["POST", "GET"])
        total, fields = request_fields(method, s, 0)
        r = mk_resp(b"rt%d" % s, method)
        t = tok_req_fault("s", rng.choice(fields)) if i % 2 == 0 else tok_resp_fault(r, rng.choice(r.boundaries()[:-1]), "s")
        ops.append(req_op(method, 0, 0, 0, [t, tok_ok(mk_resp(b"rtz%d" % s, method))]))
    ops.append("vclock 1")
    return [{"cat": "realtime", "ops": ops}]


def gen_pure(rng, n):
    cases = []
    ops, exp = [], []
    for m in METHODS_IDEM + METHODS_NON + ["", " GET", "GET ", "G\xc9T", "CONNECT", "GET\x00", "\x00"]:
        ops.append("idem %s" % hexs(m.encode("latin-1")))
        exp.append("1" if m in RFC_IDEMPOTENT else "0")
    cases.append({"cat": "idem", "ops": ops, "expect": exp})
    ops, exp = [], []
    vals = list(CONN_VALUES)
    for _ in range(n):
        toks = []
        for _ in range(rng.range(0, 4)):
            t = rng.choice([b"close", b"keep-alive", b"Close", b"KEEP-ALIVE", b"foo", b"", b"x-close", b"closee", b"clos", b"upgrade", b"cLoSe", b"close\x00"])
            toks.append(rng.choice([b"", b" ", b"\t", b"  "]) + t + rng.choice([b"", b" ", b"\t", b" \t "]))
        vals.append(b",".join(toks))
    for v in vals:
        for ver in (b"1.1", b"1.0", b"", b"1.00"):
            ops.append("rrc %s %s" % ("~" if v is None else hexs(v), hexs(ver)))
            exp.append("1" if py_close_signalled(v, ver) else "0")
    cases.append({"cat": "rrc", "ops": ops, "expect": exp})
    # lists of 1..40 elements with `close` (or `keep-alive`, or neither) at EVERY position: a bound on the number of elements looked at,
    # or a loop that stops early, shows here
    ops, exp = [], []
    fill = [b"foo", b"upgrade", b"x-close", b"", b" ", b"TE", b"closed"]
    for n in range(1, 41):
        positions = range(n) if n <= 12 else sorted({0, 1, 5, 6, 7, n // 2, n - 2, n - 1, rng.below(n)})
        for pos in positions:
            for tokv in (b"close", b"keep-alive"):
                toks = [rng.choice(fill) for _ in range(n)]
                toks[pos] = rng.choice([b"", b" ", b"\t"]) + (tokv if rng.chance(2, 3) else tokv.upper()) + rng.choice([b"", b" "])
                v = b",".join(toks)
                ver = rng.choice([b"1.1", b"1.0"])
                ops.append("rrc %s %s" % (hexs(v), hexs(ver)))
                exp.append("1" if py_close_signalled(v, ver) else "0")
        v = b",".join(rng.choice(fill) for _ in range(n))
        for ver in (b"1.1", b"1.0"):
            ops.append("rrc %s %s" % (hexs(v), hexs(ver)))
            exp.append("1" if py_close_signalled(v, ver) else "0")
    cases.append({"cat": "rrc", "ops": ops, "expect": exp})
    return cases


def gen_contend(rng, n):
    """Three callers, deterministic in virtual time (seeded change C17-d): T1 holds host X behind a silent peer, T2 waits for X's lease,
    T3 completes an exchange with host Y every `step` ms (< leaseAcquireTimeout) — each release wakes T2. T2 must time out after
    leaseAcquireTimeout whatever the wake-ups; the model predicts the round."""
    cases = []
    shapes = [(250, 40, 9), (250, 100, 4), (120, 7, 30), (300, 299, 3), (90, 30, 5), (200, 50, 6)]
    for i in range(n):
        lease, step, rounds = shapes[i] if i < len(shapes) else (rng.range(60, 400), rng.range(5, 59), 0)
        if not rounds:
            rounds = min(lease // step + rng.range(2, 4), 60)
        cases.append({"cat": "contend", "ops": [RESET % (1, 0, lease, 5000, CONNECT_TIMEOUT_MS), "contend %d %d %d" % (lease, step, rounds)]})
    return cases


def gen_life(rng, seq):
    """cleanup() and what follows it; URLs whose port wraps (kind 3: the SAME key as kind 0), is beyond `int` (kind 4: std::out_of_range
    from parseUrl on every attempt), or is a second port of the same host (kind 5: another key)."""
    cases = []
    def ok(tag, method="GET"):
        return tok_ok(mk_resp(tag, method))
    for warm in ([], [0], [0, 1], [0, 5], [0, 1, 5]):
        for method, budget in (("GET", 0), ("GET", 2), ("POST", 3), ("PUT", 1), ("PATCH", 0), ("DELETE", 4)):
            ops = [RESET1]
            for k in warm:
                seq.next()
                ops.append(req_op("GET", 0, k, 0, [ok(b"lw%d" % seq.n)] * 2))
            ops.append("cleanup")
            for m2, b2, k2 in ((method, budget, rng.choice([0, 1, 5])), (rng.choice(["POST", "GET"]), rng.choice([0, 1]), 0)):
                seq.next()
                entries = [e for e, mth in PY_ENTRY.items() if mth == m2]
                toks = [ok(b"lc%d" % seq.n, m2)] * (b2 + 2)
                ops.append(call_op(rng.choice(entries), b2, k2, 0, toks) if entries and rng.chance(1, 3) else req_op(m2, b2, k2, 0, toks))
            if rng.chance(1, 2):
                ops.append("cleanup")      # twice: idempotent
                seq.next()
                ops.append(req_op("GET", 1, 0, 0, [ok(b"ld%d" % seq.n)] * 3))
            cases.append({"cat": "cleanup", "ops": ops})
    for method, budget in (("GET", 0), ("GET", 3), ("POST", 0), ("POST", 2), ("PUT", 2), ("get", 2), ("HEAD", 1), ("PATCH", 5), ("GET", -1)):
        seq.next()
        cases.append({"cat": "url-port", "ops": [RESET1, req_op(method, budget, 4, 0, [ok(b"up%d" % seq.n, method)] * (max(budget, 0) + 2)),
                                                 req_op("GET", 0, 0, 0, [ok(b"upz%d" % seq.n)] * 2)]})
    for order in ((0, 3, 0), (3, 0, 3), (0, 5, 0, 5), (5, 3, 5), (0, 5, 3, 1), (5, 5, 0)):
        ops = [RESET1]
        for k in order:
            seq.next()
            m = rng.choice(["GET", "POST"])
            ops.append(req_op(m, 0, k, 0, [ok(b"uk%d" % seq.n, m)] * 2))
        # a failure on one port must not touch the other port's entry
        seq.next()
        ops.append(req_op("GET", 0, order[0], 0, [tok_req_fault("r", 20), ok(b"ukf%d" % seq.n)]))
        for k in order[:2]:
            seq.next()
            ops.append(req_op("GET", 0, k, 0, [ok(b"ukg%d" % seq.n)] * 2))
        cases.append({"cat": "url-port", "ops": ops})
    return cases


def gen_caller_headers(rng, seq):
    """request header fields supplied by the CALLER — its own `Connection: close` / `keep-alive`, a `Content-Length: 0` on a body-less
    request, an `Expect`: executeRequest copies them behind its own fields; neither the retry decisions nor the reuse decision may depend
    on them (the scripted server answers by its script, whatever the request says)."""
    cases = []
    for name, value in ((b"Connection", b"close"), (b"Connection", b"keep-alive"), (b"connection", b"close"), (b"Content-Length", b"0"),
                        (b"Expect", b"100-continue"), (b"Host", b"other.example")):
        for reuse_cfg in (1, 0):
            ops = [RESET % (reuse_cfg, 0, LEASE_TIMEOUT_MS, REQUEST_TIMEOUT_MS, CONNECT_TIMEOUT_MS), "hdr %s %s" % (hexs(name), hexs(value))]
            for method, budget, first in (("GET", 1, None), ("POST", 2, "R"), ("GET", 2, "C"), ("POST", 1, "C"), ("PUT", 1, "T"), ("GET", 0, None)):
                s = seq.next()
                tag = ("ch%d" % s).encode()
                toks = [] if first is None else [tok_client(first) if first == "R" else (tok_req_fault("s", 30) if first == "T" else tok_resp_fault(mk_resp(tag, method), 9, "f"))]
                toks += [tok_ok(mk_resp(tag + b"k", method, conn=rng.choice([None, b"keep-alive", b"close"])))] * (budget + 2)
                ops.append(req_op(method, budget, 0, 0, toks[:budget + 2]))
            cases.append({"cat": "caller-headers", "ops": ops})
    return cases


def monitor_contend(op, line):
    bad = []
    if not line.startswith("t1="):
        return ["R6: the three-caller operation did not end with a result: %s -> %s" % (op, line[:120])]
    f = fields_of(line)
    lease, step = int(f.get("lease", "0")), int(f.get("step", "0"))
    t2 = f.get("t2", "?/0/-").split("/")
    if int(f.get("t2deadlines", "0")) > 1:
        bad.append("R6: the lease wait of the same-host caller was re-armed: %s distinct absolute deadlines over %s waits (a wait re-entered after a "
                   "wake-up must keep its deadline; leaseAcquireTimeout %d ms, another host's exchange completing every %d ms)" % (f.get("t2deadlines"), f.get("t2wakes"), lease, step))
    if int(f.get("t2wait", "0")) > lease + step + 5:
        bad.append("R6: the caller waited %s ms (virtual) for the lease with leaseAcquireTimeout %d ms (woken every %d ms by releases of another host)" % (f.get("t2wait"), lease, step))
    if int(f.get("t2asked", "0")) and abs(int(f.get("t2asked")) - lease) > 1:
        bad.append("R6: the lease wait asked for %s ms; leaseAcquireTimeout is %d ms" % (f.get("t2asked"), lease))
    if f.get("t2wire") != "0" or t2[2] != "-":
        bad.append("R4: the request of the caller that could not get the lease reached the host all the same (server saw it %s time(s), engine calls %s)" % (f.get("t2wire"), t2[2]))
    if t2[0].startswith("ok"):
        bad.append("R6: the waiter got the lease although the holder's exchange was still in progress when its time-out passed (t2=%s)" % f.get("t2"))
    if f.get("leased") != "0":
        bad.append("R4: lease still held after all callers returned (leased=%s)" % f.get("leased"))
    t1 = f.get("t1", "?/0/-").split("/")
    if t1[2].count("s") > 1 or int(t1[1]) > 1:
        bad.append("R1: the POST behind the silent peer was attempted %s times (engine calls %s)" % (t1[1], t1[2]))
    return bad


def gen_par(rng, n_cases):
    """Concurrent callers sharing one client. Faults are response-side only (the server binds them from X-Req-Id once the request
    is in); no silence (advancing the virtual clock for one caller would time out the others)."""
    cases = []
    for ci in range(n_cases):
        reuse_cfg = not rng.chance(1, 6)
        # half of the cases take the TIMED lease wait (`wait_for` with a predicate) under real contention; 60 s of virtual time never pass
        # (no silence in `par`, nothing advances the clock), so the wait always ends by a release — the model's answer is `granted`
        par_lease = 60000 if rng.chance(1, 2) else 0
        ops = [RESET % (1 if reuse_cfg else 0, 0, par_lease, REQUEST_TIMEOUT_MS, CONNECT_TIMEOUT_MS)]
        if rng.chance(1, 2):    # warm up: something may already be cached
            m = rng.choice(["GET", "POST"])
            ops.append(req_op(m, 0, rng.choice([0, 0, 1]), 0, [rand_ok(rng, ("w%d" % ci).encode(), m), tok_ok(mk_resp(b"wz", m))]))
        threads = []
        for ti in range(rng.choice([2, 2, 3, 3, 4, 6])):
            method = rng.choice(["GET", "GET", "POST", "POST", "PUT", "PATCH", "DELETE", "post", "HEAD"])
            budget = rng.choice([0, 1, 2, 2])
            host = 1 if rng.chance(1, 4) else 0
            toks = []
            for ai in range(budget + 2):
                tag = ("p%dt%da%d" % (ci, ti, ai)).encode()
                roll = rng.below(10)
                if roll < 5:
                    head = method == "HEAD"
                    r = mk_resp(tag, method, rng.choice([b"1.1", b"1.1", b"1.0"]), rng.choice([200, 404, 503]),
                                rng.choice([None, None, b"close", b"keep-alive", b"foo, close"]), "nobody" if head else rng.choice(["cl", "chunked"]),
                                rng.choice([b"", b"", b"X"]))
                    cut = rng.choice([0, 5, r.header_end, r.header_end - 3])
                    if cut >= len(r.wire) - (1 if r.surplus else 0):
                        cut = 0
                    toks.append(tok_ok(r, True, cut))
                elif roll < 6 and method != "HEAD":
                    toks.append(rand_close_delimited(rng, tag, method))
                elif roll < 8:
                    m = rng.choice(MALFORMED if method == "HEAD" else MALFORMED + MALFORMED_BODY)
                    toks.append("F@" + conc(resp=m, cut=rng.choice([0, 5])))
                else:
                    r = mk_resp(tag, method, mode="cl")
                    lim = len(r.wire) if method != "HEAD" else r.header_end
                    toks.append(tok_resp_fault(r, rng.range(0, lim - 1), "f"))
            threads.append("%s/%d/%d/%s" % (hexs(method.encode()), budget, host, ";".join(toks)))
        ops.append("par " + " ".join(threads))
        cases.append({"cat": "concurrent", "ops": ops})
    return cases


def par_events(ev):
    """`2c1,0s2,...` -> [(thread, kind, session)]"""
    out = []
    if ev != "-":
        for e in ev.split(","):
            m = re.match(r"(\d+)([csx])(\d+)$", e)
            out.append((int(m.group(1)), m.group(2), int(m.group(3))))
    return out


def par_schedule(events):
    """order of the exchanges = order of their first engine call; an exchange of a thread is [c] s [x]"""
    sched = []
    has_s = {}
    for t, k, sid in events:
        if t not in has_s or k == "c" or (k == "s" and has_s[t]):
            if not (t in has_s and k == "s" and not has_s[t]):
                sched.append(t)
                has_s[t] = False
        if k == "s":
            has_s[t] = True
    return sched


def par_projection(events, n):
    return "|".join("t%d:%s" % (i, ",".join("%s%d" % (k, sid) for t, k, sid in events if t == i) or "-") for i in range(n))


def monitor_par(op, line):
    bad = []
    if line.startswith("crash:") or line.startswith("throw") or line == "bad-op":
        return ["R6: concurrent requests did not all end with a value or an error: %s" % line[:100]]
    f = fields_of(line)
    threads = op.split()[1:]
    events = par_events(f.get("ev", "-"))
    closed = set()
    for t, k, sid in events:
        if k == "x":
            closed.add(sid)
        elif k == "s" and sid in closed:
            bad.append("R4: thread %d sent on session %d after it had been closed/evicted (trace %s)" % (t, sid, f["ev"][:200]))
    mx = f.get("maxex", "0,0").split(",")
    if any(int(x) > 1 for x in mx):
        bad.append("R4: two exchanges with the same host:port were in progress at the same time (server saw %s)" % f.get("maxex"))
    if f.get("leased") != "0":
        bad.append("R4: lease still held after all requests returned (leased=%s)" % f.get("leased"))
    for i, th in enumerate(threads):
        mh, b, uk, toks = th.split("/")
        method = unhex(mh).decode("latin-1")
        budget = max(int(b), 0)
        script = [Tok(x) for x in toks.split(";")]
        r = f.get("r%d" % i, "?/0/-").split("/")
        res, att, body = r[0], int(r[1]), r[2]
        mine = [(k, sid) for t, k, sid in events if t == i]
        sends = [e for e in mine if e[0] == "s"]
        if method not in RFC_IDEMPOTENT:
            if len(sends) > 1:
                bad.append("R1: thread %d: %s handed to the transport in %d attempts" % (i, method, len(sends)))
            elif sends and any(k in "cs" for k, _ in mine[mine.index(sends[0]) + 1:]):
                bad.append("R1: thread %d: %s: another attempt followed the one that reached sendSync" % (i, method))
        if att > budget + 1:
            bad.append("R2: thread %d: %d attempts with retry budget %d" % (i, att, budget))
        for j, a in enumerate(script[:att]):
            if a.cls in FRAMING_CLASSES and (j + 1 != att or res != "err:framing"):
                bad.append("R3: thread %d: attempt %d met a framing error but the request went on / ended as %s" % (i, j, res))
                break
        last = script[att - 1] if 0 < att <= len(script) else None
        if res.startswith("ok:") and last is not None and last.xbody is not None and body != last.xbody:
            bad.append("R4: thread %d got a response body that was not sent for its request: got %s want %s" % (i, body[:60], last.xbody[:60]))
    return bad


def run_par(ctx, hb, cases, consts, have_model):
    """trace inclusion for concurrent callers: the implementation runs first; the order in which the exchanges happened is read
    off its engine trace and the model replays exactly that schedule (acceptor = simulation, DESIGN §2.2)"""
    ops = [o for c in cases for o in c["ops"]]
    impl, rc, err = ctx.run_lines([hb], ops, timeout=3000)
    impl += ["crash:%s" % rc] * (len(ops) - len(impl))
    mops = []
    for o, l in zip(ops, impl):
        if o.startswith("par "):
            ev = par_events(fields_of(l).get("ev", "-")) if l.startswith("ev=") else []
            mops.append("parm %s %s" % (",".join(map(str, par_schedule(ev))) or "-", o[4:]))
        else:
            mops.append(o)
    model = impl
    if have_model:
        model, mrc, merr = ctx.run_lines(ctx.model_argv("httpretry"), mops, timeout=3000)
        if mrc != 0 or len(model) != len(mops):
            raise RuntimeError("model driver failed on the concurrent cases rc=%s lines=%d/%d" % (mrc, len(model), len(mops)))
    k = 0
    n_mis = 0
    for c in cases:
        n = len(c["ops"])
        cops, cimpl, cmodel = c["ops"], impl[k:k + n], model[k:k + n]
        k += n
        ctx.count_case("\n".join(cops), nontrivial=True)
        ctx.cov["traces_validated_against_impl"] += 1
        seq_case = {"cat": "sequence", "ops": [o for o in cops if not o.startswith("par ")]}
        fails = monitor_case(seq_case, [l for o, l in zip(cops, cimpl) if not o.startswith("par ")], consts)
        mism = None
        for o, a, b in zip(cops, cimpl, cmodel):
            if o.startswith("par "):
                fails += monitor_par(o, a)
                if have_model and a.startswith("ev="):
                    f = fields_of(a)
                    nthreads = len(o.split()) - 1
                    want = "ev=%s %s cache=%s leased=%s" % (
                        par_projection(par_events(f.get("ev", "-")), nthreads),
                        " ".join("r%d=%s" % (i, "/".join(f.get("r%d" % i, "?/0").split("/")[:2])) for i in range(nthreads)),
                        f.get("cache"), f.get("leased"))
                    if want != b and mism is None:
                        mism = (o, want, b)
            elif have_model and compared(a) != b and mism is None:
                mism = (o, compared(a), b)
        if fails:
            ctx.violation("property", fails[0], {"ops": cops, "observed": cimpl, "failures": fails[:5], "category": "concurrent"}, found_input=True)
        elif mism:
            n_mis += 1
            if n_mis <= 3:
                ctx.violation("correspondence", "concurrent callers: the model replaying the observed schedule disagrees with the implementation: op `%s` impl=`%s` model=`%s`"
                              % (mism[0][:120], mism[1][:200], mism[2][:200]),
                              {"broken": {"correspondence": "httpretry concurrent acceptor (harness/c17_httpretry.cpp `par` vs Model/HttpLease.lean)"},
                               "ops": cops, "category": "concurrent", "observed": cimpl, "expected_by_model": cmodel}, found_input=False)
    return len(cases)


# ------------------------------------------------------------------ property monitors (implementation output only + the op line)
def fields_of(line):
    d = {}
    for part in line.replace(" | ", " ").split():
        if "=" in part:
            k, v = part.split("=", 1)
            d[k] = v
    return d


class Tok:
    """what the generator encoded in one script token (decoded again from the op line, so that replays are self-contained)"""
    def __init__(self, t):
        sem, con = t.split("@", 1)
        self.idle = sem.startswith("I")
        if self.idle:
            sem = sem[1:]
        self.cls = sem[0]
        self.sem = sem
        cs = con.split(",")
        self.req = cs[0]
        self.xbody = None if len(cs) < 6 or cs[5] == "~" else cs[5]
        self.conn = self.version = None
        self.surplus = False
        self.residue = False
        self.async_ok = True
        if self.cls in "KD":
            f = sem.split(":")
            st, conn, ver, sp = f[1].split(",")
            self.conn = None if conn == "~" else unhex(conn)
            self.version = unhex(ver)
            self.surplus = sp == "1"
            if self.cls == "K":
                self.async_ok = f[2] == "1"
                self.residue = len(f) > 3 and f[3] == "1"

    def reusable(self, reuse_cfg):
        return (self.cls == "K" and reuse_cfg and not py_close_signalled(self.conn, self.version) and not self.surplus and
                not self.residue and self.async_ok)


def parse_req(op):
    t = op.split()
    entry = t[1] if t[0] == "call" else None
    method = PY_ENTRY.get(entry, "?") if entry else unhex(t[1]).decode("latin-1")
    return {"method": method, "entry": entry, "budget": int(t[2]), "url_kind": int(t[3]), "toks": [Tok(x) for x in t[5:]]}


def monitor_case(c, impl, consts):
    bad = []
    if c["cat"] in ("idem", "rrc"):
        for op, l, e in zip(c["ops"], impl, c["expect"]):
            if l != e:
                tag = "R5" if c["cat"] == "idem" else "R4"
                bad.append("%s: %s -> implementation says %s, the reference (RFC 9110 §9.2.2 / RFC 7230 §6.1) says %s" % (tag, op, l, e))
        return bad
    closed = set()
    tainted = {}          # server-side connection number -> why no later request may arrive on it
    judged_by_monitors_only = c["cat"] in MONITORS_ONLY
    t_lease, t_request, t_connect = LEASE_TIMEOUT_MS, REQUEST_TIMEOUT_MS, CONNECT_TIMEOUT_MS
    reuse_cfg = True
    realtime = False
    cleaned = False
    for op, l in zip(c["ops"], impl):
        if op == "cleanup":
            cleaned = True
            f = fields_of(l)
            if not l.startswith("ev=") or f.get("cache") != "-":
                bad.append("L1: cleanup() left cached connections / did not return: %s" % l[:120])
            elif any(e[0] != "x" for e in (f["ev"].split(",") if f["ev"] != "-" else [])):
                bad.append("L1: cleanup() did something other than closing sessions: %s" % f["ev"])
            continue
        if op.startswith("contend "):
            bad += monitor_contend(op, l)
            continue
        if op.startswith("reset "):
            rt = op.split()
            reuse_cfg = rt[1] == "1"
            t_lease, t_request, t_connect = int(rt[3]), int(rt[4]), min(int(rt[5]), consts["localConnectCapMs"])
            closed = set()
            tainted = {}
            cleaned = False
            continue
        if op.startswith("vclock "):
            realtime = op.split()[1] == "0"
            continue
        if not (op.startswith("req ") or op.startswith("call ")):
            continue
        if l.startswith("skip:"):
            return bad        # the harness could not inject a fault of this case on this machine (evidence: `skipped`)
        if l.startswith("crash:") or l.startswith("throw") or l == "bad-op":
            bad.append("R6: the request did not end with a value or an error: %s -> %s" % (op[:100], l))
            continue
        m = parse_req(op)
        f = fields_of(l)
        try:
            att = int(f["att"])
            ev = [] if f["ev"] == "-" else f["ev"].split(",")
        except (KeyError, ValueError):
            bad.append("R6: unparsable answer %s" % l[:120])
            continue
        script = m["toks"]
        if m["url_kind"] == 4:
            m["url_kind"] = 9       # a URL that parseUrl rejects (port beyond `int`): judged like any other unparsable URL
            if f["ev"] != "-" or int(f.get("wire", "0")) or int(f.get("srvwire", "0")):
                bad.append("U3: a request whose URL does not parse reached the engine / the wire (ev=%s wire=%s)" % (f["ev"], f.get("wire")))
        if cleaned:
            # after cleanup(): every request fails, makes no engine call, sends nothing, within the budget
            if not f["res"].startswith("err:") or f["ev"] != "-" or int(f.get("wire", "0")) or int(f.get("srvwire", "0")) or f.get("cache") != "-":
                bad.append("L2: after cleanup() a request did not fail cleanly: res=%s ev=%s wire=%s cache=%s" % (f["res"], f["ev"], f.get("wire"), f.get("cache")))
            if att > max(m["budget"], 0) + 1:
                bad.append("R2: %d attempts with retry budget %d after cleanup()" % (att, m["budget"]))
            if m["method"] not in RFC_IDEMPOTENT and att != 1:
                bad.append("L2: a %s on a cleaned-up client was attempted %d times (every attempt must fail at the lease, which is not a provably-unsent failure)" % (m["method"], att))
            continue
        host = {1: 1, 5: 2}.get(m["url_kind"], 0)
        # the receive loop is entered only by an attempt that handed the request to the transport (R1: `receives = 0` for a not-sent attempt)
        rz = f.get("rz", "").split(",")
        for i, a in enumerate(script[:att]):
            if i < len(rz) and rz[i] == "+" and (a.cls in "LM" or m["url_kind"] == 9):
                bad.append("R1: attempt %d (class %s: fails before sendSync) called receiveSync" % (i, a.cls))
        if m["method"] not in RFC_IDEMPOTENT and any(x == "+" for x in rz[:max(att - 1, 0)]):
            bad.append("R1: %s: an attempt that was followed by another one had entered the receive loop (rz=%s)" % (m["method"], f.get("rz")))
        idem = m["method"] in RFC_IDEMPOTENT
        budget = max(m["budget"], 0)
        sends = [e for e in ev if e[0] == "s"]
        # R1: a non-idempotent request is handed to the transport / reaches the wire in at most one attempt, and nothing follows that attempt
        if not idem:
            if len(sends) > 1:
                bad.append("R1: %s handed to the transport in %d attempts (engine trace %s)" % (m["method"], len(sends), f["ev"]))
            elif sends:
                after = ev[ev.index(sends[0]) + 1:]
                if any(e[0] in "cs" for e in after):
                    bad.append("R1: %s: another attempt followed the one that reached sendSync (engine trace %s)" % (m["method"], f["ev"]))
            if int(f.get("wire", "0")) > 1 or int(f.get("srvwire", "0")) > 1:
                bad.append("R1: bytes of a %s request were transmitted on %s client sockets / seen on %s server connections" % (m["method"], f.get("wire"), f.get("srvwire")))
        # R2: at most budget + 1 attempts
        if att > budget + 1 or f.get("exhausted") == "1":
            bad.append("R2: %d attempts with retry budget %d (%s)" % (att, m["budget"], m["method"]))
        # R3: a deterministic framing error ends the loop at once (nothing skips these classes once the URL parses)
        for i, a in enumerate(script[:att]):
            if a.cls in FRAMING_CLASSES and m["url_kind"] != 9 and (i + 1 != att or f["res"] != "err:framing"):
                bad.append("R3: attempt %d met a framing error (%s) but the request went on / ended as %s after %d attempts" % (i, a.cls, f["res"], att))
                break
        # R4: no use of a session after it was closed; nothing cached for the host unless the final exchange allows reuse
        for e in ev:
            if e[0] == "x":
                closed.add(e[1:])
            elif e[0] == "s" and e[1:] in closed:
                bad.append("R4: request sent on session %s after it had been closed/evicted (engine trace %s)" % (e[1:], f["ev"]))
        cached_hosts = set(x.split("#")[0] for x in f.get("cache", "-").split(",") if x != "-")
        last = script[att - 1] if 0 < att <= len(script) else None
        # server side: requests per accepted connection — none may arrive on a connection that saw a failure, a close or surplus bytes
        srv = [x.split(":") for x in f.get("srv", "-").split(",") if x != "-"]
        for e in srv:
            if len(e) >= 4 and int(e[1]) > 0 and e[0] in tainted:
                bad.append("R4: a request arrived on server connection %s, which earlier %s" % (e[0], tainted[e[0]]))
        for e in srv:
            if len(e) >= 4 and e[3] not in ("answered", "?"):
                tainted[e[0]] = "was cut by the server (%s)" % e[3]
        if last is not None and last.cls in "KD" and srv and len(srv[-1]) >= 4 and srv[-1][3] == "answered":
            if (last.surplus or last.residue) and not judged_by_monitors_only:
                tainted[srv[-1][0]] = "carried surplus bytes behind a response (in the same write)"
            elif last.cls == "D" or py_close_signalled(last.conn, last.version):
                tainted[srv[-1][0]] = "carried a response that signalled close"
        # (L leaves the cache alone; R/B only bite when a connection has to be opened, which the monitor does not track)
        if last is not None and m["url_kind"] != 9 and last.cls not in "LRBH" and not judged_by_monitors_only and not last.reusable(reuse_cfg):
            if "h%d" % host in cached_hosts:
                bad.append("R4: a connection stays cached after an exchange that forbids reuse (class %s, %s)" % (last.cls, last.sem[:60]))
        if f.get("leased") != "0":
            bad.append("R4: lease still held after the request returned (leased=%s)" % f.get("leased"))
        # R6 (measured part): with REAL time-outs a silent peer ends the request within a small multiple of the configured timeout.
        # (`avms`, the per-attempt client time under the virtual clock, is reported but not judged: the clock is pushed by a helper
        # thread while the peer is silent, so on a busy machine it overshoots; `maxwait`/`tow` below are the load-independent form.)
        if realtime and int(f.get("rms", "0")) > 10 * t_request * max(att, 1):
            bad.append("R6: %d attempt(s) took %s ms of real time with requestTimeout %d ms" % (att, f.get("rms"), t_request))
        # R6 (deterministic part), per attempt and per kind of wait: every timed wait the requesting thread asks for has one of the
        # configured lengths (lease / connect / request, 0 = probe); the wait that ends an attempt by time-out is the one that belongs to
        # the attempt's fault (lease held -> leaseAcquireTimeout, connect that never completes -> connect time-out, silent peer ->
        # requestTimeout); no other attempt ends by a time-out
        allowed = {0, t_request, t_connect} | ({t_lease} if t_lease else set())
        aw = [[int(x) for x in a.split(":") if x not in ("-", "")] for a in f.get("aw", "-").split(",")] if f.get("aw", "-") != "-" else []
        for i, ws in enumerate(aw[:att]):
            for w in ws:
                if not any(abs(w - x) <= 1 for x in allowed):
                    bad.append("R6: attempt %d asked for a %d ms wait; configured are lease %d, connect %d, request %d ms" % (i, w, t_lease, t_connect, t_request))
        tw = f.get("tw", "-").split(",")
        if int(f.get("stall", "0")) == 0 and not judged_by_monitors_only:
            for i, a in enumerate(script[:att]):
                got = tw[i] if i < len(tw) else "-"
                want = {"L": t_lease, "B": t_connect, "H": t_connect, "T": t_request}.get(a.cls)
                if m["url_kind"] == 9:
                    want = None
                if want is None and got != "-":
                    bad.append("R6: attempt %d (class %s, the peer is not silent) ended a %s ms wait by time-out" % (i, a.cls, got))
                elif want is not None and got != "-" and abs(int(got) - want) > 1:
                    bad.append("R6: attempt %d (class %s) timed out after a %s ms wait; the time-out configured for that wait is %d ms" % (i, a.cls, got, want))
                elif want is not None and got == "-" and a.cls in "LT":
                    bad.append("R6: attempt %d (class %s: nothing can arrive) did not end by a time-out" % (i, a.cls))
        # (`tow`, the number of timed waits that ran into their deadline, is reported but not judged: a wait whose deadline passes at the
        # very moment data arrives counts there although the caller never saw a time-out; `tw` above is per attempt and exact)
        if int(f.get("stall", "0")) > 0 and not judged_by_monitors_only:
            bad.append("harness: the requesting thread made no progress for 1 s of real time although the scripted peer was not silent (stall=%s)" % f.get("stall"))
        # a response is attributed to the request it answers
        if f["res"].startswith("ok:") and last is not None and last.xbody is not None and c["cat"] != "racy" and m["entry"] != "postStream":
            if f.get("body") != last.xbody:
                bad.append("R4: the response body handed to the caller is not the one sent for this request: got %s want %s" % (f.get("body", "")[:60], last.xbody[:60]))
        # back-off constants
        sl = [int(x) for x in f.get("sleeps", "-").split(",") if x not in ("-", "")]
        for k, v in enumerate(sl):
            e = min(k, consts["backoffShiftCap"]) if consts["backoffShiftCap"] else k
            lo = (1 << e) * consts["backoffBaseMs"] + consts["jitterLo"]
            hi = (1 << e) * consts["backoffBaseMs"] + consts["jitterHi"]
            if hi >= 2 ** 31:
                bad.append("backoff: the delay before retry %d does not fit the `int` it is computed in (%d ms): undefined behaviour" % (k + 1, hi))
                break
            if not (lo <= v <= hi):
                bad.append("backoff: sleep %d before retry %d outside [%d, %d]" % (v, k + 1, lo, hi))
        if f.get("quiesce") == "FAILED":
            bad.append("harness: the scripted server did not accept a connection the client opened")
    return bad


def gen_consts():
    p = os.path.join(os.environ.get("VERIF_LEAN", os.path.join(HERE, "lean")), "IoraModel", "Gen", "HttpRetry.lean")
    out = {"backoffBaseMs": 100, "jitterLo": 0, "jitterHi": 99, "localConnectCapMs": 200, "backoffShiftCap": 0, "recvBufferSize": 8192}
    try:
        t = open(p).read()
        for k in out:
            m = re.search(r"def %s : Nat := (\d+)" % k, t)
            if m:
                out[k] = int(m.group(1))
    except OSError:
        pass
    return out


MONITORS_ONLY = ("racy", "late-surplus", "fin-after-response")


def cleanedp(ops, op):
    """is `op` preceded by a `cleanup` (and no later reset) in its case?"""
    cl = False
    for o in ops:
        if o is op:
            return cl
        if o == "cleanup":
            cl = True
        elif o.startswith("reset "):
            cl = False
    return cl


def compared(line):
    return line.split(" | ")[0]


def run(ctx: Ctx):
    quick = ctx.tier == "quick"
    rng = ctx.rng
    ctx.translate(["httpretry"])
    ok_build = ctx.lake_build(MODULES + ["iora_model"])
    if ok_build:
        ctx.audit(MODULES, OBLIGATIONS)
        if not quick:
            ctx.leanchecker(LEANCHECK)
    else:
        ctx.cov["obligations"] = len(OBLIGATIONS)
    hb = ctx.build_harness("harness/c17_httpretry.cpp", sanitize=True, opt="-O0")
    dist = {}
    consts = gen_consts()
    globals()["READ_CHUNK"] = consts["recvBufferSize"]
    have_model = False
    try:
        ctx.model_argv("httpretry")
        have_model = True
    except ModelBuildError:
        pass          # recorded as a violation; the monitors still run on the implementation to supply the failing input
    if hb:
        if ctx.replay:
            rp = json.load(open(ctx.replay))
            cases = [{"cat": rp.get("category", "replay"), "ops": rp["ops"], "expect": rp.get("expect", [])}]
        else:
            seq = Seq()
            cases = load_corpus()
            for c in cases:
                seq.n += sum(1 for o in c["ops"] if o.startswith("req ") or o.startswith("call "))
            cases += gen_contend(rng.fork("contend"), 8 if quick else 60)
            cases += gen_chunk_over_cap(rng.fork("chunkcap"), seq)
            cases += gen_pure(rng.fork("pure"), 60 if quick else 600)
            cases += gen_life(rng.fork("life"), seq)
            cases += gen_caller_headers(rng.fork("hdr"), seq)
            cases += gen_random(rng.fork("seq"), seq, 350 if quick else 9000)
            cases += gen_offsets(rng.fork("off"), seq, every_byte=not quick)
            cases += gen_persistent(rng.fork("pers"), seq)
            cases += gen_read_boundary(rng.fork("rb"), seq, not quick)
            cases += gen_repeated_connection(rng.fork("rc"), seq)
            cases += gen_public_api(rng.fork("api"), seq)
            cases += gen_stale_and_scheme(rng.fork("stale"), seq)
            cases += gen_fin_after_response(rng.fork("fin"), seq, 12 if quick else 120)
            cases += gen_racy(rng.fork("racy"), seq, 40 if quick else 600)
            cases += gen_realtime(rng.fork("rt"), seq, 4 if quick else 12)
        n_mismatch = 0
        exchanges = 0
        late_surplus = {"reused": 0, "fresh": 0}
        fin_after = {"evicted": 0, "kept": 0}
        unreproduced = []
        skipped = {}
        interposers = {}
        stopped_early = False
        # small first chunks: a tree that breaks the property can make every exchange slow (unexpected time-outs), and the
        # run stops as soon as enough failing inputs are in hand
        bounds, lo = [], 0
        for size in [12 + 20, 70] + [100] * (len(cases) // 100 + 1):
            if lo >= len(cases):
                break
            bounds.append((lo, min(lo + size, len(cases))))
            lo += size
        for lo, hi in bounds:
            chunk = cases[lo:hi] + [{"cat": "stats", "ops": ["stats"]}]
            res = ctx.lockstep("httpretry", hb, chunk, timeout=3000) if have_model else impl_only(ctx, hb, chunk)
            for c, impl, model in res:
                if c["cat"] == "stats":
                    if impl and "=" in impl[0]:
                        for k, v in fields_of(impl[0]).items():
                            interposers[k] = max(interposers.get(k, 0), int(v)) if k in ("blackhole", "max_in_exchange") else interposers.get(k, 0) + int(v)
                    continue
                dist[c["cat"]] = dist.get(c["cat"], 0) + 1
                ctx.count_case("\n".join(c["ops"]), nontrivial=True)
                fails = monitor_case(c, impl, consts)
                if c["cat"] == "late-surplus" and impl and impl[-1].startswith("ev="):
                    late_surplus["reused" if impl[-1].startswith("ev=s") else "fresh"] += 1
                if c["cat"] == "fin-after-response" and len(impl) > 1 and impl[1].startswith("ev="):
                    fin_after["kept" if "cache=h" in impl[1] else "evicted"] += 1
                def bump(k, by=1):
                    dist[k] = dist.get(k, 0) + by
                for op, l in zip(c["ops"], impl):
                    if op.startswith("reset ") and l == "ok":
                        rt = op.split()
                        bump("cfg:reuse=%s" % rt[1]); bump("cfg:lease=%s" % ("0" if rt[3] == "0" else "timed")); bump("cfg:cap=%s" % ("default" if rt[2] == "0" else "set"))
                    if op.startswith("contend ") and l.startswith("t1="):
                        fc = fields_of(l)
                        bump("contend:ops"); bump("contend:wakeups_of_waiter", int(fc.get("t2wakes", "0"))); bump("contend:round=%s" % fc.get("round"))
                    if op == "cleanup" and l.startswith("ev="):
                        bump("cleanup:ops"); bump("cleanup:sessions_closed", 0 if fields_of(l)["ev"] == "-" else len(fields_of(l)["ev"].split(",")))
                    if l.startswith("ev=") and (op.startswith("req ") or op.startswith("call ")):
                        fl = fields_of(l)
                        n = int(fl.get("att", "0"))
                        exchanges += n
                        ot = op.split()
                        for t in ot[5:5 + n]:
                            # measured: only attempts the implementation really made (att) are counted, by the class of their script token
                            sem = t.split("@")[0]
                            bump("att:" + sem.lstrip("I")[0])
                            if sem.startswith("I"):
                                bump("att:idle-aged(I)")
                            if sem.lstrip("I")[0] == "K":
                                sf = sem.split(":")
                                if len(sf) > 2 and sf[2] == "0":
                                    bump("att:K.setAsync=0")
                                if len(sf) > 3 and sf[3] == "1":
                                    bump("att:K.residue=1")
                                if sf[1].endswith(",1"):
                                    bump("att:K.surplus=1")
                        bump("res:" + fl.get("res", "?"))
                        bump("url_kind:%s" % ot[3])
                        if int(ot[2]) < 0:
                            bump("budget:negative")
                        if ot[0] == "call":
                            bump("entry:" + ot[1])
                        bump("recv_calls", sum(int(x) for x in fl.get("rc", "0").split(",") if x.isdigit()))
                        bump("probe_calls", int(fl.get("probes", "0")))
                        if fl.get("ev", "-").startswith("s"):
                            bump("reused_cached_connection")
                        if cleanedp(c["ops"], op):
                            bump("req_after_cleanup")
                mism = [] if c["cat"] in MONITORS_ONLY or any(l.startswith("skip:") for l in impl) else [(i, a, b) for i, (a, b) in enumerate(zip(impl, model)) if compared(a) != b]
                if len(ctx.cov["samples"]) < 6 and c["cat"] in ("sequence", "offset-request", "offset-response", "persistent") and rng.chance(1, 60):
                    ctx.sample({"ops": [o[:220] for o in c["ops"][:3]], "impl": [l[:260] for l in impl[:3]]})
                if (fails or mism) and have_model and c["cat"] != "stats":
                    # Before anything is reported the case is run again ALONE (fresh harness and model processes): the harness uses real
                    # sockets and threads, and on a busy machine a stall or a late accept can look like a wrong outcome. What does not
                    # reproduce is counted (`unreproduced`), not reported; a harness-side failure that persists is machinery, not a verdict.
                    (c2, impl2, model2), = ctx.lockstep("httpretry", hb, [dict(c)], timeout=600)
                    fails2 = monitor_case(c2, impl2, consts)
                    mism2 = [] if c["cat"] in MONITORS_ONLY else [(i, a, b) for i, (a, b) in enumerate(zip(impl2, model2)) if compared(a) != b]
                    if not fails2 and not mism2:
                        unreproduced.append({"cat": c["cat"], "first_run": (fails or ["model mismatch"])[0][:160]})
                        continue
                    impl, model, fails, mism = impl2, model2, fails2, mism2
                    if fails and all(x.startswith("harness:") for x in fails):
                        raise RuntimeError("machinery: %s (twice, also when run alone)" % fails[0])
                    fails = [x for x in fails if not x.startswith("harness:")] or fails
                if any(l.startswith("skip:") for l in impl):
                    skipped[impl[[l.startswith("skip:") for l in impl].index(True)]] = skipped.get(impl[[l.startswith("skip:") for l in impl].index(True)], 0) + 1
                    continue
                if fails:
                    report_property(ctx, hb, c, impl, model, fails, consts)
                elif mism:
                    n_mismatch += 1
                    if n_mismatch <= 3:
                        i, a, b = mism[0]
                        ctx.violation("correspondence", "model and implementation disagree (no property monitor fails on this case): op `%s` impl=`%s` model=`%s`"
                                      % (c["ops"][i][:160], compared(a)[:160], b[:160]),
                                      {"broken": {"correspondence": "httpretry trace inclusion (harness/c17_httpretry.cpp vs Model/HttpRetry.lean)",
                                                  "detail": "first differing op index %d" % i},
                                       "ops": c["ops"], "category": c["cat"], "observed": impl, "expected_by_model": model}, found_input=False)
            n_prop = sum(v for k, v in ctx._vclass.items() if k.startswith("property:"))
            # a translator / proof / build violation is already in hand: three failing inputs are enough (a broken tree can make every
            # further exchange run into real-time watchdogs — the check must stay fast on such a tree too)
            have_static = any(not k.startswith("property:") and not k.startswith("correspondence:") for k in ctx._vclass)
            if n_prop >= (3 if have_static else 8) or n_mismatch >= 12:
                # failing inputs are in hand; a tree that breaks the property can make every further exchange slow (unexpected time-outs)
                stopped_early = True
                ctx.notes.append("stopped after %d of %d cases: %d property violations, %d correspondence mismatches" % (hi, len(cases), n_prop, n_mismatch))
                break
        n_prop = sum(v for k, v in ctx._vclass.items() if k.startswith("property:"))
        limit = max(5, len(cases) // 150)
        if len(unreproduced) > limit and n_prop == 0:
            # F5: failures that do not reproduce when run alone are noise of real sockets/threads on a busy machine — up to a point. More than
            # that is not a verdict either way: machinery failure (exit 2), never a silent pass.
            raise RuntimeError("machinery: %d cases failed in the stream but not when run alone (limit %d): %s" % (len(unreproduced), limit, unreproduced[:3]))
        ctx.extra["fin_after_complete_response"] = fin_after
        ctx.extra["unreproduced_when_run_alone"] = unreproduced
        ctx.extra["skipped"] = skipped
        ctx.extra["late_surplus_after_idle"] = late_surplus
        ctx.extra["interposers"] = interposers
        ctx.extra["stopped_early"] = stopped_early
        ctx.extra["exchanges"] = exchanges
        if not ctx.replay and not stopped_early:
            dist["concurrent"] = run_par(ctx, hb, gen_par(rng.fork("par"), 60 if quick else 1500), consts, have_model)
    ctx.extra["input_distribution"] = dist
    ctx.extra["repo_tree_sha"] = ctx.repo_tree_sha(ANCHOR_FILES)
    ctx.extra["not_proved"] = [
        "R6 wall-clock part (each attempt ends within its configured timeout): the time-out EXPRESSION of every timed wait is extracted and proved to be the configured one (R6_wait_budgets); that the wait then lasts no longer is Transport/condition-variable behaviour (C03/C04) — measured: every timed wait the requesting thread asks for has a configured length, the wait that ends an attempt is the one of its fault class, none is repeated, and a few silent-peer cases run with REAL time-outs",
        "the lease wait is modelled as a loop of wake-ups with one absolute deadline (R6_lease_wait_bounded, every wake-up pattern) and driven by the three-caller `contend` operation; what is NOT modelled is the condition variable itself (that notify_all reaches every waiter, no lost wake-up between the predicate test and the wait): pinned by the translator (unique_lock is the first statement of acquireLease and never released, the erase of releaseLease is inside a lock_guard block on the same mutex followed by notify_all) and a lost wake-up would hang `par`/`contend` into the harness watchdog",
        "DNS (resolveHostAddress for a host name other than localhost) is not driven by the harness (it resets _dnsClient; only 127.0.0.1/localhost are used) and its wait is bounded by DnsClient's defaults only (R6_send_and_dns_waits records that no HttpClient::Config value reaches it); ensureInitialized throwing before the loop (transport start failure: zero attempts, and a second call then finds a non-null, never-started transport) is C07's area and not modelled here",
        "TSan build of the concurrent streams (the interposed pthread_cond_clockwait would hide the mutex hand-off from TSan) — not done",
    ]
    ctx.assumptions += [
        "what frameResponse does with the received bytes is C15's model (Model/HttpClientFraming.lean, imported read-only); R4_bytes_reuse_decision_agrees proves that C15's byte-level receive loop and this model's underLease take the same keep/drop decision and return the same result class when the attempt is ABSTRACTED from the bytes (Link.absAttempt) — the lockstep run still feeds this model the outcome CLASS of every receive iteration (need-more / complete(info) / malformed / cap), the byte-level run is C15's lockstep",
        "between the pre-send region and the receive loop executeRequest only assembles the request text and calls sendSync (translator skeleton check); what could still escape there without evicting the connection — std::bad_alloc while building the string, std::logic_error from sendSync on the client's own I/O thread (which runs no user code: HttpClient installs no callback) — is outside the model",
        "`recvResult.isOk() && len == 0` takes no branch of the receive chain; it cannot occur: Transport::receiveSync reports success only from `if (!buf->data.empty())` with min(len, size) >= 1 bytes (translator fact receiveOkHasBytes, transport_impl.hpp) and executeRequest passes len = 8192 / 1",
        "Transport::receiveSync returns within the timeout it is given and reports Timeout/PeerClosed/BufferOverflow/ShuttingDown as documented (C03/C04)",
        "the engine hands out strictly increasing session ids (TcpEngine::_nextSessionId); the harness numbers sessions by creation order",
        "RST at accept races with connectSync's completion; those cases are judged by the monitors only (category `racy`)",
        "surplus = every byte the client's transport has RECEIVED beyond the framed message when the reuse decision is taken (handed to the framer or still in the sync buffer: Attempt.residue). Bytes the server writes later arrive on an idle cached connection, are dropped by the transport (HttpClient installs no data callback) and do not prevent reuse — measured in `late_surplus_after_idle`, judged by the monitors only; bytes that arrive after the next request was sent are that request's response by definition",
        "concurrent callers: an exchange (everything under the lease) is one atomic step of the model — exchanges of different hosts touch different keys of _connections under _mutex and commute up to the numbering of sessions; cleanup() during requests is excluded by its documented precondition",
    ]
    return ctx.finish(level="proof", rule="a case = reset + a sequence of logical requests (method, budget, per-attempt fault script) against the scripted loopback server; "
                      "distinct = distinct op lists; every case reaches the retry loop, so all are non-trivial; `exchanges` counts attempts")


def impl_only(ctx, hb, cases):
    """no model driver: run the implementation alone (monitors only)"""
    res = []
    for i in range(0, len(cases), 200):
        chunk = cases[i:i + 200]
        ops = [o for c in chunk for o in c["ops"]]
        out, rc, err = ctx.run_lines([hb], ops, timeout=3000)
        out += ["crash:no-output"] * (len(ops) - len(out))
        k = 0
        for c in chunk:
            lines = out[k:k + len(c["ops"])]
            k += len(c["ops"])
            res.append((c, lines, [compared(l) for l in lines]))
    return res


def report_property(ctx, hb, c, impl, model, fails, consts):
    ops = c["ops"]
    if not ctx.violation_budget("property", fails[0]):
        ctx.violation("property", fails[0])
        return
    if len(ops) > 2 and c["cat"] not in ("idem", "rrc"):
        cls = fails[0].split(":")[0]

        def still(sub):
            if not sub or not sub[0].startswith("reset "):
                sub = [ops[0]] + [o for o in sub if not o.startswith("reset ")]
            out, rc, err = ctx.run_lines([hb], sub, timeout=120)
            out = out + ["crash:" + str(rc)] * (len(sub) - len(out))
            cc = dict(c)
            cc["ops"] = sub
            return any(f.split(":")[0] == cls for f in monitor_case(cc, out, consts))
        try:
            if still(ops):
                small = ddmin(ops[1:], lambda s: still([ops[0]] + s), max_tests=12)
                ops = [ops[0]] + small
        except Exception:
            pass
    obj = {"ops": ops, "observed": impl if ops is c["ops"] else None, "expected_by_model": model if ops is c["ops"] else None,
           "failures": fails[:5], "category": c["cat"]}
    if "expect" in c:
        obj["expect"] = c["expect"]
    ctx.violation("property", fails[0], obj, found_input=True)


def load_corpus():
    d = os.path.join(HERE, "corpus", "C17")
    out = []
    if os.path.isdir(d):
        for fn in sorted(os.listdir(d)):
            if fn.endswith(".json"):
                c = json.load(open(os.path.join(d, fn)))
                c.setdefault("cat", "corpus")
                out.append(c)
    return out
