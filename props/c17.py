"""C17 — The HTTP client transmits a non-idempotent request at most once (DESIGN §7 C17)."""
import os, json, re
from vlib.core import Ctx, hexs, unhex, ddmin

ID = "C17"
MODULES = ["IoraModel.Props.C17"]
OBLIGATIONS = [
    {"id": "C17_R1", "theorem": "Iora.C17.R1_at_most_once", "kind": "proved",
     "statement": "non-idempotent method: every attempt but the last ended in HttpRequestNotSentError without calling sendSync (all budgets, scripts, client states)"},
    {"id": "C17_R1_count", "theorem": "Iora.C17.R1_send_count", "kind": "proved",
     "statement": "non-idempotent method: at most one attempt reaches sendSync"},
    {"id": "C17_R1_trace", "theorem": "Iora.C17.R1_trace", "kind": "proved",
     "statement": "non-idempotent method: engine->send is called at most once in the whole trace of the request"},
    {"id": "C17_R2", "theorem": "Iora.C17.R2_budget", "kind": "proved",
     "statement": "every method: attempts <= max(budget,0)+1; the model's fuel is never the reason the loop stops"},
    {"id": "C17_R3", "theorem": "Iora.C17.R3_framing_not_retried", "kind": "proved",
     "statement": "every method: an attempt followed by another attempt did not end in HttpFramingError"},
    {"id": "C17_R3_last", "theorem": "Iora.C17.R3_result_is_last", "kind": "proved",
     "statement": "the caller gets the outcome of the last attempt"},
    {"id": "C17_R3_outcomes", "theorem": "Iora.C17.R3_framing_outcomes", "kind": "proved",
     "statement": "malformed message / response cap / sync-buffer overflow after the request was sent end the attempt in HttpFramingError"},
    {"id": "C17_R4a", "theorem": "Iora.C17.R4_failure_evicts", "kind": "proved",
     "statement": "an attempt that held the lease and failed (any failure) leaves no cached connection for the host"},
    {"id": "C17_R4b", "theorem": "Iora.C17.R4_reuse_only_if", "kind": "proved",
     "statement": "a connection stays cached only if reuse is configured, no close signal, no surplus, not close-delimited, async switch ok"},
    {"id": "C17_R4b2", "theorem": "Iora.C17.R4_surplus_or_close_delimited_never_kept", "kind": "proved",
     "statement": "a kept connection's response was completed by frameResponse without surplus (never by peer close)"},
    {"id": "C17_R4c", "theorem": "Iora.C17.R4_sequences", "kind": "proved",
     "statement": "every sequence of requests: no session used after close; <=1 cached connection per host:port; cached sessions never closed; no lease left held"},
    {"id": "C17_R5", "theorem": "Iora.C17.R5_exact", "kind": "proved",
     "statement": "isIdempotentMethod = exact membership in {GET,HEAD,PUT,DELETE,OPTIONS,TRACE}"},
    {"id": "C17_R5_case", "theorem": "Iora.C17.R5_case_sensitive", "kind": "proved",
     "statement": "an idempotent token consists of upper-case ASCII letters only"},
    {"id": "C17_R5_table", "theorem": "Iora.C17.R5_table_and_defaults", "kind": "proved",
     "statement": "the extracted table is the RFC 9110 table; every public entry point has default budget 0 and a literal method"},
    {"id": "C17_R6_bound", "theorem": "Iora.C17.R6_receive_bound", "kind": "proved",
     "statement": "an attempt makes at most (#need-more answers)+1 receiveSync calls"},
    {"id": "C17_R6_silence", "theorem": "Iora.C17.R6_silence_ends_attempt", "kind": "proved",
     "statement": "a silent peer ends the attempt with an error at that receive"},
]
ANCHOR_FILES = ["include/iora/network/http_client.hpp", "include/iora/network/transport_impl.hpp"]

# the generator's own table (RFC 9110 §9.2.2) — independent of the source and of the model
RFC_IDEMPOTENT = {"GET", "HEAD", "PUT", "DELETE", "OPTIONS", "TRACE"}
METHODS_IDEM = ["GET", "HEAD", "PUT", "DELETE", "OPTIONS", "TRACE"]
METHODS_NON = ["POST", "PATCH", "get", "Get", "post", "put", "delete", "FOO", "GETX", "GE", "PUTT", "LOCK", "hEAD", "Post", "TRACe", "OPTION"]
REQUEST_TIMEOUT_MS = 400
FRAMING_CLASSES = "FPV"
PRESEND_CLASSES = "RBM"


# ------------------------------------------------------------------ responses (generator-side reference)
class Resp:
    def __init__(self, wire, status, conn, version, surplus, body, header_end, mode):
        self.wire, self.status, self.conn, self.version, self.surplus = wire, status, conn, version, surplus
        self.body, self.header_end, self.mode = body, header_end, mode

    def sem(self):
        return "%d,%s,%s,%d" % (self.status, "~" if self.conn is None else hexs(self.conn), hexs(self.version), 1 if self.surplus else 0)


def mk_resp(tag, method="GET", version=b"1.1", status=200, conn=None, mode="cl", surplus=b"", interim=0, conn_name=b"Connection", extra=()):
    body = (b"body-" + tag) if mode != "nobody" else b""
    reason = {200: b"OK", 201: b"Created", 204: b"No Content", 304: b"Not Modified", 404: b"Not Found", 500: b"Oops", 503: b"Busy"}.get(status, b"X")
    head = b"HTTP/" + version + b" " + str(status).encode() + b" " + reason + b"\r\n"
    head += b"X-Tag: " + tag + b"\r\n"
    for h in extra:
        head += h + b"\r\n"
    if conn is not None:
        head += conn_name + b": " + conn + b"\r\n"
    if mode == "cl":
        head += b"Content-Length: " + str(len(body)).encode() + b"\r\n"
        payload = body
    elif mode == "chunked":
        head += b"Transfer-Encoding: chunked\r\n"
        cut = len(body) // 2
        payload = b""
        for part in (body[:cut], body[cut:]):
            if part:
                payload += ("%x" % len(part)).encode() + b"\r\n" + part + b"\r\n"
        payload += b"0\r\n\r\n"
    elif mode == "nobody":
        if status not in (204, 304):
            head += b"Content-Length: 7\r\n"     # HEAD: a length without a body
        payload = b""
    else:   # close-delimited
        payload = body
    pre = b"HTTP/1.1 100 Continue\r\n\r\n" * interim
    wire = pre + head + b"\r\n" + payload
    return Resp(wire + surplus, status, conn, version, bool(surplus), body, len(pre) + len(head) + 2, mode)


def py_close_signalled(conn, version):
    """RFC 7230 §6.1/§6.3, written independently of the model: token list, OWS-trimmed, ASCII case-folded."""
    if conn is not None:
        toks = [t.strip(b" \t").lower() for t in conn.split(b",")]
        if b"close" in toks:
            return True
        if b"keep-alive" in toks:
            return False
    return version == b"1.0"


# body-framing violations (not evaluated for a HEAD request: RFC 9112 §6.3 rule 1 comes first)
MALFORMED_BODY = [
    b"HTTP/1.1 200 OK\r\nContent-Length: 5\r\nTransfer-Encoding: chunked\r\n\r\n5\r\nhello\r\n0\r\n\r\n",
    b"HTTP/1.1 200 OK\r\nContent-Length: 5x\r\n\r\nhello",
    b"HTTP/1.1 200 OK\r\nContent-Length: 3, 4\r\n\r\nhello",
    b"HTTP/1.1 200 OK\r\nTransfer-Encoding: chunked\r\n\r\nzz\r\nhello\r\n0\r\n\r\n",
    b"HTTP/1.1 200 OK\r\nContent-Length: \r\n\r\n",
    b"HTTP/1.1 200 OK\r\nContent-Length: 99999999999999999999999\r\n\r\n",
]
# header-block violations (every method)
MALFORMED = [
    b"HTTP/1.1 200 OK\r\nContent-Length: 5\r\nContent-Length: 6\r\n\r\nhello!",
    b"HTTP/2.0 200 OK\r\nContent-Length: 0\r\n\r\n",
    b"HTTP/1.1 abc OK\r\nContent-Length: 0\r\n\r\n",
    b"garbage-without-a-status-line\r\n\r\n",
    b"HTTP/1.1 200 OK\r\nX-A: 1\r\n folded\r\nContent-Length: 0\r\n\r\n",
    b"HTTP/1.1 200 OK\r\nno colon here\r\nContent-Length: 0\r\n\r\n",
]
CONN_VALUES = [None, b"keep-alive", b"close", b"Close", b"CLOSE", b"foo, close", b"close, foo", b"keep-alive, close", b"close,keep-alive",
               b" close ", b"\tclose", b"foo,\tclose\t", b"x-close-hint", b"closed", b"clos", b"keep-alive, upgrade", b"Keep-Alive", b"upgrade",
               b"", b",", b",close", b"close,", b"foo,,close", b"c lose", b"keep-alive,", b"  ,  ,  "]


def request_len(method, seq, body_len, reuse=True):
    line = "%s /r%d?q=1 HTTP/1.1\r\nHost: 127.0.0.1\r\nUser-Agent: Iora-HttpClient/1.0\r\nConnection: %s\r\nX-Req-Id: %d\r\n" % (
        method, seq, "keep-alive" if reuse else "close", seq)
    if body_len:
        line += "Content-Length: %d\r\n" % body_len
    fields = []
    off = 0
    for part in line.split("\r\n")[:-1]:
        fields += [off, off + 1, off + len(part), off + len(part) + 1]
        off += len(part) + 2
    total = len(line) + 2 + body_len
    fields += [total - body_len - 2, total - body_len - 1, total - body_len, total - 1, total]
    return total, sorted(set(f for f in fields if 0 <= f <= total))


# ------------------------------------------------------------------ script tokens:  <semantic>@<concrete>
def conc(req="n0", resp=b"", j=-1, act="k", cut=0):
    return "%s,%s,%d,%s,%d" % (req, hexs(resp), j, act, cut)


class Att:
    """One scripted attempt: semantic class (what the model is told), concrete injection (what the harness does)."""
    def __init__(self, cls, sem, concrete, resp=None, reusable=False, body=None, idle=False, note=""):
        self.cls, self.sem, self.concrete, self.resp, self.reusable, self.body, self.idle, self.note = cls, sem, concrete, resp, reusable, body, idle, note

    def tok(self):
        return ("I" if self.idle else "") + self.sem + "@" + self.concrete


def att_ok(rng, tag, method, reuse_cfg, kind=None):
    """A complete, well-formed response; returns the attempt and whether the connection may be kept."""
    head = method == "HEAD"
    mode = "nobody" if head else rng.choice(["cl", "cl", "cl", "chunked", "nobody"])
    status = rng.choice([200, 200, 200, 201, 404, 500, 503]) if mode != "nobody" or head else rng.choice([204, 304])
    version = rng.choice([b"1.1", b"1.1", b"1.1", b"1.0"])
    conn = rng.choice(CONN_VALUES) if rng.chance(2, 3) else None
    surplus = rng.choice([b"", b"", b"", b"X", b"HTTP/1.1 200 OK\r\nContent-Length: 0\r\n\r\n", b"\r\n"])
    interim = rng.choice([0, 0, 0, 1, 2])
    conn_name = rng.choice([b"Connection", b"connection", b"CONNECTION", b"Connection"])
    r = mk_resp(tag, method, version, status, conn, mode, surplus, interim, conn_name)
    async_ok = not rng.chance(1, 12)
    cut = rng.choice([0, 0, 1, r.header_end - 2, r.header_end, r.header_end + 1, len(r.wire) - len(surplus) - 1, rng.range(1, max(len(r.wire) - 1, 1))])
    if cut < 0 or cut >= len(r.wire) - len(surplus):
        cut = 0          # never separate the surplus from the message it follows (see `assumptions`)
    reusable = reuse_cfg and not py_close_signalled(conn, version) and not surplus and async_ok
    return Att("K", "K:%s:%d" % (r.sem(), 1 if async_ok else 0), conc(resp=r.wire, cut=cut) + (""), r, reusable, r.body)


def att_close_delimited(rng, tag, method):
    version = rng.choice([b"1.1", b"1.0"])
    conn = rng.choice([None, b"close", b"keep-alive"])
    r = mk_resp(tag, method, version, rng.choice([200, 500]), conn, "close")
    # any cut at or after the end of the header block is a complete close-delimited message
    j = rng.choice([len(r.wire), len(r.wire), r.header_end, r.header_end + 1, rng.range(r.header_end, len(r.wire))])
    body = r.wire[r.header_end:j]
    cut = rng.choice([0, r.header_end - 1, r.header_end])
    if cut >= j:
        cut = 0
    return Att("D", "D:%s" % r.sem(), conc(resp=r.wire, j=j, act="f", cut=cut), r, False, body)


def att_fault(rng, cls, tag, method, seq, body_len, reuse_cfg, exhaustive_off=None, racy=False):
    total, fields = request_len(method, seq, body_len, reuse_cfg)
    if cls in "LRBME":
        return Att(cls, cls, conc())
    if cls == "T":
        if rng.chance(1, 2):
            k = exhaustive_off if exhaustive_off is not None else rng.choice(fields + [0, total])
            return Att("T", "T", conc(req="s%d" % k), note="silence after %d request bytes" % k)
        r = mk_resp(tag, method, mode=rng.choice(["cl", "chunked"]) if method != "HEAD" else "cl")
        lim = len(r.wire) if method != "HEAD" else r.header_end
        j = rng.choice([0, 1, r.header_end - 1, r.header_end - 4, rng.range(0, lim - 1), lim - 1])
        j = max(0, min(j, lim - 1))
        return Att("T", "T", conc(resp=r.wire, j=j, act="s"), note="silence after %d response bytes" % j)
    if cls == "C":
        v = rng.below(6)
        if v == 0:
            # RST at accept races with the completion of connectSync: the client sees either a failed connect (not sent,
            # retried) or a closed connection. Both are fine for the property; only the `racy` stream (monitors only) uses it.
            if racy:
                return Att("C", "C", conc(req="a0"), note="RST at accept")
            v = 1
        if v == 1:
            return Att("C", "C", conc(req="w0"), note="RST with the request unread")
        if v in (2, 3):
            k = exhaustive_off if exhaustive_off is not None else rng.choice(fields + [0, total])
            if k == 0 and v == 3:
                k = 1      # FIN before any byte is read races with the request itself; RST (v==2) covers offset 0
            return Att("C", "C", conc(req="%s%d" % ("r" if v == 2 else "f", k)), note="%s after %d request bytes" % ("RST" if v == 2 else "FIN", k))
        r = mk_resp(tag, method, mode=rng.choice(["cl", "chunked"]) if method != "HEAD" else "cl")
        lim = len(r.wire) if method != "HEAD" else r.header_end
        j = rng.choice([0, 1, r.header_end - 1, r.header_end - 4, rng.range(0, lim - 1), lim - 1])
        j = max(0, min(j, lim - 1))
        return Att("C", "C", conc(resp=r.wire, j=j, act="f" if v == 4 else "r"), note="response cut at %d then %s" % (j, "FIN" if v == 4 else "RST"))
    if cls == "F":
        m = rng.choice(MALFORMED if method == "HEAD" else MALFORMED + MALFORMED_BODY)
        return Att("F", "F", conc(resp=m, cut=rng.choice([0, 0, 5, len(m) // 2])))
    if cls == "V":
        hdr = b"HTTP/1.1 200 OK\r\nContent-Length: 5000\r\n\r\n"
        return Att("V", "V", conc(resp=hdr + b"v" * 900, act="s"))
    raise ValueError(cls)


def att_cap(rng, tag, method, cap):
    hdr = b"HTTP/1.1 200 OK\r\nX-Tag: " + tag + b"\r\n\r\n"
    return Att("P", "P", conc(resp=hdr + b"p" * (cap + 1 - len(hdr) + rng.choice([0, 1, 50])), act="s"))


# ------------------------------------------------------------------ case generation
def gen_cases(ctx, rng, n_cases, thorough):
    cases = []
    seq = 0
    for ci in range(n_cases):
        reuse_cfg = not rng.chance(1, 8)
        cap = rng.choice([0, 0, 0, 3000])
        ops = ["reset %d %d 50" % (1 if reuse_cfg else 0, cap)]
        meta = []
        nreq = rng.choice([1, 2, 2, 3, 4, 6])
        for ri in range(nreq):
            seq += 1
            idem = rng.chance(1, 2)
            method = rng.choice(METHODS_IDEM) if idem else rng.choice(METHODS_NON)
            budget = rng.choice([0, 1, 1, 2, 2, 3, 3, -1, 5])
            host = 1 if rng.chance(1, 6) else 0
            url_kind = 9 if rng.chance(1, 40) else host
            body_len = rng.choice([0, 0, 5, 300]) if method not in ("GET", "HEAD") else 0
            n_att = max(budget, 0) + 2
            script = []
            for ai in range(n_att):
                tag = ("c%dr%da%d" % (ci, ri, ai)).encode()
                roll = rng.below(100)
                if roll < 34:
                    a = att_ok(rng, tag, method, reuse_cfg)
                elif roll < 40 and method != "HEAD":      # a HEAD response has no body, so it is never close-delimited
                    a = att_close_delimited(rng, tag, method)
                elif roll < 44 and cap:
                    a = att_cap(rng, tag, method, cap)
                else:
                    cls = rng.choice(list("LRBMETTTCCCCFFV"))
                    a = att_fault(rng, cls, tag, method, seq, body_len, reuse_cfg)
                if rng.chance(1, 25):
                    a.idle = True
                script.append(a)
            ops.append("req %s %d %d %d %s" % (hexs(method.encode()), budget, url_kind, body_len, " ".join(a.tok() for a in script)))
            meta.append({"method": method, "budget": budget, "host": host, "url_kind": url_kind, "script": script, "reuse_cfg": reuse_cfg})
        cases.append({"cat": "sequence", "ops": ops, "meta": meta})
    return cases


def gen_pure_cases(ctx, rng, n):
    cases = []
    ops, exp = [], []
    for m in METHODS_IDEM + METHODS_NON + ["", " GET", "GET ", "GÉT".encode("latin-1", "replace").decode("latin-1"), "CONNECT"]:
        mb = m.encode("latin-1")
        ops.append("idem %s" % hexs(mb))
        exp.append("1" if m in RFC_IDEMPOTENT else "0")
    cases.append({"cat": "idem", "ops": ops, "expect": exp})
    ops, exp = [], []
    vals = list(CONN_VALUES)
    for _ in range(n):
        toks = []
        for _ in range(rng.range(0, 4)):
            t = rng.choice([b"close", b"keep-alive", b"Close", b"KEEP-ALIVE", b"foo", b"", b"x-close", b"closee", b"clos", b"upgrade", b"cLoSe"])
            t = rng.choice([b"", b" ", b"\t", b"  "]) + t + rng.choice([b"", b" ", b"\t", b" \t "])
            toks.append(t)
        vals.append(b",".join(toks))
    for v in vals:
        for ver in (b"1.1", b"1.0", b"", b"1.00"):
            ops.append("rrc %s %s" % ("~" if v is None else hexs(v), hexs(ver)))
            exp.append("1" if py_close_signalled(v, ver) else "0")
    cases.append({"cat": "rrc", "ops": ops, "expect": exp})
    return cases


# ------------------------------------------------------------------ property monitors (implementation output only)
def fields_of(line):
    d = {}
    for part in line.replace(" | ", " ").split():
        if "=" in part:
            k, v = part.split("=", 1)
            d[k] = v
    return d


def monitor_case(c, impl, consts):
    bad = []
    if c["cat"] in ("idem", "rrc"):
        for op, l, e in zip(c["ops"], impl, c["expect"]):
            if l != e:
                tag = "R5" if c["cat"] == "idem" else "R4"
                bad.append("%s: %s -> implementation says %s, the reference (RFC 9110 §9.2.2 / RFC 7230 §6.1) says %s" % (tag, op, l, e))
        return bad
    closed = set()
    for op, l, m in zip(c["ops"][1:], impl[1:], c["meta"]):
        if l.startswith("crash:") or l.startswith("throw") or l == "bad-op":
            bad.append("R6: the request did not end with a value or an error: %s -> %s" % (op[:100], l))
            continue
        f = fields_of(l)
        try:
            att = int(f["att"])
            ev = [] if f["ev"] == "-" else f["ev"].split(",")
        except (KeyError, ValueError):
            bad.append("R6: unparsable answer %s" % l[:120])
            continue
        script = m["script"]
        idem = m["method"] in RFC_IDEMPOTENT
        budget = max(m["budget"], 0)
        sends = [e for e in ev if e[0] == "s"]
        # R1: a non-idempotent request is handed to the transport / reaches the wire in at most one attempt, and nothing follows that attempt
        if not idem:
            if len(sends) > 1:
                bad.append("R1: %s handed to the transport in %d attempts (engine trace %s)" % (m["method"], len(sends), f["ev"]))
            elif sends:
                after = ev[ev.index(sends[0]) + 1:]
                if any(e[0] in "cs" for e in after):
                    bad.append("R1: %s: another attempt followed the one that reached sendSync (engine trace %s)" % (m["method"], f["ev"]))
            if int(f.get("wire", "0")) > 1 or int(f.get("srvwire", "0")) > 1:
                bad.append("R1: bytes of a %s request were transmitted on %s client sockets / seen on %s server connections" % (m["method"], f.get("wire"), f.get("srvwire")))
        # R2: at most budget + 1 attempts
        if att > budget + 1 or f.get("exhausted") == "1":
            bad.append("R2: %d attempts with retry budget %d (%s)" % (att, m["budget"], m["method"]))
        # R3: a deterministic framing error ends the loop at once
        for i, a in enumerate(script[:att]):
            if a.cls in FRAMING_CLASSES and m["url_kind"] != 9 and (i + 1 != att or f["res"] != "err:framing"):
                # only if the attempt really got as far as receiving (a cached connection skips connect faults, nothing skips these)
                bad.append("R3: attempt %d met a framing error (%s) but the request went on / ended as %s after %d attempts" % (i, a.cls, f["res"], att))
                break
        # R4: no use of a session after it was closed; nothing cached for the host unless the final exchange allows reuse
        for e in ev:
            if e[0] == "x":
                closed.add(e[1:])
            elif e[0] == "s" and e[1:] in closed:
                bad.append("R4: request sent on session %s after it had been closed/evicted (engine trace %s)" % (e[1:], f["ev"]))
        cached_hosts = set(x.split("#")[0] for x in f.get("cache", "-").split(",") if x != "-")
        last = script[att - 1] if 0 < att <= len(script) else None
        # (L leaves the cache alone; R/B only bite when a connection has to be opened, which the generator does not track)
        if last is not None and m["url_kind"] != 9 and last.cls not in "LRB" and not last.reusable:
            if "h%d" % m["host"] in cached_hosts:
                bad.append("R4: a connection stays cached after an exchange that forbids reuse (class %s, %s)" % (last.cls, last.sem[:60]))
        if f.get("leased") != "0":
            bad.append("R4: lease still held after the request returned (leased=%s)" % f.get("leased"))
        # R6 (measured part): a silent peer ends the attempt within a small multiple of the configured timeout
        avms = [int(x) for x in f.get("avms", "-").split(",") if x not in ("-", "")]
        for i, v in enumerate(avms):
            if v > 10 * REQUEST_TIMEOUT_MS:
                bad.append("R6: attempt %d lasted %d ms of client time with requestTimeout %d ms" % (i, v, REQUEST_TIMEOUT_MS))
        # a response is attributed to the request it answers
        if f["res"].startswith("ok:") and last is not None and last.body is not None:
            if f.get("body") != hexs(last.body):
                bad.append("R4: the response body handed to the caller is not the one sent for this request: got %s want %s" % (f.get("body", "")[:60], hexs(last.body)[:60]))
        # back-off constants
        sl = [int(x) for x in f.get("sleeps", "-").split(",") if x not in ("-", "")]
        for k, v in enumerate(sl):
            lo = (1 << k) * consts["backoffBaseMs"] + consts["jitterLo"]
            hi = (1 << k) * consts["backoffBaseMs"] + consts["jitterHi"]
            if not (lo <= v <= hi):
                bad.append("backoff: sleep %d before retry %d outside [%d, %d]" % (v, k + 1, lo, hi))
        if f.get("quiesce") == "FAILED":
            bad.append("harness: the scripted server did not accept a connection the client opened")
    return bad


def gen_consts(ctx):
    p = os.path.join(os.environ.get("VERIF_LEAN", os.path.join(os.path.dirname(os.path.dirname(os.path.abspath(__file__))), "lean")), "IoraModel", "Gen", "HttpRetry.lean")
    out = {"backoffBaseMs": 100, "jitterLo": 0, "jitterHi": 99}
    try:
        t = open(p).read()
        for k in out:
            m = re.search(r"def %s : Nat := (\d+)" % k, t)
            if m:
                out[k] = int(m.group(1))
    except OSError:
        pass
    return out


def run(ctx: Ctx):
    quick = ctx.tier == "quick"
    rng = ctx.rng
    ctx.translate(["httpretry"])
    ok_build = ctx.lake_build(MODULES + ["iora_model"])
    if ok_build:
        ctx.audit(MODULES, OBLIGATIONS)
        if not quick:
            ctx.leanchecker(MODULES + ["IoraModel.Lemmas.HttpRetry", "IoraModel.Lemmas.HttpRetryCache", "IoraModel.Model.HttpRetry"])
    else:
        ctx.cov["obligations"] = len(OBLIGATIONS)
    hb = ctx.build_harness("harness/c17_httpretry.cpp", sanitize=True)
    dist = {}
    consts = gen_consts(ctx)
    if hb and os.path.exists(ctx.model_bin()):
        cases = load_corpus() + gen_pure_cases(ctx, rng.fork("pure"), 60 if quick else 600) + gen_cases(ctx, rng.fork("seq"), 450 if quick else 9000, not quick)
        res = ctx.lockstep("httpretry", hb, cases, timeout=900)
        n_mismatch = 0
        exchanges = 0
        for c, impl, model in res:
            dist[c["cat"]] = dist.get(c["cat"], 0) + 1
            ctx.count_case("\n".join(c["ops"]), nontrivial=True)
            fails = monitor_case(c, impl, consts)
            for l in impl:
                if l.startswith("ev="):
                    exchanges += int(fields_of(l).get("att", "0"))
            for m in c.get("meta", []):
                for a in m["script"]:
                    dist["att:" + a.cls] = dist.get("att:" + a.cls, 0) + 1
            mism = [(i, a, b) for i, (a, b) in enumerate(zip(impl, model)) if a.split(" | ")[0] != b]
            if len(ctx.cov["samples"]) < 6 and c["cat"] == "sequence" and rng.chance(1, 40):
                ctx.sample({"ops": [o[:200] for o in c["ops"][:3]], "impl": [l[:200] for l in impl[:3]]})
            if fails:
                report_property(ctx, hb, c, impl, model, fails, consts)
            elif mism:
                n_mismatch += 1
                if n_mismatch <= 3:
                    i, a, b = mism[0]
                    ctx.violation("correspondence", "model and implementation disagree (no property monitor fails on this case): op `%s` impl=`%s` model=`%s`"
                                  % (c["ops"][i][:160], a.split(" | ")[0][:160], b[:160]),
                                  {"broken": {"correspondence": "httpretry trace inclusion (harness/c17_httpretry.cpp vs Model/HttpRetry.lean)",
                                              "detail": "first differing op index %d" % i},
                                   "ops": c["ops"], "observed": impl, "expected_by_model": model}, found_input=False)
        ctx.extra["exchanges"] = exchanges
    ctx.extra["input_distribution"] = dist
    ctx.extra["repo_tree_sha"] = ctx.repo_tree_sha(ANCHOR_FILES)
    return ctx.finish(level="proof", rule="a case = reset + a sequence of logical requests (method, budget, per-attempt fault script) against the scripted loopback server")


def report_property(ctx, hb, c, impl, model, fails, consts):
    obj = {"ops": c["ops"], "observed": impl, "expected_by_model": model, "failures": fails[:5], "category": c["cat"]}
    ctx.violation("property", fails[0], obj, found_input=True)


def load_corpus():
    return []
