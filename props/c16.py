"""C16 — Each HTTP request gets exactly one well-formed response, in order (DESIGN §7 C16)."""
import os, json, re
from vlib.core import Ctx, hexs, unhex, ddmin, load_known_findings

ID = "C16"
MODULES = ["IoraModel.Props.C16"]
LEANCHECK = ["IoraModel.Props.C16", "IoraModel.Lemmas.HttpRespond", "IoraModel.Lemmas.HttpRespondConn", "IoraModel.Lemmas.HttpRespondFramer",
             "IoraModel.Model.HttpRespondBase", "IoraModel.Model.HttpServerRespond", "IoraModel.Model.HttpRespondScript", "IoraModel.Model.HttpRespondConn",
             "IoraModel.Gen.HttpRespond", "IoraModel.Model.HttpRespondRestart", "IoraModel.Lemmas.HttpRespondRestart", "IoraModel.Lemmas.HttpRespondHead"]
OBLIGATIONS = []      # filled from OBLIGATION_TABLE below
ANCHOR_FILES = ["include/iora/network/http_server.hpp", "include/iora/core/thread_pool.hpp", "include/iora/parsers/http_message.hpp"]
COMPONENT = "httprespond"

OBLIGATION_TABLE = """
C16_O1_one_send|Iora.C16.O1_at_most_one_send|proved|the transport calls of one processHttpRequest, listed arm by arm along its control flow (processCalls), are [] | [sendAsync w] | [sendAsync w, close] for every server, seam behaviour, environment and request bytes (case analysis of the control flow, not a property of a result type); the engine commands are those calls minus a refused sendAsync, so at most one Send
C16_O1_shape|Iora.HttpRespond.processCalls_shape|proved|the case analysis itself: every arm, guard and seam outcome of processCalls
C16_O1_seam|Iora.C16.O1_seam_throw_500|proved|a subclass seam (onUpgradeRequest / onResponseSuppressed) that throws anything, std::exception or not, yields exactly one 500 + Connection: close + Close (FC16b repaired: the arm is catch (...); does not build on the unrepaired tree)
C16_O1_up|Iora.C16.O1_exactly_one_response|proved|server up: every extracted request (any bytes) is answered by exactly one Send command, or suppressed — and suppressed only if the handler that ran set _suppressSend without throwing or the subclass seam returned true
C16_O1_shutdown|Iora.C16.O1_shutdown|proved|shutdown at entry: 503 + Connection: close + Close while the transport exists, nothing otherwise
C16_O1_overflow|Iora.C16.O1_overflow|proved|pool overflow (queue at capacity on arrival): exactly one 503 Send followed by Close, issued at once
C16_O1_conn|Iora.C16.O1_all_schedules|proved|for every schedule, worker count and queue capacity: commands issued so far + commands still owed is a permutation of the ledger, and the ledger is exactly one ticket per arrival in arrival order (ticketsOf replays the schedule): the overflow 503 precisely for arrivals that found the queue at capacity, processHttpRequest's commands otherwise
C16_O1_quiescent|Iora.C16.O1_quiescent|proved|for every schedule: once all workers are idle the Send commands of a session are a permutation of the responses of its requests — one per request
C16_O2|Iora.C16.O2_whole_responses|proved|for every schedule every Send command in the engine queue carries exactly one whole response of one arrived request of that session (responses never interleave; contiguity of one Send is C01)
C16_O1_ticket|Iora.C16.O1_one_send_per_ticket|proved|every ticket (what one arrived request is entitled to, for any server, per-call environment and request bytes) contains at most one Send; the overflow ticket exactly one
C16_O2_stream|Iora.C16.O2_stream_is_prefix_of_whole_responses|proved|for every kernel / event-loop behaviour the bytes a peer reads are a prefix of the concatenation, in engine-queue order, of the whole Send payloads before the first Close
C16_O3_refuted|Iora.C16.O3_refuted|refuted|F28: with 2 workers the Send order is the completion order (witness: arrive r1, arrive r2, pick, pick, finish task 2, finish task 1)
C16_O3_partial|Iora.C16.O3_partial_one_in_flight|partial|for every schedule in which a request of a session arrives only when no earlier one of that session is unfinished: each session's commands are exactly its requests' commands in arrival order, at every moment
C16_O3_partial_w1|Iora.C16.O3_partial_single_worker|partial|one worker and a queue that is never full: the whole engine queue is the requests' commands in arrival order, at every moment (a statement about the model's parameter w: HttpServer constructs its pool with 2..8 workers, so no shipped configuration satisfies w = 1; it shows that reordering needs a second worker)
C16_O4_cl|Iora.C16.O4_content_length|proved|if the response object is API-consistent after the handler (Content-Length = dec |body|), the bytes sent are head ++ body with `Content-Length: |body|` among the fields (non-HEAD)
C16_O4_api|Iora.C16.O4_api_script_consistent|proved|every handler written with status=/set_content/set_header (any number, any order, throwing or not) leaves the response API-consistent
C16_O4_head|Iora.C16.O4_head_no_body|proved|a parsed HEAD request is answered without body bytes on every dispatch category, whatever the handler did; 204/304 also lose Content-Length
C16_O4_throw|Iora.C16.O4_throw_500|proved|a handler that throws (std::exception or anything else) yields status 500 with the 21-byte body and its Content-Length, never suppressed
C16_O4_parse|Iora.C16.O4_parse_failure|proved|a request that fromWireFormat rejects yields exactly its mapped status (400/414/501/505, else 500) with Connection: close, Content-Length = body, followed by Close
C16_O4_parse_statuses|Iora.C16.O4_parse_statuses|proved|the statuses the request parser can throw are exactly 400, 414, 501, 505
C16_O4_close|Iora.C16.O4_close_token|proved|a Connection value whose comma-separated, OWS-trimmed, case-folded token list contains `close` gives Connection: close on the response and a Close command after it (after the F33 repair; fails to build on the unrepaired tree)
C16_O4_close_hdr|Iora.C16.O4_close_header_iff|proved|the response says Connection: close exactly when the Close command follows (server up), keep-alive otherwise
C16_O4_keepalive|Iora.C16.O4_keepalive_default|proved|no Connection field, default session: Connection: keep-alive and no Close
C16_O4p_refuted|Iora.C16.O4p_refuted|refuted|F31: a Close command destroys the session's write queue: response [1,2], kernel accepts 1 byte, Close => peer reads 1 byte
C16_O4p_partial|Iora.C16.O4p_partial_fits_buffer|partial|if the kernel takes every Send whole (response fits the socket buffer) everything sent before the Close is delivered, for every event sequence
C16_O4p_prefix|Iora.C16.O4p_prefix_always|proved|for every event sequence the delivered bytes are a prefix of what was sent before the Close (never garbage, never reordered)
C16_O5|Iora.C16.O5_framer_recovers|proved|the reference HTTP/1.1 framer applied to the concatenation of any list of wire-safe responses returns exactly their (status, field lines, body) list and nothing is left over
C16_O5_process|Iora.C16.O5_process_wire_safe|proved|what processHttpRequest sends for a parsed request is wire-safe whenever the handler left token field names, no LF in values, no Transfer-Encoding, a status in 200..999 and an API-consistent body (or a 204/304, whose body and Content-Length are dropped under every method after the FC16a repair)
C16_O5_e2e|Iora.C16.O5_end_to_end|proved|capstone: responses wire-safe + fitting the socket buffer + issued in order (optionally followed by Close) => for every kernel / event-loop behaviour the reference framer splits what the client reads into exactly those responses
C16_O1_wire|Iora.C16.O1_wire_partial|partial|pool + engine + framer composed: under OneInFlight, no overflow, workers idle and FitsBuffer, if the commands of a session's requests are the Sends of wire-safe responses rs (+ at most one final Close), the bytes the client reads split into exactly rs, in request order, for every kernel / event-loop behaviour
C16_O1_drain|Iora.C16.O1_upgrade_drain|proved|accepted upgrade with bytes of the upgraded protocol behind the request (buffered with it, or queued behind under the upgrade hold while the worker drains): the calls are the upgrade response (if the transport is up) followed by at most one Close; the drain is a loop, pass k hands the buffer to the virtual onUpgradedData; the Close exactly when some pass threw (std or not) with the transport still up; the hook is called once per pass up to and including the first throwing one and never after; never a second Send (FC16c; on a tree without the drain's own catch (...) Gen.upgradeDrainGuarded is false and drainLoop_eq / processCalls_shape do not build)
C16_O1_overflow_env|Iora.C16.O1_overflow_every_env|proved|sendErrorResponse on pool overflow in every environment: nothing while `_transport && !_shutdown` fails, otherwise 503 Send + Close, and the Close also when the engine refused the Send (never open-and-unanswered); on a running server these are the overflowCmds of the pool theorems
C16_O1_restart|Iora.C16.O1_restart|proved|across any schedule of arrivals, picks, emits, stop() and start() calls on one HttpServer object every engine command reaches the transport its request arrived on — a worker that outlives stop()'s 2 s drain wait never addresses the next transport, whose session ids start at 1 again (FC16e repaired: epoch read by handleIncomingData and captured by value at dispatch — Gen.epochCapturedAtDispatch —, compared inside all 7 guarded blocks; holds for requests running AND requests still queued at stop(); does not build on a tree without the check or with the epoch read at task start)
C16_O1_restart_late_epoch|Iora.C16.O1_restart_epoch_at_task_start_refuted|proved|what capturing the epoch AT DISPATCH prevents (seed C16-e): guards that compare an epoch read only when a worker starts the task still send a request that was QUEUED across stop()+start() to the new transport (witness: arrive on session 1, stop, start, pick, emit); the request already running at stop() is protected by either
C16_O1_restart_unguarded|Iora.C16.O1_restart_unguarded_refuted|proved|what FC16e's repair prevents: for the worker without the epoch check the statement is false (witness: arrive on session 1, pick, stop, start, emit: a generation-0 request's Send is delivered by the generation-1 transport)
C16_O1_restart_drained|Iora.C16.O1_restart_partial_drained|proved|with or without the epoch check: if start() is only called when no task of the previous run is left, every command reaches the transport its request arrived on
C16_O4_head_every_arm|Iora.C16.O4_head_every_arm|proved|FC16f repaired: request bytes whose request line starts with `HEAD ` get toWire st text H [] — not one byte behind the header section — from EVERY arm and in every environment: shutdown arm (503), error arm (400/414/501/505 parse rejects, 500 of a throwing hook), normal path (auto-HEAD, 405, 404, default handler); the arms outside the normal path decide from the raw bytes (isHeadRequest), the normal path from the parsed method, and the two readings agree for all bytes (fromWireFormat_head); an upgrade the subclass hook accepted is the hook's response; pool overflow is O1_overflow / O1_overflow_every_env with head = isHeadRaw data; does not build on a tree whose arms do not strip (Gen.errorArmsStripHead)
C16_O4_head_parse|Iora.HttpRespond.fromWireFormat_head|proved|for all bytes: a request that starts with `HEAD ` and that fromWireFormat accepts has the parsed method HEAD (the raw-bytes test of the error arms and the parsed-method test of the normal path agree)
C16_O4_head_partial|Iora.C16.O4_head_partial_normal_path|proved|the normal path alone, keyed on the parsed method: the response to HEAD is toWire st text H []
C16_gen_restart|Iora.C16.gen_restart_and_write_queue|proved|Gen conformance: the dispatch lambda carries the transport epoch captured by value at dispatch and every guarded block of the worker checks it, stop() waits 2 s, and poolQueueCap <= maxWriteQueue (start()'s config)
C16_gen_methods|Iora.C16.gen_methods|proved|Gen conformance: HttpMethod enumerators and parseMethod table agree with the model's Method type
C16_gen_shape|Iora.C16.gen_connection_tokenised|proved|Gen conformance: the Connection decision found in the source is the tokenised one (F33 repaired) and the 204/304 reconciliation applies to every method (FC16a repaired)
C16_gen_session|Iora.C16.gen_session_defaults|proved|Gen conformance: a default-constructed SessionInfo (version 1.1, keep-alive) never asks for close by itself; how many assignments to httpVersion / connectionKeepAlive exist in http_server.hpp is reported as an observation (evidence: session_field_writes), not pinned — a fix that starts honouring HTTP/1.0 must not fail the proof layer
C16_gen_parse_table|Iora.C16.gen_parse_status_table|proved|Gen conformance: each throw site of parseRequestLine / fromWireFormat / parseMethod carries the RFC status the model documents (414 target too long, 501 unknown method, 505 unsupported major, 400 for the other nine)
"""
for _l in OBLIGATION_TABLE.strip().splitlines():
    _i, _t, _k, _s = _l.split("|", 3)
    o = {"id": _i, "theorem": _t, "kind": _k, "statement": _s}
    if "F28" in _s:
        o["finding"] = "F28"
    if "F31" in _s:
        o["finding"] = "F31"
    OBLIGATIONS.append(o)

NOT_PROVED = [
    "O3 at full strength is false (F28, refuted); proved under `OneInFlight` (non-pipelining client). `O3_partial_single_worker` (w = 1, queue never full) is about the "
    "model's worker-count parameter only: HttpServer builds its pool with 2..8 workers (Gen.poolInitial = 2, poolMax = 8)",
    "O4' at full strength is false (F31, refuted); proved under `FitsBuffer`",
    "the pool model (FIFO pop, w workers, one engine command per `_mutex` section) is tied by lockstep on gate-controlled schedules (handlers park at gates, "
    "the op script chooses the completion order; one or two requests per read) and by the end-to-end acceptor; preemption INSIDE processHttpRequest between its two "
    "`_mutex` sections (Send, then Close) is in the model (`emit` per command) but is not forced in the harness; the pool model is of a running server "
    "(sendErrorResponse's guard and a refused Send on the overflow path are modelled per call, `overflowCalls env` / O1_overflow_every_env, and driven by the "
    "`overflow <req> <bits>` op; its `catch (const std::exception &)` force-close branch — an exception out of toWireFormat / sendAsync — is not modelled)",
    "O4_head_every_arm excludes one response: an upgrade that the subclass hook accepted for a HEAD request is sent as the hook filled it (the server does not build it)",
    "across stop()/start() on one server object (FC16e, repaired) the restart model abstracts the server to (generation, up, tasks, log); what a HANDLER sends through the "
    "sid-addressed API (sendRaw / sendRawForSse / closeSession, and the upgrade drain's closeSession) after a restart has the same exposure as the unrepaired dispatcher had and is "
    "outside the model — stop() still gives up on running handlers after 2 s",
    "the drain loop of the upgrade arm is modelled on the worker thread (O1_upgrade_drain; how many passes find bytes is an environment input, Env.drainChunks — that the upgrade hold "
    "queues every read behind the buffered bytes in arrival order and that each byte reaches the hook exactly once is property C18's, tied here by lockstep through the real "
    "handleIncomingData with reads arriving during the hook); onUpgradedData called directly by the I/O thread once the hold is released has no try at all and is outside the model, "
    "as is what the hook itself sends (sendRaw)",
    "Gen facts consumed only by the model's definitions (wire text / driver parameters) and tied by lockstep, no theorem depends on their value: maxRequestTargetSize, listValuedHeaders, "
    "serverHeader, statusTexts, poolInitial, poolMax, sessionDefaultVersion; pinned by a conformance theorem: the parser statuses (gen_parse_status_table), poolQueueCap <= maxWriteQueue, "
    "stopDrainSeconds, dispatchChecksGeneration, upgradeDrainGuarded (gen_restart_and_write_queue, O1_upgrade_drain)",
    "O4_close speaks about the request's Connection value as parsed: repeated Connection field-lines are last-wins (addOrCombineHeader allow-list), "
    "so `Connection: close` followed by a second Connection line without `close` does not close (observation, not repaired: the allow-list is tested behaviour)",
    "O5 assumes the handler put no LF in field values, field names are tokens, no Transfer-Encoding, and a status in 200..999",
    "routing (splitPath / compilePattern / patternMatches / classifyRequest / getAllowedMethods) is in the model and tied by lockstep only: the translator has no "
    "shape checks for it, and no C16 theorem depends on which category a request falls into (they hold for every Decision)",
    "an exception escaping a HANDLER is caught by invokeWithSafetyNet (catch (...)); exceptions of the two subclass seams reach the function's own catch — modelled "
    "(Seam.threw) since FC16b; a seam that blocks forever or a handler that never returns is outside the model",
]

KEY_F28 = "pipelined-slow-then-fast"
KEY_F31 = "connection-close-24MiB-slow-reader"      # the key is the finding's name; the body is sized from the host's socket buffers (>= 24 MiB)
WHAT_F28 = "pipelined requests are handled by different pool threads and answered in completion order (GET /slow then GET /fast on one connection: FAST response first)"
WHAT_F31 = "Connection: close + a response larger than the socket buffer: the Close command discards the unsent tail of the write queue (body truncated)"


# ================================================================== independent reference pieces (generator / monitors)
def fnv64(b):
    h = 0xcbf29ce484222325
    for x in b:
        h ^= x
        h = (h * 0x100000001b3) & 0xFFFFFFFFFFFFFFFF
    return "%016x" % h


def tok_close(value):
    """RFC 9110 §7.6.1: Connection = #connection-option; tokens are OWS-trimmed and case-insensitive."""
    return any(t.strip(b" \t").lower() == b"close" for t in value.split(b","))


def parse_head(head):
    """(status:int or None, reason, [(name, value)], malformed?) of a header section as printed by the harness (ends with CRLFCRLF)."""
    if not head.endswith(b"\r\n\r\n"):
        return None, b"", [], True
    lines = head[:-4].split(b"\r\n")
    m = re.fullmatch(rb"HTTP/1\.1 (-?\d+) ([^\r\n]*)", lines[0])
    if not m:
        return None, b"", [], True
    fields = []
    bad = False
    for l in lines[1:]:
        if b":" not in l:
            bad = True
            continue
        k, v = l.split(b":", 1)
        fields.append((k.strip(b" \t"), v.strip(b" \t")))
    return int(m.group(1)), m.group(2), fields, bad


def field(fields, name):
    vs = [v for k, v in fields if k.lower() == name.lower()]
    return vs[-1] if vs else None


def ref_frames(stream, heads):
    """Independent reference framer (RFC 9112 §6.3, fixed-length bodies). heads[i] = response i answers a HEAD request.
    Returns (frames, leftover, error)."""
    frames = []
    pos = 0
    i = 0
    while pos < len(stream):
        he = stream.find(b"\r\n\r\n", pos)
        if he < 0:
            return frames, stream[pos:], "incomplete header section"
        head = stream[pos:he + 4]
        st, reason, fields, bad = parse_head(head)
        if st is None or bad or not (100 <= st <= 999):
            return frames, stream[pos:], "malformed status line or field line"
        cls = [v for k, v in fields if k.lower() == b"content-length"]
        if any(k.lower() == b"transfer-encoding" for k, v in fields):
            return frames, stream[pos:], "unexpected Transfer-Encoding"
        is_head = heads[i] if i < len(heads) else False
        if cls and (len(cls) != 1 or not re.fullmatch(rb"\d+", cls[0])):
            return frames, stream[pos:], "invalid Content-Length"
        if is_head or st < 200 or st in (204, 304):
            n = 0
        elif not cls:
            frames.append({"status": st, "fields": fields, "body": stream[he + 4:], "close_delimited": True, "head": head})
            return frames, b"", None
        else:
            n = int(cls[0])
        if len(stream) - (he + 4) < n:
            return frames, stream[pos:], "body shorter than Content-Length"
        frames.append({"status": st, "fields": fields, "body": stream[he + 4:he + 4 + n], "head": head})
        pos = he + 4 + n
        i += 1
    return frames, b"", None


# ================================================================== script language (shared with harness + driver)
def sc_content(body, ctype=b"text/plain"):
    return "sc:%s:%s" % (hexs(body), hexs(ctype))


def sc_header(k, v):
    return "sh:%s:%s" % (hexs(k), hexs(v))


API_ACTIONS = ("st", "sc", "sh", "echo", "big", "sleep", "thr", "thx", "sup")


def script_is_api(sc):
    if sc == "-":
        return True
    for a in sc.split(","):
        p = a.split(":")
        if p[0] not in API_ACTIONS:
            return False
        if p[0] == "sh" and unhex(p[1]).lower() == b"content-length":
            return False
    return True


def rand_script(rng, allow_throw=True, allow_sup=True, allow_raw=True):
    acts = []
    for _ in range(rng.choice([0, 1, 1, 2, 2, 3, 4])):
        k = rng.below(20)
        if k < 5:
            acts.append(sc_content(rng.choice([b"", b"x", b"hello world", rng.bytes(rng.range(0, 40)), b"A" * rng.choice([255, 256, 1000])]),
                                   rng.choice([b"text/plain", b"application/json", b"application/octet-stream"])))
        elif k < 8:
            acts.append("st:%d" % rng.choice([200, 201, 204, 304, 400, 404, 418, 500, 503, 299, 100, 999, 1000, 0, -1, 2147483647]))
        elif k < 11:
            acts.append(sc_header(rng.choice([b"X-A", b"x-a", b"Content-Type", b"content-type", b"Connection", b"Server", b"Allow", b"Zeta", b"Cache-Control",
                                              b"Content-Length", b"CONTENT-LENGTH", b"X-\xc3\xa9", b"A", b"a"]),
                                  rng.choice([b"1", b"v", b"", b"a, b", b"close", b"keep-alive", b"7"])))
        elif k < 12:
            acts.append("echo")
        elif k < 13 and allow_raw:
            acts.append("bd:%s" % hexs(rng.choice([b"", b"raw", rng.bytes(rng.range(1, 30))])))
        elif k < 14 and allow_raw:
            acts.append("eh:%s" % hexs(rng.choice([b"Content-Length", b"content-type", b"X-A", b"Allow"])))
        elif k < 15 and allow_sup:
            acts.append("sup")
        elif k < 17 and allow_throw:
            acts.append(rng.choice(["thr", "thx"]))
        elif k < 18:
            acts.append("big:%d:%d" % (rng.choice([0, 1, 4096, 70000]), rng.choice([65, 0, 255])))
        else:
            acts.append(sc_content(b"ok"))
    return ",".join(acts) if acts else "-"


GOOD_PATTERNS = [b"/", b"/a", b"/a/b", b"/users", b"/users/", b"/users/:id", b"/e/:x/:y", b"/e/:x/:x", b"/static/*", b"/w/:id/*", b"/*", b"/a/:b",
                 b"//", b"/a//b", b"", b"x", b"/:_a1", b"/files/:name/raw"]
BAD_PATTERNS = [b"/a/*/b", b"/a*", b"/*x", b"/:", b"/:1x", b"/x/:na-me", b"/**", b"/:a b"]
METHODS_REG = ["GET", "POST", "PUT", "PATCH", "DELETE"]


def instantiate(rng, pat):
    toks = pat.split(b"/")
    out = []
    for t in toks:
        if t == b"*":
            out.append(rng.choice([b"", b"css/app.css", b"x", b"a/b/c", b"/lead"]))
        elif t.startswith(b":"):
            out.append(rng.choice([b"42", b"x", b"", b"a%20b", b"id", b"\xc3\xa9"]))
        else:
            out.append(t)
    return b"/".join(out)


CONN_VALUES = [b"close", b"Close", b"CLOSE", b"keep-alive", b"Keep-Alive", b"TE, close", b"close, TE", b"keep-alive, close", b" close", b"close\t", b"closed",
               b"x-close", b"", b",close,", b"close,", b", ,close", b"upgrade", b"TE,close", b"TE ,\tclose ", b"clos", b"close close", b"keep-alive,\tCLOSE"]


def build_request(rng, method, target, version=b"HTTP/1.1", host=True, conn=None, body=b"", extra=None, eol=b"\r\n", upgrade=None, cl=True):
    lines = [method + b" " + target + b" " + version]
    hs = list(extra or [])
    if host:
        hs.insert(rng.below(len(hs) + 1), (b"Host", b"example.test"))
    if conn is not None:
        hs.insert(rng.below(len(hs) + 1), (b"Connection", conn))
    if upgrade is not None:
        hs.insert(rng.below(len(hs) + 1), (upgrade[0], upgrade[1]))
    if body and cl:
        hs.append((b"Content-Length", b"%d" % len(body)))
    for k, v in hs:
        lines.append(k + b": " + v)
    return eol.join(lines) + eol + b"\r\n" + body if eol == b"\r\n" else eol.join(lines) + b"\r\n\r\n" + body


def gen_structured_request(rng, routes):
    """A mostly-valid request + what the generator knows about it."""
    info = {}
    mk = rng.below(40)
    if mk < 16:
        method = b"GET"
    elif mk < 20:
        method = b"HEAD"
    elif mk < 30:
        method = rng.choice([b"POST", b"PUT", b"PATCH", b"DELETE"])
    elif mk < 33:
        method = b"OPTIONS"
    elif mk < 35:
        method = rng.choice([b"CONNECT", b"TRACE"])
    else:
        method = rng.choice([b"BREW", b"get", b"G@T", b"GE\x01T", b"M-SEARCH", b"PROPFIND", b"G(T"])
    if routes and rng.chance(3, 4):
        target = instantiate(rng, rng.choice(routes)[1])
    else:
        target = rng.choice([b"/", b"/nope", b"*", b"/a", b"/users/7/x", b"/static", b"/static/", b"", b"/a?x=1", b"/%41"])
    if rng.chance(1, 5):
        target += b"?" + rng.choice([b"a=1&b=2", b"x", b"a=1&a=2", b"=v", b"k=", b"&&", b"id=9&q=a%20b", b""])
    if target == b"":
        target = b"/"
    version = b"HTTP/1.1"
    vk = rng.below(30)
    if vk == 0:
        version = b"HTTP/1.0"
    elif vk == 1:
        version = rng.choice([b"HTTP/2.0", b"HTTP/0.9", b"HTTP/3.0"])
    elif vk == 2:
        version = rng.choice([b"HTTP/1.1x", b"http/1.1", b"HTTP/11.0", b"HTTP/1", b"HTTP/1.", b"HTTP/ 1.1", b"HTTP/1.10"])
    host = not rng.chance(1, 25)
    conn = rng.choice(CONN_VALUES) if rng.chance(2, 5) else None
    body = rng.bytes(rng.range(1, 40)) if (method in (b"POST", b"PUT", b"PATCH") and rng.chance(2, 3)) else b""
    extra = []
    for _ in range(rng.choice([0, 0, 1, 2, 3])):
        extra.append((rng.choice([b"Accept", b"X-Req", b"Via", b"via", b"X-Forwarded-For", b"User-Agent", b"Cookie", b"X-\xe2\x82\xac"]),
                      rng.choice([b"*/*", b"1", b"", b"a, b", b"1.1 proxy", b"v\tw"])))
    if rng.chance(1, 30):
        extra.append((b"Host", rng.choice([b"second.test", b""])))
    if rng.chance(1, 40):
        extra.append((b"Connection", rng.choice(CONN_VALUES)))      # repeated field-line: last one wins in this parser
    upgrade = (rng.choice([b"Upgrade", b"upgrade", b"UPGRADE"]), rng.choice([b"websocket", b"h2c"])) if rng.chance(1, 12) else None
    eol = b"\n" if rng.chance(1, 40) else b"\r\n"
    data = build_request(rng, method, target, version, host, conn, body, extra, eol, upgrade)
    # what the generator can vouch for: the request is well-formed in the fragment below, so the independent expectations apply
    wellformed = (method in (b"GET", b"HEAD", b"POST", b"PUT", b"PATCH", b"DELETE", b"OPTIONS", b"CONNECT", b"TRACE") and version in (b"HTTP/1.1", b"HTTP/1.0")
                  and (host or version == b"HTTP/1.0") and not any(k == b"Host" for k, v in extra) and eol == b"\r\n" and b" " not in target and len(target) <= 8192)
    conns = [v for k, v in ([(b"Connection", conn)] if conn is not None else []) + extra if k.lower() == b"connection"]
    info.update({"method": method.decode("latin1"), "wellformed": wellformed, "upgrade": upgrade is not None,
                 "conn_values": conns, "version": version.decode("latin1")})
    # the header order is shuffled by build_request: recompute the effective (last) Connection value from the bytes themselves
    last = None
    for l in data.split(b"\r\n\r\n", 1)[0].split(b"\r\n")[1:]:
        if b":" in l and l.split(b":", 1)[0].strip(b" \t").lower() == b"connection":
            last = l.split(b":", 1)[1].strip(b" \t")
    info["conn_last"] = last
    if not wellformed:
        known = (b"GET", b"HEAD", b"POST", b"PUT", b"PATCH", b"DELETE", b"OPTIONS", b"CONNECT", b"TRACE")
        defects = []
        if eol != b"\r\n":
            defects.append(None)
        if version not in (b"HTTP/1.1", b"HTTP/1.0"):
            defects.append(505 if version in (b"HTTP/2.0", b"HTTP/0.9", b"HTTP/3.0") else 400)
        if method not in known:
            defects.append(501 if method in (b"BREW", b"get", b"M-SEARCH", b"PROPFIND") else 400)
        if any(k == b"Host" for k, v in extra):
            defects.append(None)
        elif version != b"HTTP/1.0" and not host:
            defects.append(400)
        # one defect: the status is known; several: the first check in source order wins, left to the lockstep
        info["expect_error"] = defects[0] if len(defects) == 1 else None
    return data, info


def gen_malformed_request(rng):
    k = rng.below(14)
    exp = 400
    if k == 0:
        data = b"GET /" + b"a" * rng.choice([8191, 8192, 8193, 9000]) + b" HTTP/1.1\r\nHost: x\r\n\r\n"
        exp = 414 if len(data) - len(b"GET  HTTP/1.1\r\nHost: x\r\n\r\n") > 8192 else None
    elif k == 1:
        data = b"GET  / HTTP/1.1\r\nHost: x\r\n\r\n"
    elif k == 2:
        data = b"GET / HTTP/1.1 \r\nHost: x\r\n\r\n"
    elif k == 3:
        data = b"GET /a\x7fb HTTP/1.1\r\nHost: x\r\n\r\n"
    elif k == 4:
        data = b"GET / HTTP/1.1\r\nHost: x\r\n folded: 1\r\n\r\n"
    elif k == 5:
        data = b"GET / HTTP/1.1\r\nHost: a\r\nhost: b\r\n\r\n"
    elif k == 6:
        data = b"GET / HTTP/1.1\r\nHost:   \r\n\r\n"
    elif k == 7:
        data = b"\r\n\r\n"
    elif k == 8:
        data = b"GET / HTTP/1.1\r\nHost: x\r\n"          # no terminator: std::invalid_argument -> 500
        exp = 500
    elif k == 9:
        data = b" GET / HTTP/1.1\r\nHost: x\r\n\r\n"
    elif k == 10:
        data = b"GET /\r\nHost: x\r\n\r\n"
    elif k == 11:
        data = b"GET\t/ HTTP/1.1\r\nHost: x\r\n\r\n"
    elif k == 12:
        data = rng.bytes(rng.range(0, 60)) + rng.choice([b"", b"\r\n\r\n"])
        exp = None
    else:
        data = b"GET / HTTP/1.1\r\n\tHost: x\r\n\r\n"
    return data, {"method": "?", "wellformed": False, "expect_error": exp, "upgrade": False, "conn_last": None, "malformed_kind": k}


def mutate(rng, data):
    w = bytearray(data)
    he = data.find(b"\r\n\r\n")
    lim = he + 4 if he >= 0 else len(w)
    for _ in range(rng.range(1, 3)):
        k = rng.below(5)
        lim = min(lim, len(w))
        if k == 0 and lim:
            w[rng.below(lim)] ^= 1 << rng.below(8)
        elif k == 1 and lim:
            del w[rng.below(lim)]
        elif k == 2:
            w[rng.below(lim + 1):0] = rng.choice([b" ", b"\r", b"\n", b":", b"\t", b"\x00", b",", b"?"])
        elif k == 3 and lim:
            w[rng.below(lim)] = rng.choice([32, 13, 10, 58, 9, 0, 127, 255, 44])
        elif lim > 4:
            del w[rng.below(lim):lim]
    return bytes(w)


ENVS = [("010111", 30), ("110111", 2), ("110101", 1), ("110001", 1), ("100111", 1), ("011111", 2), ("010011", 2), ("010101", 2), ("010110", 1), ("110011", 1), ("111111", 1), ("011011", 1)]


def pick_env(rng):
    tot = sum(w for _, w in ENVS)
    x = rng.below(tot)
    for e, w in ENVS:
        if x < w:
            return e
        x -= w
    return ENVS[0][0]


def gen_lockstep_cases(ctx, rng, n_cases):
    cases = []
    for ci in range(n_cases):
        ops = ["reset"]
        routes = []
        scripts = []
        for _ in range(rng.choice([0, 1, 2, 3, 4, 6])):
            bad = rng.chance(1, 12)
            pat = rng.choice(BAD_PATTERNS if bad else GOOD_PATTERNS)
            m = rng.choice(METHODS_REG if not rng.chance(1, 2) else ["GET"])
            sc = rand_script(rng)
            ops.append("route %s %s %s" % (m, hexs(pat), sc))
            if not bad:
                routes.append((m, pat, sc))
            scripts.append(sc)
        if rng.chance(1, 4):
            sc = rand_script(rng)
            ops.append("default %s" % sc)
            scripts.append(sc)
        hook_up = None
        if rng.chance(1, 6):
            hook_up = rand_script(rng, allow_throw=True, allow_sup=False)          # a seam may throw, a std::exception or anything else
            ops.append("hook upgrade %s" % hook_up)
            scripts.append(hook_up)
        hook_mode = rng.choice(["1", "1", "thr", "thx"]) if rng.chance(1, 10) else None
        hook_sup = hook_mode == "1"
        if hook_mode:
            ops.append("hook suppress %s" % hook_mode)
        nreq_at = len(ops)
        reqs = []
        for _ in range(rng.range(2, 7)):
            k = rng.below(10)
            if k < 7:
                data, info = gen_structured_request(rng, routes)
            elif k < 8:
                data, info = gen_malformed_request(rng)
            else:
                data, info = gen_structured_request(rng, routes)
                data = mutate(rng, data)
                info = {"method": "?", "wellformed": False, "mutated": True, "upgrade": False, "conn_last": None}
            if rng.chance(1, 25):
                # whitespace between a field name and its colon (RFC 9112 5.1): rejected with 400 once FC15d is in the tree, trimmed and accepted before —
                # the model follows the translator fact, the monitors make no assumption about which
                nm, val = rng.choice([(b"X-Pad ", b"1"), (b"Host\t", b"example.test"), (b"Content-Length ", b"0"), (b"Connection ", b"close"), (b"X-A : b", b"c")])
                data = build_request(rng, rng.choice([b"GET", b"HEAD", b"POST"]), rng.choice([b"/", b"/a", b"/nope"]), extra=[(nm, val)], host=nm[:4] != b"Host")
                info = {"method": "?", "wellformed": False, "mutated": True, "upgrade": False, "conn_last": None}
            env = pick_env(rng)
            sess = rng.choice(["d"] * 12 + ["-", "v10", "nka"])
            ops.append("req %s %s %s" % (hexs(data), env, sess))
            info.update({"env": env, "sess": sess})
            reqs.append(info)
        cases.append({"cat": "lockstep", "ops": ops, "first_req": nreq_at, "reqs": reqs, "api_only": all(script_is_api(s) for s in scripts),
                      "may_suppress": hook_sup or any("sup" in s.split(",") for s in scripts), "hook_upgrade": hook_up is not None,
                      "scripts": scripts})
    return cases


def gen_oracle_cases(ctx, rng, n_cases):
    """Exact routes with known scripts and well-formed requests: the generator knows the complete expected response."""
    cases = []
    for ci in range(n_cases):
        ops = ["reset"]
        table = {}
        for i in range(rng.range(1, 4)):
            path = b"/t%d" % i
            kind = rng.below(6)
            if kind == 0:
                body, ct = rng.bytes(rng.range(0, 50)), b"application/octet-stream"
                sc, exp = sc_content(body, ct), (200, body, ct)
            elif kind == 1:
                st = rng.choice([201, 202, 400, 403, 418, 500])
                body = b"status %d" % st
                sc, exp = "st:%d,%s" % (st, sc_content(body)), (st, body, b"text/plain")
            elif kind == 2:
                sc, exp = rng.choice(["thr", "thx", sc_content(b"partial") + ",thr", "sup,thr", "st:201,thx"]), (500, b"Internal Server Error", b"text/plain")
            elif kind == 3:
                sc, exp = "-", (200, b"Not Found", b"text/plain")       # handler does nothing: the pre-filled body stays, status 200
            elif kind == 4:
                body = b"Z" * rng.choice([0, 1, 1023, 1024, 65536])
                sc, exp = "big:%d:90" % len(body), (200, body, b"application/octet-stream")
            else:
                sc, exp = sc_content(b"first") + "," + sc_content(b"second!", b"text/x"), (200, b"second!", b"text/x")
            m = rng.choice(["GET", "GET", "POST", "PUT", "DELETE", "PATCH"])
            ops.append("route %s %s %s" % (m, hexs(path), sc))
            table[path] = (m, exp)
        reqs = []
        first = len(ops)
        for _ in range(rng.range(2, 6)):
            path = rng.choice(sorted(table))
            m, exp = table[path]
            how = rng.below(8)
            conn = rng.choice(CONN_VALUES) if rng.chance(1, 2) else None
            meth = m
            if how == 0 and m == "GET":
                meth = "HEAD"
            elif how == 1:
                meth = rng.choice([x for x in METHODS_REG if x != m])
            elif how == 2:
                path = b"/nope"
            body = rng.bytes(rng.range(1, 20)) if meth in ("POST", "PUT", "PATCH") else b""
            data = build_request(rng, meth.encode(), path, b"HTTP/1.1", True, conn, body)
            if path == b"/nope":
                want = (404, b"Not Found", b"text/plain")
            elif meth == m:
                want = exp
            elif meth == "HEAD":
                want = (exp[0], b"", exp[2], len(exp[1]))
            elif meth == "GET" and False:
                want = None
            else:
                want = (405, b"Method Not Allowed", b"text/plain")
            if meth == "HEAD" and m != "GET":
                want = (405, b"", b"text/plain", 18)
            close = conn is not None and tok_close(conn)
            ops.append("req %s 010111 d" % hexs(data))
            reqs.append({"method": meth, "wellformed": True, "want": want, "want_close": close, "env": "010111", "sess": "d", "upgrade": False,
                         "conn_last": conn})
        cases.append({"cat": "oracle", "ops": ops, "first_req": first, "reqs": reqs, "api_only": True, "may_suppress": False, "hook_upgrade": False, "scripts": []})
    return cases


def gen_seam_cases(ctx, rng, n):
    """A subclass seam throws (std::exception or not): exactly one 500 with Connection: close and a close."""
    cases = []
    want = (500, b"Internal Server Error", b"text/plain")
    for _ in range(n):
        ops = ["reset", "route GET %s %s" % (hexs(b"/a"), sc_content(b"alpha")), "route POST %s echo" % hexs(b"/p")]
        reqs = []
        which = rng.below(3)
        thrower = rng.choice(["thr", "thx", sc_content(b"x") + ",thx", "st:101,thr"])
        if which == 0:
            ops.append("hook upgrade %s" % thrower)
        else:
            ops.append("hook suppress %s" % rng.choice(["thr", "thx"]))
        first = len(ops)
        for _ in range(rng.range(1, 4)):
            if which == 0:
                meth, path = rng.choice([(b"GET", b"/a"), (b"GET", b"/nope"), (b"POST", b"/p"), (b"HEAD", b"/a"), (b"OPTIONS", b"/a")])
                d = build_request(rng, meth, path, upgrade=(rng.choice([b"Upgrade", b"upgrade"]), b"websocket"), conn=rng.choice([None, b"Upgrade", b"keep-alive"]),
                                  body=b"xyz" if meth == b"POST" else b"")
                w = want if meth != b"HEAD" else (500, b"", b"text/plain", 21)      # FC16f: the arm's header section, no body
            else:
                meth, path = rng.choice([(b"GET", b"/a"), (b"POST", b"/p"), (b"GET", b"/nope"), (b"HEAD", b"/a")])
                d = build_request(rng, meth, path, body=b"xyz" if meth == b"POST" else b"")
                # onResponseSuppressed is consulted only after a handler ran (MATCHED / default handler): /a by GET, /p by POST
                ran = (meth, path) in ((b"GET", b"/a"), (b"POST", b"/p"))
                w = (want if meth != b"HEAD" else (500, b"", b"text/plain", 21)) if ran else None
            ops.append("req %s 010111 d" % hexs(d))
            reqs.append({"method": meth.decode(), "wellformed": True, "want": w, "want_close": True if w else None, "env": "010111", "sess": "d",
                         "upgrade": which == 0, "conn_last": None, "seam_throw": w is not None})
        cases.append({"cat": "seam-throw", "ops": ops, "first_req": first, "reqs": reqs, "api_only": True, "may_suppress": False,
                      "hook_upgrade": False, "scripts": []})
    return cases


def ws_frame(rng):
    """a masked client text frame: what a WebSocket client may send right behind its upgrade request"""
    payload = rng.bytes(rng.range(0, 20))
    mask = rng.bytes(4)
    return bytes([0x81, 0x80 | len(payload)]) + mask + bytes(b ^ mask[i % 4] for i, b in enumerate(payload))


def ws_junk(rng):
    """bytes of an upgraded protocol that would confuse an HTTP scanner: a mask-key-0 text frame whose payload contains CR LF CR LF"""
    payload = rng.choice([b"a\r\n\r\nb", b"GET / HTTP/1.1\r\n\r\n", b"\r\n\r\n"])
    return bytes([0x81, 0x80 | len(payload), 0, 0, 0, 0]) + payload


def expected_hook_calls(chunks, marked, sess, mode):
    """what the generator scripted: passes of the drain loop that find bytes, and how many of them run before the loop is left"""
    n = len(chunks) if (chunks and marked and sess != "-") else 0
    if mode == "0":
        return n, n, False
    at = int(mode.split("@")[1]) if "@" in mode else 0
    if at < n:
        return n, at + 1, True
    return n, n, False


def gen_drain_cases(ctx, rng, n):
    """Accepted upgrade + bytes of the upgraded protocol behind the request — in the same read and in reads that arrive while the worker
    drains (queued behind under the upgrade hold): the worker feeds them, pass by pass, to the third virtual hook (onUpgradedData) AFTER the
    upgrade response went out.  One request => the 101 and nothing else, whatever the hook does at whichever pass; a throw => one Close and
    the loop is left.  Half of the cases go through the real handleIncomingData (op dispatchr: the hold is set by the real code)."""
    cases = []
    for ci in range(n):
        mode = rng.choice(["0", "thr", "thx", "thr@1", "thx@1", "thx@2", "thr@0", "thx@5"])
        mark = not rng.chance(1, 6)
        up_sc = rng.choice(["st:101," + sc_header(b"Upgrade", b"websocket"), "st:101", "st:101," + sc_header(b"Upgrade", b"websocket") + "," + sc_header(b"Connection", b"Upgrade"),
                            "st:200," + sc_content(b"switched")])
        if mark:
            up_sc = up_sc + ",mark" if rng.chance(1, 2) else "mark," + up_sc
        ops = ["reset", "route GET %s %s" % (hexs(b"/a"), sc_content(b"alpha")), "hook upgrade %s" % up_sc, "hook drain %s" % mode]
        first = len(ops)
        reqs = []
        real_path = ci % 2 == 1
        for _ in range(rng.range(1, 4)):
            meth, path = rng.choice([(b"GET", b"/ws"), (b"GET", b"/a"), (b"HEAD", b"/a"), (b"POST", b"/ws")])
            d = build_request(rng, meth, path, upgrade=(rng.choice([b"Upgrade", b"upgrade", b"UPGRADE"]), b"websocket"), conn=rng.choice([None, b"Upgrade", b"keep-alive, Upgrade"]),
                              body=b"xy" if meth == b"POST" else b"")
            chunks = [] if rng.chance(1, 6) else [rng.choice([ws_frame, ws_frame, ws_junk])(rng) for _ in range(rng.choice([1, 1, 2, 3, 4]))]
            tok = ",".join(hexs(c) for c in chunks) if chunks else "-"
            if real_path:
                env, sess = "010111", "d"
                ops.append("dispatchr %s %s" % (hexs(d), tok))
            else:
                env = pick_env(rng) if rng.chance(1, 3) else "010111"
                sess = rng.choice(["d"] * 8 + ["-", "v10"])
                ops.append("req %s %s %s %s" % (hexs(d), env, sess, tok))
            nfound, ncalls, throws = expected_hook_calls(chunks, mark, sess, mode)
            reqs.append({"method": meth.decode(), "wellformed": True, "env": env, "sess": sess, "upgrade": True, "conn_last": None,
                         "drain": mode, "chunks": len(chunks), "marked": mark, "passes": nfound, "hook_calls": ncalls, "drain_throws": throws})
        cases.append({"cat": "upgrade-drain", "ops": ops, "first_req": first, "reqs": reqs, "api_only": False, "may_suppress": False,
                      "hook_upgrade": True, "scripts": []})
    return cases


OVERFLOW_ENVS = ["101", "001", "001", "111", "100", "011", "000"]      # bits: enqueueOk, _shutdown, transport present (101 = running server)


def gen_dispatch_cases(ctx, rng, n):
    """The same decision through the real I/O-thread path: handleIncomingData -> tryEnqueue -> pool worker."""
    cases = []
    for _ in range(n):
        ops = ["reset", "route GET %s %s" % (hexs(b"/a"), sc_content(b"alpha")), "route POST %s echo" % hexs(b"/e/:id")]
        for _ in range(rng.range(1, 4)):
            k = rng.below(4)
            if k == 0:
                d = build_request(rng, b"GET", b"/a", conn=rng.choice([None, b"close", b"TE, close"]))
            elif k == 1:
                b = rng.bytes(rng.range(1, 30))
                d = build_request(rng, b"POST", b"/e/%d?q=1" % rng.below(100), body=b)
            elif k == 2:
                d = build_request(rng, rng.choice([b"BREW", b"DELETE", b"HEAD"]), b"/a")
            else:
                d = build_request(rng, b"GET", b"/nope", host=rng.chance(1, 2))
            ops.append("dispatch %s" % hexs(d))
        cases.append({"cat": "dispatch", "ops": ops, "first_req": 3, "reqs": None})
    cases.append({"cat": "overflow", "ops": ["reset", "overflow %s" % hexs(b"GET / HTTP/1.1\r\nHost: x\r\n\r\n")], "first_req": 1, "reqs": None})
    # sendErrorResponse in every environment (guard false / engine refuses the Send), also for a HEAD request
    for bits in OVERFLOW_ENVS:
        meth = rng.choice([b"GET", b"HEAD", b"POST"])
        d = build_request(rng, meth, b"/x", body=b"abc" if meth == b"POST" else b"")
        cases.append({"cat": "overflow-env", "ops": ["reset", "overflow %s %s" % (hexs(d), bits)], "first_req": 1, "reqs": None, "overflow_bits": bits})
    return cases


def gen_pool_cases(ctx, rng, n):
    """Deterministic pool schedules through the REAL handleIncomingData -> ThreadPool -> processHttpRequest: handlers park at gates
    and the op script decides the order in which they finish (lockstep with Model/HttpRespondConn.lean `stepPool`)."""
    cases = []
    for _ in range(n):
        ops = ["reset", "route GET %s gate,echo" % hexs(b"/g"), "route POST %s gate,echo" % hexs(b"/p"), "route GET %s %s" % (hexs(b"/c"), "gate," + sc_content(b"c"))]
        first = len(ops)
        k = 0
        parked = []
        arrivals = []          # (sid, k, gated)
        in_order_release = rng.chance(1, 4)
        closed = set()
        for _ in range(rng.range(3, 22)):
            if parked and (rng.chance(2, 5) or len(parked) >= 12):
                g = parked.pop(0 if in_order_release else rng.below(len(parked)))
                ops.append("prel %d" % g)
                continue
            k += 1
            sid = rng.choice([1, 1, 1, 2, 3])
            kind = rng.below(10)
            hdr = [(b"X-Gate", b"%d" % k)]
            if kind < 6:
                d = build_request(rng, b"GET", b"/g?id=%04d&pad=%s" % (k, b"x" * k), extra=hdr, conn=rng.choice([None, None, None, b"close"]))
                gated = True
            elif kind < 7:
                d = build_request(rng, b"POST", b"/p?id=%04d&pad=%s" % (k, b"x" * k), extra=hdr, body=rng.bytes(rng.range(1, 10)))
                gated = True
            elif kind < 8:
                d = build_request(rng, b"HEAD", b"/g?id=%04d" % k, extra=hdr)
                gated = True
            elif kind < 9:
                d = build_request(rng, b"GET", b"/missing", extra=hdr)
                gated = False
            else:
                d = build_request(rng, rng.choice([b"BREW", b"GET"]), b"/g", host=False, extra=hdr)
                gated = False
            if gated and rng.chance(1, 10):
                ops.append("prel %d" % k)          # opened before the request even arrives
                gated_now = False
            else:
                gated_now = gated
            if gated_now and rng.chance(1, 4):
                # two complete requests in ONE read (the extraction loop runs twice): the first parks at its gate, the second is anything
                k += 1
                kind2 = rng.below(4)
                hdr2 = [(b"X-Gate", b"%d" % k)]
                if kind2 < 2:
                    d2 = build_request(rng, b"GET", b"/g?id=%04d&pad=%s" % (k, b"x" * k), extra=hdr2)
                    g2, echo2 = True, True
                elif kind2 == 2:
                    d2 = build_request(rng, b"GET", b"/missing", extra=hdr2)
                    g2, echo2 = False, False
                else:
                    d2 = build_request(rng, b"BREW", b"/g", extra=hdr2)
                    g2, echo2 = False, False
                ops.append("parr2 %d %s %s" % (sid, hexs(d), hexs(d2)))
                arrivals.append((sid, k - 1, kind < 7))
                arrivals.append((sid, k, echo2))
                parked.append(k - 1)
                if g2:
                    parked.append(k)
                continue
            ops.append("parr %d %s" % (sid, hexs(d)))
            arrivals.append((sid, k, kind < 7))
            if gated_now:
                parked.append(k)
        ops.append("pdrain")
        cases.append({"cat": "pool", "ops": ops, "first_req": first, "reqs": None, "arrivals": arrivals})
    # ONE handleIncomingData call that carries more than 64 KiB: a large gated POST with followers, and 40 POSTs of 2 KiB
    for i in range(max(2, n // 15)):
        ops = ["reset", "route GET %s gate,echo" % hexs(b"/g"), "route POST %s gate,echo" % hexs(b"/p")]
        first = len(ops)
        arrivals = []
        if i % 3 != 2:
            blen = rng.choice([65400, 65536, 66000, 70000, 131072]) if i > 1 else 70000
            chunked = rng.choice([None, 8192, 4096]) if i % 2 else None
            wire, ext = post_request(b"/p?id=0001&pad=x", patterned(blen, i), chunked, extra=[(b"X-Gate", b"1")])
            wires, exts = [wire], [ext]
            arrivals.append((1, 1, True))
            for k in range(2, 2 + rng.range(1, 3)):
                if rng.chance(2, 3):
                    g = get_request(b"/g?id=%04d&pad=%s" % (k, b"x" * k), extra=[(b"X-Gate", b"%d" % k)])
                    arrivals.append((1, k, True))
                else:
                    g = get_request(b"/missing", extra=[(b"X-Gate", b"%d" % k)])
                    arrivals.append((1, k, False))
                wires.append(g)
                exts.append(g)
            nk = len(wires)
        else:
            wires, exts = [], []
            for k in range(1, 41):
                wire, ext = post_request(b"/p?id=%04d" % k, patterned(2048, k), None, extra=[(b"X-Gate", b"%d" % k)])
                wires.append(wire)
                exts.append(ext)
                arrivals.append((1, k, False))
            nk = 40
        ops.append("parrn 1 %s %d %s" % (hexs(b"".join(wires)), nk, " ".join(hexs(e) for e in exts)))
        order = list(range(1, nk + 1))
        if rng.chance(1, 2):
            order.reverse()
        for k in order[:rng.range(1, len(order))]:
            ops.append("prel %d" % k)
        ops.append("pdrain")
        cases.append({"cat": "pool", "ops": ops, "first_req": first, "reqs": None, "arrivals": arrivals, "large": True})
    return cases


def monitor_pool(c, impl):
    """implementation only: one Send per arrived request and session; echo responses (status 200, length grows with the request
    number) in arrival order per session unless the F28 hypothesis fails"""
    bad = []
    hyp = []
    sends = {}
    for op, l in zip(c["ops"][c["first_req"]:], impl[c["first_req"]:]):
        if l.startswith("pool-not") or l.startswith("throw") or l.startswith("crash:") or " | " not in l:
            bad.append("O1: the pool did not settle / the harness died: %s -> %s" % (op[:60], l[:60]))
            return bad, hyp
        ev = l.split(" | ")[0]
        if ev == "-":
            continue
        for e in ev.split(";"):
            p = e.split(":")
            if len(p) >= 5 and p[1] == "S":
                sends.setdefault(int(p[0]), []).append((p[2], int(p[3])))
    want = {}
    for sid, k, echo in c["arrivals"]:
        want[sid] = want.get(sid, 0) + 1
    for sid, n in want.items():
        got = len(sends.get(sid, []))
        if got != n:
            bad.append("O1: session %d: %d requests arrived, %d Send commands were issued" % (sid, n, got))
    for sid, lst in sends.items():
        lens = [ln for st, ln in lst if st == "200"]
        if lens != sorted(lens) and not c.get("large"):      # (in the large-delivery cases the response length does not grow with the request number)
            hyp.append("F28")
    return bad, hyp


# ================================================================== monitors for lockstep-style cases (implementation output only)
def parse_outcome(l):
    t = l.split()
    if not t:
        return {"kind": "?"}
    if t[0] == "respond" and len(t) >= 5:
        try:
            head = unhex(t[2])
        except ValueError:
            return {"kind": "?"}
        return {"kind": "respond", "close": t[1] == "1", "head": head, "bodylen": int(t[3]) if t[3].isdigit() else -1, "fnv": t[4], "noterm": t[3] == "noterm"}
    if t[0] == "sendfailed":
        return {"kind": "sendfailed", "close": t[1] == "1"}
    return {"kind": t[0]}


def monitor_case(c, impl):
    bad = []
    if c["cat"] == "overflow-env":
        bits = c["overflow_bits"]
        enq, shut, trp = bits[0] == "1", bits[1] == "1", bits[2] == "1"
        l = impl[c["first_req"]]
        o = parse_outcome(l)
        if l.startswith("throw") or l.startswith("crash:") or o["kind"] in ("unexpected-commands", "unexpected-session", "late-commands", "pool-not-idle", "?"):
            bad.append("O1: sendErrorResponse on pool overflow threw / crashed / issued an impossible command sequence (env %s): %s" % (bits, l[:80]))
        elif not shut and trp:
            if enq and (o["kind"] != "respond" or not o["close"]):
                bad.append("O1: pool overflow on a running server must give one 503 followed by a close, got %s" % l[:80])
            try:
                ov_head = unhex(c["ops"][c["first_req"]].split()[1]).startswith(b"HEAD ")
            except (ValueError, IndexError):
                ov_head = False
            if enq and o["kind"] == "respond" and ov_head and o["bodylen"] != 0:
                bad.append("O4: the overflow 503 answering a HEAD request carries %d body bytes" % o["bodylen"])
            if not enq and not (o["kind"] == "sendfailed" and o["close"]):
                bad.append("O1: pool overflow while the engine refuses the Send: the connection must still be closed (the request is otherwise neither answered "
                           "nor is its connection ended), got `%s`" % l[:80])
        return bad
    if c["cat"] in ("dispatch", "overflow"):
        for op, l in zip(c["ops"][c["first_req"]:], impl[c["first_req"]:]):
            if not op.startswith(("dispatch", "overflow")):
                continue
            o = parse_outcome(l)
            if o["kind"] == "unexpected-commands" and l.split()[1].count("S") + l.split()[1].count("F") >= 2:
                bad.append("O1: one request dispatched through handleIncomingData/the pool produced %d sendAsync calls (engine events %s) — a second response for the same request: %s"
                           % (l.split()[1].count("S") + l.split()[1].count("F"), l.split()[1], op[:100]))
            elif o["kind"] != "respond":
                bad.append("O1: a request dispatched through handleIncomingData/the pool got `%s` instead of exactly one response: %s" % (l[:60], op[:80]))
            elif c["cat"] == "overflow":
                st, _, fields, malformed = parse_head(o["head"])
                if st != 503 or not o["close"] or field(fields, b"Connection") != b"close":
                    bad.append("O1: pool overflow must give one 503 with Connection: close followed by a close, got %s" % l[:80])
        return bad
    if c.get("reqs") is None:
        return bad
    for op, l, r in zip(c["ops"][c["first_req"]:], impl[c["first_req"]:], c["reqs"]):
        o = parse_outcome(l)
        env = r["env"]
        up = env == "010111"
        if o["kind"] == "unexpected-commands" and l.split()[1].count("S") + l.split()[1].count("F") >= 2:
            bad.append("O1: one request produced %d sendAsync calls (engine events %s: S = Send accepted, F = refused, X = Close) — a second response for the same request: %s"
                       % (l.split()[1].count("S") + l.split()[1].count("F"), l.split()[1], op[:100]))
            continue
        if l.startswith("throw") or l.startswith("crash:") or o["kind"] in ("unexpected-commands", "unexpected-session", "?"):
            bad.append("O1: processHttpRequest threw / crashed / issued an impossible command sequence: %s -> %s" % (op[:80], l[:80]))
            continue
        if up and o["kind"] == "closeonly":
            bad.append("O1: a complete request got a close and no response although the server is up: %s" % op[:100])
            continue
        if c["cat"] == "upgrade-drain" and up:
            # the generator knows what it scripted: accepted upgrade => the hook's response; a Close exactly when some pass of the drain loop met a
            # throwing hook; the hook is called once per pass up to and including that one
            want_close = r["drain_throws"]
            m = re.search(r" hooks=(\d+)$", l)
            calls = int(m.group(1)) if m else None
            what = "accepted upgrade, %d chunk(s) behind the request (%d pass(es) of the drain loop find bytes; session %s), onUpgradedData scripted `%s`" % (
                r["chunks"], r["passes"], "marked upgraded" if r["marked"] else "NOT marked upgraded", r["drain"])
            if o["kind"] == "upgrade-hold-not-released":
                bad.append("O1: %s: processHttpRequest returned with the upgrade hold (_upgradePending) still set — later reads of the connection are never parsed: %s" % (what, op[:80]))
                continue
            if o["kind"] != "respond" or o["close"] != want_close:
                bad.append("O1: %s: want the upgrade response %s, got `%s`: %s" % (what, "followed by one close" if want_close else "and no close", l[:60], op[:80]))
                continue
            if calls is not None and calls != r["hook_calls"]:
                bad.append("O1: %s: want %d call(s) of onUpgradedData (one per pass, none after a throw), got %d: %s" % (what, r["hook_calls"], calls, op[:80]))
                continue
        if up:
            if o["kind"] == "sendfailed":
                bad.append("O1: a complete request got no response although the server is up: %s -> %s" % (op[:100], l[:40]))
                continue
            if o["kind"] == "silent" and not c["may_suppress"]:
                bad.append("O1: response suppressed although no handler asked for it: %s" % op[:100])
                continue
        if o["kind"] != "respond":
            continue
        if o["noterm"]:
            bad.append("O4: response without header terminator: %s" % l[:80])
            continue
        st, reason, fields, malformed = parse_head(o["head"])
        if st is None:
            bad.append("O4: malformed status line: %r" % o["head"][:60])
            continue
        is_error_arm = field(fields, b"Server") is None
        try:
            head_raw = unhex(op.split()[1]).startswith(b"HEAD ")
        except (ValueError, IndexError):
            head_raw = False
        cl = field(fields, b"Content-Length")
        conn = field(fields, b"Connection")
        # the upgrade arm sends whatever the subclass put into its response (+ Server); it is outside the statement's clauses
        upgraded = c.get("hook_upgrade") and (r.get("upgrade") or not r.get("wellformed")) and not is_error_arm
        # Connection header and the close command agree (server up)
        if up and not upgraded:
            if (conn == b"close") != o["close"]:
                bad.append("O4: Connection header `%s` but close=%s: %s" % (conn, o["close"], op[:80]))
            if conn not in (b"close", b"keep-alive"):
                bad.append("O4: Connection header is neither close nor keep-alive: %r" % conn)
        if is_error_arm and up:
            if not o["close"] or conn != b"close" or cl is None or (int(cl) != o["bodylen"] and not head_raw) or (head_raw and int(cl) == 0):
                bad.append("O4: error-arm response must carry Connection: close, a matching Content-Length and be followed by close: %s" % l[:120])
        # a response to HEAD carries no body — on every arm (normal path, error arm, shutdown arm), in every environment; the only response the
        # server does not build itself is an upgrade the subclass hook accepted
        if head_raw and o["bodylen"] != 0 and not (c.get("hook_upgrade") and not is_error_arm):
            bad.append("O4: response to HEAD carries %d body bytes (status %s, %s): %s" % (o["bodylen"], st, "error / shutdown arm" if is_error_arm else "normal path", op[:100]))
        if r.get("expect_error") is not None and up:
            if st != r["expect_error"] or not o["close"]:
                bad.append("O4: unparseable request must yield status %d + close, got %s close=%s: %s" % (r["expect_error"], st, o["close"], op[:100]))
        if not is_error_arm and not upgraded and st in (204, 304) and (o["bodylen"] != 0 or cl is not None):
            bad.append("O5: a %d response carries %d body bytes / Content-Length %s: a client frames it as ending after the header section: %s"
                       % (st, o["bodylen"], cl, op[:100]))
        if r.get("wellformed") and not is_error_arm and not upgraded:
            if r["method"] == "HEAD" and o["bodylen"] != 0:
                bad.append("O4: response to HEAD carries %d body bytes: %s" % (o["bodylen"], op[:100]))
            if c["api_only"] and r["method"] != "HEAD":
                if cl is None:
                    if st not in (204, 304):
                        bad.append("O4: handler used only the response API but the response has no Content-Length: %s -> %s" % (op[:80], l[:80]))
                elif not re.fullmatch(rb"\d+", cl) or int(cl) != o["bodylen"]:
                    bad.append("O4: Content-Length %s but %d body bytes follow: %s" % (cl, o["bodylen"], op[:100]))
            if up and r.get("conn_last") is not None and tok_close(r["conn_last"]):
                if not o["close"]:
                    bad.append("O4: request asks for Connection: close (value %r) but the server does not close after the response" % r["conn_last"])
        if "want" in r and r["want"] is not None:
            w = r["want"]
            want_len = w[3] if len(w) > 3 else len(w[1])
            body_len = 0 if len(w) > 3 else len(w[1])
            if st != w[0] or o["bodylen"] != body_len or o["fnv"] != fnv64(w[1] if len(w) == 3 else b"") or cl is None or int(cl) != want_len or \
               field(fields, b"Content-Type") != w[2]:
                bad.append("O4: response differs from what the handler set: want status %d, %d body bytes, Content-Length %d, type %s; got %s" %
                           (w[0], body_len, want_len, w[2], l[:140]))
            if r.get("want_close") is not None and o["close"] != r["want_close"]:
                bad.append("O4: close after response = %s, the request's Connection value %r says %s" % (o["close"], r["conn_last"], r["want_close"]))
    return bad


# ================================================================== end-to-end
E2E_ROUTES = [
    ("GET", b"/s0", "echo"), ("GET", b"/s5", "sleep:5,echo"), ("GET", b"/s20", "sleep:20,echo"), ("GET", b"/s60", "sleep:60,echo"),
    ("POST", b"/p", "echo"), ("POST", b"/p20", "sleep:20,echo"), ("GET", b"/thr", "thr"), ("GET", b"/thx", "sleep:5,thx"),
    ("GET", b"/big", "big:150000:66"), ("GET", b"/item/:id", "echo"), ("GET", b"/files/*", "echo"),
    ("GET", b"/created", "st:201," + sc_content(b'{"ok":true}', b"application/json")), ("PUT", b"/only-put", sc_content(b"put")),
    ("DELETE", b"/gone", "st:204"), ("GET", b"/slow", "sleep:300," + sc_content(b"SLOW")), ("GET", b"/fast", sc_content(b"FAST")),
]


def e2e_request(rng, rid, allow_close, allow_head, delays):
    k = rng.below(24)
    conn = None
    closing = False
    body = b""
    if k < 8:
        path = rng.choice([b"/s0", b"/s0", b"/s5", b"/s20", b"/s60"] if delays else [b"/s0"])
        d = build_request(rng, b"GET", path + b"?id=%d" % rid)
        meth = "GET"
    elif k < 11:
        body = rng.bytes(rng.range(1, 200))
        d = build_request(rng, b"POST", rng.choice([b"/p", b"/p20"] if delays else [b"/p"]) + b"?id=%d" % rid, body=body)
        meth = "POST"
    elif k < 13:
        d = build_request(rng, b"GET", rng.choice([b"/thr", b"/thx"]))
        meth = "GET"
    elif k < 14:
        d = build_request(rng, b"GET", b"/big")
        meth = "GET"
    elif k < 16:
        d = build_request(rng, b"GET", rng.choice([b"/item/%d" % rid, b"/files/a/b/%d.txt" % rid, b"/created"]))
        meth = "GET"
    elif k < 18:
        d = build_request(rng, b"GET", b"/missing/%d" % rid)
        meth = "GET"
    elif k < 19:
        d = build_request(rng, rng.choice([b"POST", b"DELETE"]), b"/s0")         # 405
        meth = "POST"
    elif k < 20:
        d = build_request(rng, b"OPTIONS", rng.choice([b"/s0", b"*", b"/only-put"]))
        meth = "OPTIONS"
    elif k < 21:
        d = build_request(rng, b"DELETE", b"/gone")
        meth = "DELETE"
    elif k < 23 and allow_head:
        d = build_request(rng, b"HEAD", rng.choice([b"/s0?id=%d" % rid, b"/created", b"/missing", b"/only-put", b"/big"]))
        meth = "HEAD"
    elif k == 23:
        # HTTP/1.0 (with or without Host): answered with an HTTP/1.1 response and kept alive (SessionInfo::httpVersion is never written)
        d = build_request(rng, b"GET", b"/s0?id=%d" % rid, version=b"HTTP/1.0", host=rng.chance(1, 2))
        meth = "GET"
    else:
        d = build_request(rng, b"GET", b"/s0?id=%d" % rid)
        meth = "GET"
    return d, meth


def e2e_closing_request(rng, rid):
    k = rng.below(8)
    if k == 6:
        # HEAD that closes on the normal path: no body byte before the EOF
        return build_request(rng, b"HEAD", rng.choice([b"/s0?id=%d" % rid, b"/big", b"/missing"]), conn=rng.choice([b"close", b"TE, close"])), "HEAD"
    if k == 7:
        # HEAD that ends in the error arm (400, no Host): since FC16f the arm sends the header section only, like every response to HEAD
        return build_request(rng, b"HEAD", b"/s0", host=False), "HEAD"
    if k < 3:
        return build_request(rng, b"GET", b"/s0?id=%d" % rid, conn=rng.choice([b"close", b"Close", b"TE, close", b"keep-alive, close"])), "GET"
    if k == 3:
        return build_request(rng, b"BREW", b"/s0"), "?"
    if k == 4:
        return build_request(rng, b"GET", b"/s0", host=False), "?"
    return build_request(rng, b"GET", b"/big", conn=b"close"), "GET"


def patterned(n, seed=0):
    return bytes((i * 7 + 3 + seed) & 0xFF for i in range(n))


def post_request(target, body, chunked=None, extra=None):
    """(bytes on the wire, bytes the extractor hands to processHttpRequest): for a chunked request the application gets the header
    section followed by the DECODED body (RFC 9112 7.1; extraction exactness is property C15)"""
    hs = [(b"Host", b"example.test")] + list(extra or [])
    if chunked is None:
        head = b"POST " + target + b" HTTP/1.1\r\n" + b"".join(k + b": " + v + b"\r\n" for k, v in hs + [(b"Content-Length", b"%d" % len(body))]) + b"\r\n"
        return head + body, head + body
    head = b"POST " + target + b" HTTP/1.1\r\n" + b"".join(k + b": " + v + b"\r\n" for k, v in hs + [(b"Transfer-Encoding", b"chunked")]) + b"\r\n"
    wire = b"".join(b"%x\r\n" % len(body[i:i + chunked]) + body[i:i + chunked] + b"\r\n" for i in range(0, len(body), chunked)) + b"0\r\n\r\n"
    return head + wire, head + body


def get_request(target, extra=None):
    hs = [(b"Host", b"example.test")] + list(extra or [])
    return b"GET " + target + b" HTTP/1.1\r\n" + b"".join(k + b": " + v + b"\r\n" for k, v in hs) + b"\r\n"


def large_pipeline_conn(body_len, chunked, followers, tail=1000, rid=0, pause=40):
    """One pipelined connection: a POST whose bytes exceed one read / 64 KiB, then `followers` more requests with NO cut between the end of
    the body and the next request: everything but the last `tail` body bytes goes out first; after a pause the tail and the followers go out
    in ONE send, so they reach the server in one read (one handleIncomingData pass that starts far into the session buffer)."""
    wire, ext = post_request(b"/p?id=%d" % rid, patterned(body_len, rid), chunked)
    reqs = [{"data": wire, "pred_data": ext, "method": "POST"}]
    for j in range(followers):
        g = get_request(b"/s0?id=%d" % (rid + 1 + j))
        reqs.append({"data": g, "method": "GET"})
    cut = len(wire) - min(tail, len(wire) - 1)
    blob = b"".join(r["data"] for r in reqs)
    return {"mode": "pipe", "reqs": reqs, "cuts": None, "writes": [(blob[:cut], pause), (blob[cut:], 0)]}


def many_posts_conn(n, size, rid=0):
    """n POSTs of `size` body bytes in ONE send (several reads of at most 64 KiB on the server, several requests per pass)"""
    reqs = []
    for j in range(n):
        wire, ext = post_request(b"/p?id=%d" % (rid + j), patterned(size, rid + j))
        reqs.append({"data": wire, "pred_data": ext, "method": "POST"})
    return {"mode": "pipe", "reqs": reqs, "cuts": None, "writes": [(b"".join(r["data"] for r in reqs), 0)]}


def conn_from_corpus(d):
    k = d["kind"]
    if k == "large-post-then-followers":
        return large_pipeline_conn(d["body_len"], d.get("chunked"), d["followers"], d.get("tail", 1000), d.get("rid", 0), d.get("pause_ms", 40))
    if k == "many-posts-one-send":
        return many_posts_conn(d["count"], d["body_len"], d.get("rid", 0))
    raise ValueError("unknown e2e corpus connection kind %r" % k)


def fixed_e2e_scenarios():
    """corpus/C16/*.json with an `e2e` entry: always run, first"""
    out = []
    d = corpus_dir()
    if os.path.isdir(d):
        for fn in sorted(os.listdir(d)):
            if fn.endswith(".json"):
                c = json.load(open(os.path.join(d, fn)))
                if "e2e" in c:
                    out.append({"conns": [conn_from_corpus(x) for x in c["e2e"]["conns"]], "corpus": fn})
    return out


def gen_e2e_scenarios(rng, n):
    scen = []
    rid = 0
    for si in range(n):
        conns = []
        if si % 13 == 5:
            # pipelining behind a large request / long one-send pipelines: offsets beyond every per-request limit within one pass
            rid += 50
            if rng.chance(2, 3):
                conns.append(large_pipeline_conn(rng.choice([65400, 65536, 65537, 66000, 70000, 131072, 200000]), rng.choice([None, None, 4096, 8192, 65536]),
                                                 rng.range(1, 3), tail=rng.choice([1, 200, 1000, 5000]), rid=rid, pause=rng.choice([20, 40])))
            else:
                conns.append(many_posts_conn(rng.choice([10, 40, 60]), rng.choice([512, 2048, 3000]), rid=rid))
            if rng.chance(1, 2):
                conns.append({"mode": "seq", "reqs": [{"data": get_request(b"/s0?id=%d" % (rid + 49)), "method": "GET"}], "cuts": None})
            scen.append({"conns": conns})
            continue
        for ci in range(rng.choice([1, 1, 2, 3, 4])):
            mode = rng.choice(["seq", "seq", "pipe", "pipe", "pipe-nodelay"])
            nreq = rng.range(1, 6)
            reqs = []
            for j in range(nreq):
                rid += 1
                last = j == nreq - 1
                if last and rng.chance(1, 2):
                    d, meth = e2e_closing_request(rng, rid)
                else:
                    d, meth = e2e_request(rng, rid, False, mode == "seq", mode != "pipe-nodelay")
                reqs.append({"data": d, "method": meth})
            cut = None
            if mode != "seq" and rng.chance(1, 3):
                tot = sum(len(r["data"]) for r in reqs)
                cut = sorted(set(rng.below(tot) + 1 for _ in range(rng.range(1, 3))))
            conns.append({"mode": mode, "reqs": reqs, "cuts": cut})
        scen.append({"conns": conns})
    return scen


def predict(ctx, scen_list):
    """Ask the model what every request of every scenario is answered with (server up, default session): the whole wire."""
    ops = ["reset"] + ["route %s %s %s" % (m, hexs(p), s) for m, p, s in E2E_ROUTES]
    idx = []
    for s in scen_list:
        for c in s["conns"]:
            for r in c["reqs"]:
                idx.append(r)
                ops.append("reqw %s" % hexs(r.get("pred_data", r["data"])))
    out, rc, err = ctx.run_lines(ctx.model_argv(COMPONENT), ops, timeout=900)
    if rc != 0 or len(out) != len(ops):
        raise RuntimeError("model driver failed on e2e predictions rc=%s %s" % (rc, err[-300:]))
    for r, l in zip(idx, out[len(ops) - len(idx):]):
        t = l.split()
        if t and t[0] == "respond" and len(t) == 3:
            w = unhex(t[2])
            he = w.find(b"\r\n\r\n")
            r["pred"] = {"kind": "respond", "close": t[1] == "1", "wire": w, "head": w[:he + 4], "bodylen": len(w) - he - 4}
        else:
            r["pred"] = {"kind": t[0] if t else "?"}
        r["pred_line"] = l[:300]


def conn_spec(c):
    reqs = c["reqs"]
    lens = []
    for r in reqs:
        p = r["pred"]
        lens.append(len(p["head"]) + p["bodylen"] if p["kind"] == "respond" else 0)
    k = len(reqs)
    for i, r in enumerate(reqs):
        if r["pred"].get("close"):
            k = i + 1
            break
    expected = sum(lens[:k])
    steps = ["b%d" % expected] + (["c"] if any(r["pred"].get("close") for r in reqs[:k]) else [])
    if c["mode"] == "seq":
        acc = 0
        for i, r in enumerate(reqs[:k]):
            steps.append("w" + hexs(r["data"]))
            acc += lens[i]
            steps.append("a%d" % acc)
    elif c.get("writes"):
        for chunk, pause in c["writes"]:
            steps.append("w" + hexs(chunk))
            if pause:
                steps.append("s%d" % pause)
    else:
        blob = b"".join(r["data"] for r in reqs)
        cuts = [0] + (c["cuts"] or []) + [len(blob)]
        for a, b in zip(cuts, cuts[1:]):
            if b > a:
                steps.append("w" + hexs(blob[a:b]))
                if c["cuts"]:
                    steps.append("s2")
    c["k"] = k
    c["expected_bytes"] = expected
    return ";".join(steps)


def match_stream(obs, preds):
    """Explain the observed byte stream as whole predicted responses, each used at most once (exact bytes)."""
    pos = 0
    used = set()
    order = []
    while pos < len(obs):
        hit = None
        for i, p in enumerate(preds):
            if i in used or p["kind"] != "respond":
                continue
            if obs.startswith(p["wire"], pos):
                hit = i
                break
        if hit is None:
            break
        used.add(hit)
        order.append(hit)
        pos += len(preds[hit]["wire"])
    return order, obs[pos:]


FITS_FOR_SURE = 65536      # a connection whose predicted responses total at most this many bytes certainly fits the socket buffer


def judge_conn(c, obs, eof, timed_out, f28_ok, counts):
    """Returns (list of property failures, list of hypotheses that failed)."""
    bad = []
    reqs = c["reqs"]
    preds = [r["pred"] for r in reqs]
    k = c["k"]
    closes = any(p.get("close") for p in preds[:k])
    order, leftover = match_stream(obs, preds)
    pipelined = c["mode"] != "seq" and len(reqs) > 1
    in_order = order == list(range(k)) and not leftover
    heads = [r["method"] == "HEAD" for r in reqs]
    if not pipelined or in_order:
        # implementation-only monitors through the independent reference framer
        frames, rest, err = ref_frames(obs, heads)
        if err:
            bad.append("O5: the byte stream is not a sequence of whole HTTP/1.1 responses (%s) after %d responses: %r" % (err, len(frames), rest[:60]))
        else:
            if len(frames) != k:
                bad.append("O1: %d requests were sent%s but %d responses came back" % (k, " (the last asks for close)" if closes else "", len(frames)))
            for f, r in zip(frames, reqs):
                cl = field(f["fields"], b"Content-Length")
                if r["method"] == "HEAD" and f["body"]:
                    bad.append("O4: response to HEAD carries a body")
                if cl is not None and r["method"] != "HEAD" and f["status"] not in (204, 304) and int(cl) != len(f["body"]):
                    bad.append("O4: Content-Length %s, body %d bytes" % (cl, len(f["body"])))
                if f.get("close_delimited"):
                    bad.append("O4: response without Content-Length on a persistent connection (status %d)" % f["status"])
            if frames:
                last_conn = field(frames[-1]["fields"], b"Connection")
                if (last_conn == b"close") != eof and len(frames) == k:
                    bad.append("O4: last response says Connection: %s but connection closed = %s" % (last_conn, eof))
    if timed_out and not eof and len(obs) < c["expected_bytes"]:
        bad.append("O1: connection left waiting: %d of %d expected bytes after the watchdog, no close" % (len(obs), c["expected_bytes"]))
    if not pipelined:
        if order != list(range(k)) or leftover:
            bad.append("O3: non-pipelined client: responses matched to requests %s, expected %s, %d unexplained bytes" % (order, list(range(k)), len(leftover)))
        if eof != closes:
            bad.append("O4: connection closed = %s but the model says close-after-response = %s" % (eof, closes))
        counts["seq_conns"] = counts.get("seq_conns", 0) + 1
        return bad, []
    counts["pipelined_conns"] = counts.get("pipelined_conns", 0) + 1
    if in_order and eof == closes:
        counts["pipelined_in_order"] = counts.get("pipelined_in_order", 0) + 1
        return bad, []
    # Pipelined and not in order: hypothesis `OneInFlight` of the O3 partial theorem fails -> F28 (DESIGN 5.3).  What is still REQUIRED is
    # what holds for every schedule (O1_all_schedules, O2_stream_is_prefix_of_whole_responses, O4p_*): the stream is a sequence of whole,
    # distinct responses of this connection's requests (any order); it may end in a proper prefix of one more such response only where a
    # Close cut it (EOF, and the connection's responses do not certainly fit the socket buffer); EOF exactly if some response closes; the
    # closing response is sent before its own Close, so it must be there whenever everything certainly fits; without a close every
    # response must be there.
    hyp = ["F28"]
    counts["pipelined_out_of_order_or_lost"] = counts.get("pipelined_out_of_order_or_lost", 0) + 1
    total = sum(len(p["wire"]) for p in preds if p["kind"] == "respond")
    fits = total <= FITS_FOR_SURE
    closing = [i for i, p in enumerate(preds) if p.get("close")]
    if leftover:
        unused = [p["wire"] for i, p in enumerate(preds) if i not in order and p["kind"] == "respond"]
        cut = any(len(leftover) < len(w) and w.startswith(leftover) for w in unused)
        if not cut:
            bad.append("O2: %d bytes that are not a whole response of any request of this connection, nor the beginning of one: %r" % (len(leftover), leftover[:60]))
        elif not (eof and closes):
            bad.append("O2: the stream ends inside a response (%d bytes of it) although no Close cut it" % len(leftover))
        elif fits:
            bad.append("O4': a response was cut by a Close although all %d predicted bytes of this connection fit the socket buffer" % total)
    if closes:
        if not eof:
            bad.append("O4: a response of this connection asks for close but the connection stayed open")
        if fits and not all(i in order for i in closing):
            bad.append("O1: the closing response itself is missing (responses seen: requests %s of %d; everything fits the socket buffer)" % (sorted(order), len(reqs)))
    else:
        if sorted(order) != list(range(len(reqs))) and not timed_out:
            bad.append("O1: pipelined connection without any close: responses for requests %s only (of %d)" % (sorted(order), len(reqs)))
        if eof:
            bad.append("O4: connection closed although no response asked for it")
    return bad, hyp


def run_e2e(ctx, hb, rng, n_scen, f28_ok, counts):
    scen_all = fixed_e2e_scenarios() + gen_e2e_scenarios(rng, n_scen)
    predict(ctx, scen_all)
    kinds = {}
    for s in scen_all:
        for c in s["conns"]:
            for r in c["reqs"]:
                rl = r["data"].split(b"\r\n", 1)[0].split(b" ")
                p = r.get("pred") or {}
                st = parse_head(p["head"])[0] if p.get("kind") == "respond" else p.get("kind")
                k = "%s %s %s -> %s%s" % (c["mode"], rl[0].decode("latin1")[:8], rl[-1].decode("latin1")[:8], st, " +close" if p.get("close") else "")
                kinds[k] = kinds.get(k, 0) + 1
    counts["e2e_requests_by_kind (connection mode, method, version -> predicted status)"] = dict(sorted(kinds.items()))
    setup = ["reset"] + ["route %s %s %s" % (m, hexs(p), s) for m, p, s in E2E_ROUTES] + ["e2e start"]
    base = len(setup)
    nreq = 0
    reported = 0
    batch = 40
    for b0 in range(0, len(scen_all), batch):
        if reported >= 6:
            # every further scenario would only cost watchdog time (a server that has stopped answering stays that way)
            ctx.notes.append("end-to-end: %d scenarios not run after %d reported failures" % (len(scen_all) - b0, reported))
            break
        scen = scen_all[b0:b0 + batch]
        ops = setup + ["e2e run 4000 25 " + " ".join(conn_spec(c) for c in s["conns"]) for s in scen] + ["e2e stop"]
        out, rc, err = ctx.run_lines([hb], ops, timeout=1500)
        if len(out) <= base - 1 or out[base - 1] != "ok":
            raise RuntimeError("e2e server did not start: %s %s" % (out[base - 1:base], err[-300:]))
        for si, s in enumerate(scen):
            li = base + si
            line = out[li] if li < len(out) else "crash:" + str(rc)
            parts, dispatched = split_run_line(line)
            ctx.cov["traces_validated_against_impl"] += 1
            # Cross-check that is independent of the model and of the responses: every request the generator ENCODED on the connections of
            # this scenario was handed to the worker pool exactly once (the arrivals of the O1 theorems are the requests C15's extractor
            # delivers; here the count is taken at the ThreadPool's `tp:popped` verification point).  sequential clients stop at the first close.
            encoded = sum(c["k"] if c["mode"] == "seq" else len(c["reqs"]) for c in s["conns"])
            if dispatched is not None:
                counts["dispatch_count_checks"] = counts.get("dispatch_count_checks", 0) + 1
                if dispatched != encoded and len(parts) == len(s["conns"]):
                    if reproduces_dispatch(ctx, hb, setup, s, encoded):
                        reported += 1
                        ctx.violation("property", "O1: %d requests were encoded on the %d connection(s) of this scenario but %d were dispatched to the worker pool" %
                                      (encoded, len(s["conns"]), dispatched), {"scenario": scen_json(s), "observed": line[:300], "corpus": s.get("corpus")}, found_input=True,
                                      cls="property:e2e:dispatch-count")
                    else:
                        counts["dispatch_count_not_reproduced"] = counts.get("dispatch_count_not_reproduced", 0) + 1
            for ci, c in enumerate(s["conns"]):
                nreq += len(c["reqs"])
                if ci >= len(parts) or parts[ci].count(":") < 2:
                    reported += 1
                    ctx.violation("property", "O1: end-to-end run died or a client could not connect: %s" % line[:120],
                                  {"scenario": scen_json(s), "observed": line[:400], "stderr": err[-800:]}, found_input=True)
                    continue
                hx, eof, to = parts[ci].rsplit(":", 2)
                if hx.startswith("big:"):
                    # more than 8 MB on one connection: no scenario predicts that much
                    reported += 1
                    ctx.violation("property", "O2: a connection delivered %s bytes, more than every predicted response of its requests together" % hx.split(":")[1],
                                  {"connection": conn_json(c), "observed_prefix_hex": hx.split(":")[2][:2000]}, found_input=True)
                    continue
                obs = unhex(hx)
                bad, hyp = judge_conn(c, obs, eof == "1", to == "1", f28_ok, counts)
                ctx.count_case(b"".join(r["data"] for r in c["reqs"]) + c["mode"].encode(), nontrivial=len(c["reqs"]) > 0)
                if hyp and not f28_ok and not bad:
                    bad = ["O3: pipelined responses out of order / lost behind a close, and finding F28 is not listed in KNOWN_FINDINGS.txt"]
                if bad and to == "1" and not reproduces(ctx, hb, setup, s, ci, f28_ok):
                    # DESIGN 5.2: a found input is replayed before it is reported.  A watchdog expiry that does not repeat in two
                    # replays with a longer watchdog is recorded in the evidence, not reported as a violation of a safety property.
                    counts["watchdog_timeouts_not_reproduced"] = counts.get("watchdog_timeouts_not_reproduced", 0) + 1
                    ctx.extra.setdefault("unreproduced_timeouts", []).append({"connection": conn_json(c), "received_bytes": len(obs), "first_failure": bad[0]})
                    ctx.notes.append("end-to-end: one connection hit the %d ms watchdog (%s) and did not do so again in 2 replays" % (4000, bad[0][:80]))
                    bad = []
                if bad:
                    reported += 1
                ecls = "property:e2e:" + bad[0].split(":")[0] if bad else None      # own reporting class: the end-to-end layer reports its own inputs
                if bad and ctx.violation_budget("property", bad[0], cls=ecls):
                    ctx.violation("property", bad[0], {"connection": conn_json(c), "observed_hex": hx[:4000], "eof": eof, "timed_out": to, "failures": bad[:5],
                                                       "dispatched_in_scenario": dispatched, "corpus": s.get("corpus"),
                                                       "routes": [[m, p.decode(), s_] for m, p, s_ in E2E_ROUTES],
                                                       "expected_by_model": [r["pred_line"][:200] for r in c["reqs"]]}, found_input=True, cls=ecls)
                elif bad:
                    ctx.violation("property", bad[0], cls=ecls)
        counts["e2e_scenarios"] = counts.get("e2e_scenarios", 0) + len(scen)
        if rc != 0:
            reported += 1
            ctx.violation("property", "O1: the end-to-end harness (real server on loopback) ended abnormally: rc=%s %s" % (rc, err[-200:].replace("\n", " ")),
                          {"stderr": err[-2000:]}, found_input=False)
    counts["e2e_requests"] = counts.get("e2e_requests", 0) + nreq


def split_run_line(line):
    """`e2e run` answer: one `<hex>:<eof>:<timeout>` token per connection and a final `D=<requests dispatched to the pool>`"""
    parts = line.split()
    d = None
    if parts and parts[-1].startswith("D="):
        try:
            d = int(parts[-1][2:])
        except ValueError:
            d = None
        parts = parts[:-1]
    return parts, d


def reproduces_dispatch(ctx, hb, setup, s, encoded):
    line_spec = " ".join(conn_spec(c) for c in s["conns"])
    ops = setup + ["e2e run 10000 25 " + line_spec] * 2 + ["e2e stop"]
    out, rc, err = ctx.run_lines([hb], ops, timeout=180)
    return any(split_run_line(l)[1] != encoded for l in out[len(setup):len(setup) + 2]) or rc != 0


def reproduces(ctx, hb, setup, s, ci, f28_ok):
    """Replay one scenario twice (fresh server, 10 s watchdog); True if connection `ci` fails again."""
    line_spec = " ".join(conn_spec(c) for c in s["conns"])
    ops = setup + ["e2e run 10000 25 " + line_spec] * 2 + ["e2e stop"]
    out, rc, err = ctx.run_lines([hb], ops, timeout=120)
    for l in out[len(setup):len(setup) + 2]:
        parts, _ = split_run_line(l)
        if ci >= len(parts) or parts[ci].count(":") < 2:
            return True
        hx, eof, to = parts[ci].rsplit(":", 2)
        if hx.startswith("big:"):
            return True
        bad, _ = judge_conn(s["conns"][ci], unhex(hx), eof == "1", to == "1", f28_ok, {})
        if bad:
            return True
    return rc != 0


def show_req(d):
    s = d.decode("latin1")
    return s if len(s) <= 600 else s[:300] + "...(%d bytes)..." % len(s) + s[-120:]


def conn_json(c):
    d = {"mode": c["mode"], "cuts": c["cuts"], "requests": [show_req(r["data"]) for r in c["reqs"]]}
    if c.get("writes"):
        d["writes"] = ["%d bytes, then pause %d ms" % (len(w), p) for w, p in c["writes"]]
    return d


def scen_json(s):
    return [conn_json(c) for c in s["conns"]]


# ================================================================== recorded findings: replay the witnesses against the real code
def known_keys():
    keys = {d.get("key") for d in load_known_findings() if d.get("kind") == "finding" and d.get("property") == ID}
    extra = os.environ.get("VERIF_KNOWN_FINDINGS_EXTRA")      # for trying out proposed lines; KNOWN_FINDINGS.txt itself is never written
    if extra and os.path.exists(extra):
        for l in open(extra):
            if l.startswith("finding:") and "property=%s" % ID in l:
                m = re.search(r"key=(\S+)", l)
                if m:
                    keys.add(m.group(1))
    return keys


def socket_buffer_bound():
    """max bytes the kernel can hold for one loopback connection: sender's send buffer + receiver's receive buffer (autotuning maxima)"""
    tot = 0
    for f in ("/proc/sys/net/ipv4/tcp_wmem", "/proc/sys/net/ipv4/tcp_rmem"):
        try:
            tot += int(open(f).read().split()[2])
        except (OSError, ValueError, IndexError):
            tot += 6 << 20
    return tot


def replay_findings(ctx, hb, keys):
    """Replays the witnesses of the recorded findings against the real server. Returns: F28 carve-out allowed?"""
    bound = socket_buffer_bound()
    try:
        wmax = int(open("/proc/sys/net/ipv4/tcp_wmem").read().split()[2])
    except (OSError, ValueError, IndexError):
        wmax = 4 << 20
    # body of the F31 witness: beyond what the socket buffers of this host can absorb (>= 24 MiB, >= 8 x the send-buffer maximum,
    # >= 2 x send + receive maxima), but not more than the harness should allocate
    huge = min(max(24 << 20, 8 * wmax, 2 * bound), 128 << 20)
    f31_replayable = huge >= bound + (16 << 20)
    if not f31_replayable:
        # not a property failure and not a broken tie: this host's socket buffers can absorb any body the harness may allocate, so the
        # truncation cannot be provoked here.  The refutation (O4p_refuted) stands; the replay is skipped and the evidence says so.
        ctx.extra["finding_replay_skipped"] = {"F31": "socket buffers of this host (%d bytes) exceed what a %d-byte body can overflow" % (bound, huge)}
        huge = 1 << 20
    slow = b"GET /slow HTTP/1.1\r\nHost: a\r\n\r\n"
    fast = b"GET /fast HTTP/1.1\r\nHost: a\r\n\r\n"
    hreq = b"GET /huge HTTP/1.1\r\nHost: a\r\nConnection: close\r\n\r\n"
    routes = ["route %s %s %s" % (m, hexs(p), s) for m, p, s in E2E_ROUTES]
    # predictions: the two whole F28 responses; the head of the F31 response (the model is asked with a 7-byte body: the head differs in
    # the Content-Length digits only, and a list of `huge` bytes is more than the model driver should build)
    mout, mrc, merr = ctx.run_lines(ctx.model_argv(COMPONENT), ["reset"] + routes + ["route GET %s big:7:120" % hexs(b"/huge"),
                                                                  "reqw %s" % hexs(slow), "reqw %s" % hexs(fast), "reqw %s" % hexs(hreq)], timeout=120)
    w_slow, w_fast, w_huge7 = (unhex(l.split()[2]) for l in mout[-3:])
    head_pred = w_huge7[:w_huge7.find(b"\r\n\r\n") + 4].replace(b"Content-Length: 7\r\n", b"Content-Length: %d\r\n" % huge)
    ops = ["reset"] + routes + ["route GET %s big:%d:120" % (hexs(b"/huge"), huge), "e2e start"]
    ops.append("e2e run 3000 50 b%d;w%s" % (len(w_slow) + len(w_fast), hexs(slow + fast)))
    ops.append("e2e run 3000 50 b%d;w%s" % (len(w_slow) + len(w_fast), hexs(slow + fast)))
    # F31: Connection: close, the client does not read for 1.5 s
    ops.append("e2e run 30000 50 w%s;s1500;b%d;c" % (hexs(hreq), 10 ** 12))
    ops.append("e2e stop")
    out, rc, err = ctx.run_lines([hb], ops, timeout=600)
    base = len(ops) - 5
    res = {"F28": None, "F31": None}
    other = []
    try:
        tries = []
        for l in out[base + 1:base + 3]:
            obs = unhex(split_run_line(l)[0][0].rsplit(":", 2)[0])
            tries.append("out-of-order" if obs == w_fast + w_slow else "in-order" if obs == w_slow + w_fast else "other")
            if tries[-1] == "other":
                other.append("F28 witness: the stream is neither of the two orders of the two predicted responses: %r" % obs[:300])
        res["F28"] = "out-of-order" in tries
        res["F28_detail"] = "the two whole predicted responses, per try: %s" % tries
        hx, eof, to = split_run_line(out[base + 3])[0][0].rsplit(":", 2)
        if hx.startswith("big:"):
            total = int(hx.split(":")[1])
            data = unhex(hx.split(":")[2])
        else:
            data = unhex(hx)
            total = len(data)
        got = total - len(head_pred)
        head_ok = data[:len(head_pred)] == head_pred
        body_ok = set(data[len(head_pred):]) <= {120}
        res["F31_detail"] = "declared %d (socket buffers of this host hold at most %d), received %d body bytes, eof=%s, head as predicted=%s" % (huge, bound, got, eof, head_ok)
        if not head_ok or not body_ok or got < 65536:
            # O4p_partial / O4p_prefix: the head and the first 64 KiB certainly fit the socket buffer and must arrive, and only bytes of the response
            other.append("F31 witness: %s — the part of a response that fits the socket buffer must be delivered intact before the Close" % res["F31_detail"])
            res["F31"] = True
        else:
            res["F31"] = (eof == "1" and got < huge)
    except Exception as ex:      # malformed harness output
        res["error"] = "%s: %s / %s" % (type(ex).__name__, ex, [x[:80] for x in out[base:base + 5]])
    # ---- FC16d: HEAD answered outside the normal path (lockstep harness, real processHttpRequest / sendErrorResponse)
    head_nohost = b"HEAD / HTTP/1.1\r\n\r\n"
    head_ok = b"HEAD / HTTP/1.1\r\nHost: a\r\n\r\n"
    head_up = b"HEAD / HTTP/1.1\r\nHost: a\r\nUpgrade: h2c\r\n\r\n"
    hops = ["reset", "req %s 010111 d" % hexs(head_nohost), "req %s 110111 d" % hexs(head_ok), "hook upgrade thr", "req %s 010111 d" % hexs(head_up),
            "overflow %s 101" % hexs(head_ok)]
    hout, hrc, herr = ctx.run_lines([hb], hops, timeout=120)
    try:
        arms = {}
        for name, i in (("400 parse reject", 1), ("503 shutdown arm", 2), ("500 throwing seam", 4), ("503 pool overflow", 5)):
            o = parse_outcome(hout[i])
            st = parse_head(o["head"])[0] if o["kind"] == "respond" else None
            arms[name] = (st, o.get("bodylen"))
        res["FC16f_regression"] = "HEAD request, (status, body bytes on the wire) per arm: %s" % arms
        for name, (st, blen) in arms.items():
            if st is None or blen is None or blen != 0:
                other.append("FC16f regression: a HEAD request answered by the arm `%s` must get that arm's header section and no body, got status %s with %s body bytes" % (name, st, blen))
    except Exception as ex:
        ctx.violation("correspondence", "FC16f regression ops (HEAD on the arms outside the normal path) could not be run: %s: %s / %s" % (type(ex).__name__, ex, [x[:80] for x in hout]),
                      {"broken": {"correspondence": "HEAD error-arm ops against the real code", "detail": str(hout)[:500]}, "ops": hops}, found_input=False)
    # ---- FC16e: stop() + start() on one server object while handlers are still RUNNING and a request is still QUEUED (real server on loopback).
    # One write of nine pipelined requests: 8 x GET /hold (3.5 s each: the pool grows to its maximum, every worker is inside /hold) and one
    # GET /fast that stays in the pool's queue across stop()'s 2 s drain wait and the following start(); client B takes over A's session id on
    # the new transport; at ~3.5 s the /hold handlers return and a freed worker starts /fast.  None of the nine responses may reach B.
    hold = b"GET /hold HTTP/1.1\r\nHost: a\r\n\r\n"
    fast_rq = b"GET /fast HTTP/1.1\r\nHost: a\r\n\r\n"
    import vlib.core as _vcore
    try:
        pool_max = int(re.search(r"def poolMax : Nat := (\d+)", open(os.path.join(_vcore.LEAN, "IoraModel", "Gen", "HttpRespond.lean")).read()).group(1))
    except (OSError, AttributeError):
        pool_max = 8
    rops = ["reset", "route GET %s sleep:3500,%s" % (hexs(b"/hold"), sc_content(b"SECRET-OF-CLIENT-A")), "route GET %s %s" % (hexs(b"/fast"), sc_content(b"FAST-REPLY-FOR-CLIENT-A")),
            "e2e start", "e2e restart 2600 %s 1" % hexs(hold * pool_max + fast_rq), "e2e stop"]
    rout, rrc, rerr = ctx.run_lines([hb], rops, timeout=120)
    if len(rout) > 4 and rout[4].startswith("restart-precondition-failed"):
        # machinery, not a property failure: the scenario needs every worker busy and one request queued when stop() is called
        raise RuntimeError("e2e restart scenario: %s (pool maximum from Gen = %d) — the scenario no longer puts a request into the pool's queue" % (rout[4], pool_max))
    try:
        m = re.fullmatch(r"restart B=(\S+) A=(\S+)", rout[4])
        got_b = b"" if m.group(1) == "-" else unhex(m.group(1))
        res["FC16e_regression"] = "client B (connected after the restart, sent nothing) received %d bytes%s" % (len(got_b), (": %r" % got_b[:160]) if got_b else "")
        if got_b:
            which = "the request that was still QUEUED in the pool at stop()" if b"FAST-REPLY-FOR-CLIENT-A" in got_b and b"SECRET-OF-CLIENT-A" not in got_b else \
                    "a request whose handler was RUNNING at stop()" if b"FAST-REPLY-FOR-CLIENT-A" not in got_b else "running and queued requests"
            other.append("FC16e regression: stop() gave up on %d running handlers and one queued request, start() on the same HttpServer object, and a client that sent nothing "
                         "received %d bytes — the response to %s, addressed by a stale session id: %r" % (pool_max, len(got_b), which, got_b[:200]))
    except Exception as ex:
        ctx.violation("correspondence", "FC16e regression scenario (stop()/start() with a running handler) could not be run: %s: %s / %s" % (type(ex).__name__, ex, [x[:80] for x in rout]),
                      {"broken": {"correspondence": "restart scenario against the real server on loopback", "detail": str(rout)[:500]}, "ops": rops}, found_input=False)
    ctx.extra["finding_replay"] = {k: v for k, v in res.items()}
    for o in other:
        ctx.violation("property", "O4': " + o if o.startswith("F31") else ("O1: " + o if o.startswith("FC16e") else ("O4: " + o if o.startswith("FC16f") else "O2: " + o)),
                      {"witness": o, "ops": [x[:300] for x in (rops if o.startswith("FC16e") else (hops if o.startswith("FC16f") else ops))]}, found_input=True)
    wit28 = {"routes": "GET /slow = sleep 300 ms + set_content(SLOW); GET /fast = set_content(FAST)", "one_write": (slow + fast).decode(), "observed": res.get("F28_detail")}
    wit31 = {"route": "GET /huge = set_content(%d bytes)" % huge, "request": "GET /huge HTTP/1.1 + Connection: close; client starts reading after 1.5 s", "observed": res.get("F31_detail")}
    clause = {"F28": "O3", "F31": "O4'"}
    skip = set() if f31_replayable else {"F31"}
    for fid, key, what, wit, thm in (("F28", KEY_F28, WHAT_F28, wit28, "Iora.C16.O3_refuted"), ("F31", KEY_F31, WHAT_F31, wit31, "Iora.C16.O4p_refuted")):
        listed = key in keys
        still = res.get(fid)
        if fid in skip:
            continue
        if still is None:
            ctx.violation("correspondence", "%s: the witness of recorded finding %s could not be replayed: %s" % (fid, fid, res.get("error", "?")),
                          {"broken": {"correspondence": "finding replay", "detail": str(res)}}, found_input=False)
        elif still and listed:
            ctx.known_lines.append("KNOWN-FINDING: property=C16 id=%s key=%s %s (%s)" % (fid, key, what, res.get(fid + "_detail")))
        elif still:
            ctx.violation("property", "%s: %s — reproduces and finding %s (key=%s) is not listed in KNOWN_FINDINGS.txt" % (clause[fid], what, fid, key),
                          {"witness": wit}, found_input=True)
        else:
            ctx.violation("correspondence", "%s: the witness of recorded finding %s no longer reproduces against the real code, but the model still refutes the statement (%s): "
                          "the model no longer corresponds to the code" % (fid, fid, thm),
                          {"broken": {"theorem": thm, "correspondence": "finding replay against the real code", "detail": str(res)}, "witness": wit},
                          found_input=False)
    return bool(res.get("F28")) and KEY_F28 in keys


# ================================================================== run
def run(ctx: Ctx):
    quick = ctx.tier == "quick"
    scale = 1 if quick else 25
    rng = ctx.rng
    ctx.translate(["httprespond"])
    ok_build = ctx.lake_build(MODULES)
    if ok_build:
        ctx.audit(MODULES, OBLIGATIONS)
        if not quick:
            ctx.leanchecker(LEANCHECK)
    else:
        ctx.cov["obligations"] = len(OBLIGATIONS)
    hb = ctx.build_harness("harness/c16_httprespond.cpp", sanitize=True, opt="-O0" if quick else "-O1")
    dist = {}
    counts = {}
    if hb:
        keys = known_keys()
        f28_ok = replay_findings(ctx, hb, keys)
        cases = load_corpus()
        cases += gen_oracle_cases(ctx, rng.fork("oracle"), 500 * scale)
        cases += gen_lockstep_cases(ctx, rng.fork("lock"), 1400 * scale)
        cases += gen_seam_cases(ctx, rng.fork("seam"), 60 * scale)
        cases += gen_drain_cases(ctx, rng.fork("drain"), 80 * scale)
        cases += gen_dispatch_cases(ctx, rng.fork("disp"), 60 * scale)
        cases += gen_pool_cases(ctx, rng.fork("pool"), 150 * scale)
        cfile = os.path.join(ctx.work, "c16_counters.txt")
        if os.path.exists(cfile):
            os.remove(cfile)
        res = ctx.lockstep(COMPONENT, hb, cases, timeout=900, impl_env={"C16_COUNTERS": cfile})
        branch = {}
        if os.path.exists(cfile):
            for l in open(cfile):
                t = l.split()
                if len(t) == 2 and t[1].isdigit():
                    branch[t[0]] = branch.get(t[0], 0) + int(t[1])
            os.remove(cfile)
        ctx.extra["branch_counters"] = dict(sorted(branch.items()))
        n_mismatch = 0
        outcome_kinds = {}
        envs = {}
        for c, impl, model in res:
            dist[c["cat"]] = dist.get(c["cat"], 0) + 1
            for l in impl[c.get("first_req", 0):]:
                k = l.split()[0] if l else "?"
                if k == "respond":
                    st, _, _, _ = parse_head(parse_outcome(l).get("head", b""))
                    k = "respond-%s" % st
                outcome_kinds[k] = outcome_kinds.get(k, 0) + 1
            for r in (c.get("reqs") or []):
                envs[r["env"]] = envs.get(r["env"], 0) + 1
            ctx.count_case("\n".join(c["ops"]), nontrivial=any(l.startswith("respond") for l in impl))
            if len(ctx.cov["samples"]) < 6 and ctx.rng.chance(1, 300):
                ctx.sample({"cat": c["cat"], "ops": [o[:200] for o in c["ops"][:8]], "impl": [l[:200] for l in impl[:8]]})
            fails = monitor_case(c, impl)
            if c["cat"] == "pool":
                fails, hyp = monitor_pool(c, impl)
                if hyp:
                    counts["pool_schedules_out_of_order"] = counts.get("pool_schedules_out_of_order", 0) + 1
                    if not f28_ok and not fails:
                        fails = ["O3: responses of one session issued out of request order (pool schedule), and finding F28 is not listed in KNOWN_FINDINGS.txt"]
                else:
                    counts["pool_schedules_in_order"] = counts.get("pool_schedules_in_order", 0) + 1
            # the engine cannot tell "suppressed" from "nothing to send": the model says why it is silent, the harness only that it is
            model = [re.sub(r"^silent (nothing|suppressed)", "silent", l) for l in model]
            mism = [(i, a, b) for i, (a, b) in enumerate(zip(impl, model)) if a != b]
            if fails:
                report_property(ctx, hb, c, impl, model, fails)
            elif mism:
                n_mismatch += 1
                if n_mismatch <= 3:
                    i, a, b = mism[0]
                    ctx.violation("correspondence", "model and implementation disagree (no property monitor fails on this case): op `%s` impl=`%s` model=`%s`"
                                  % (show_op(c["ops"][i]), show_line(a), show_line(b)),
                                  {"broken": {"correspondence": "httprespond lockstep (harness/c16_httprespond.cpp vs Model/HttpServerRespond.lean)",
                                              "detail": "first differing op index %d, category %s" % (i, c["cat"])},
                                   "ops": c["ops"], "observed": impl, "expected_by_model": model}, found_input=False)
        ctx.extra["impl_outcomes"] = dict(sorted(outcome_kinds.items(), key=lambda kv: -kv[1])[:40])
        ctx.extra["env_distribution"] = envs
        # the model's framer against the independent reference framer, on model-predicted streams
        cross_check_framer(ctx, rng.fork("framer"), 150 * scale)
        run_e2e(ctx, hb, rng.fork("e2e"), 260 if quick else 6000, f28_ok, counts)
    ctx.extra["input_distribution"] = {"cases_by_category": dist,
                                       "branches_reached (counted by the harness with the real parser / classifyRequest before each call)": ctx.extra.get("branch_counters", {})}
    ctx.extra["end_to_end"] = counts
    ctx.extra["partial_hypotheses"] = {"F28 (OneInFlight fails: pipelined connection answered out of order or cut by an overtaking close)": counts.get("pipelined_out_of_order_or_lost", 0)}
    try:
        import vlib.core as _vc
        gtxt = open(os.path.join(_vc.LEAN, "IoraModel", "Gen", "HttpRespond.lean")).read()
        m = re.search(r"def sessionFieldWrites : Nat := (\d+)", gtxt)
        ctx.extra["observations"] = {"session_field_writes": int(m.group(1)) if m else None,
                                     "meaning": "assignments to SessionInfo::httpVersion / connectionKeepAlive anywhere in http_server.hpp; 0 = HTTP/1.0 requests are kept alive unless they say Connection: close"}
    except OSError:
        pass
    ctx.extra["repo_tree_sha"] = ctx.repo_tree_sha(ANCHOR_FILES)
    ctx.extra["refuted"] = [{"statement": "Iora.C16.O3_statement", "finding": "F28"}, {"statement": "Iora.C16.O4p_statement", "finding": "F31"}]
    ctx.extra["not_proved"] = NOT_PROVED
    ctx.assumptions += ["the arrivals of the O1/O2/O3 theorems are the complete requests the server's extractor (handleIncomingData / findChunkedRequestEnd) hands to the pool: "
                        "that extraction is exact — every encoded request, once, with its decoded body — is property C15's, not proved here; C16 ties it by lockstep "
                        "(single-read deliveries of 1, 2, 40 requests and of more than 64 KiB through the real handleIncomingData) and by the model-independent "
                        "dispatch count of every end-to-end scenario (requests encoded by the generator = tasks taken by pool workers, counted at `tp:popped`)",
                        "one engine Send command is written contiguously and commands of a session are processed in enqueue order (C01)",
                        "every engine command of a worker is issued inside one `_mutex` critical section; the task queue is FIFO (ThreadPool::_tasks is a std::queue popped under its mutex)",
                        "handlers are modelled as functions of (request, pre-filled response) that return or throw; the three virtual hooks (onUpgradeRequest, onResponseSuppressed, and onUpgradedData as "
                        "called by the upgrade arm's buffer drain) return a value or throw (std::exception or any other type)",
                        "requests that the FRAMING layer of handleIncomingData rejects (oversized header block, conflicting Content-Length, malformed chunking, buffer limit) end in closeSession without a "
                        "response: that `unparseable => close` half of the clause is property C15's (its S3/S6 monitors); C16's monitors see only requests the extractor hands on",
                        "status codes are C++ `int`; the model uses unbounded integers",
                        "\"C\" locale for ::tolower / std::isalpha (the library never calls setlocale)"]
    return ctx.finish(level="proof", rule="a case = one op list (fresh routing table + scripted handlers + 2-7 requests through the real processHttpRequest behind a capturing engine), "
                      "or one client connection (1-6 requests, sequential or pipelined) against the real server on loopback; "
                      "distinct = distinct op lists / request byte sequences; non-trivial = at least one response was produced")


def show_op(op):
    t = op.split()
    if t and t[0] in ("req", "dispatch") and len(t) > 1:
        try:
            return "%s %r %s" % (t[0], unhex(t[1])[:100], " ".join(t[2:]))
        except ValueError:
            pass
    return op[:160]


def show_line(l):
    o = parse_outcome(l)
    if o["kind"] == "respond":
        return "respond close=%s %r body=%d:%s" % (o["close"], o["head"][:200], o["bodylen"], o["fnv"])
    return l[:160]


def cross_check_framer(ctx, rng, n):
    """Lean reference framer (used by theorem O5) vs. the Python reference framer (used by the monitors) on random response streams."""
    ops = []
    want = []
    for _ in range(n):
        stream = b""
        heads = []
        exp = []
        for _ in range(rng.range(1, 4)):
            st = rng.choice([200, 201, 204, 304, 404, 500, 100, 199, 999])
            is_head = rng.chance(1, 5)
            body = rng.bytes(rng.choice([0, 1, 5, 300]))
            fields = [(b"Connection", b"keep-alive"), (b"Content-Length", b"%d" % len(body)), (b"Content-Type", b"text/plain"), (b"Server", b"Iora/1.0")]
            if rng.chance(1, 8):
                del fields[1]
            if rng.chance(1, 10):
                fields.append((b"content-length", b"%d" % (len(body) + rng.below(2))))
            if rng.chance(1, 15):
                fields[0] = (b"Transfer-Encoding", b"chunked")
            if rng.chance(1, 12):
                fields[1] = (fields[1][0], rng.choice([b"", b"1x", b"-1", b" 5"]))
            head = b"HTTP/1.1 %d %s\r\n" % (st, rng.choice([b"OK", b"", b"Not Found"])) + b"".join(k + b": " + v + b"\r\n" for k, v in fields) + b"\r\n"
            wire = head + (b"" if (is_head or st < 200 or st in (204, 304)) else body)
            if rng.chance(1, 12):
                wire = wire[:rng.below(len(wire))]
            stream += wire
            heads.append(is_head)
        frames, rest, err = ref_frames(stream, heads)
        ok = err is None and not rest and len(frames) == len(heads)
        ops.append("frame %s %s" % ("".join("1" if h else "0" for h in heads), hexs(stream)))
        want.append("frames " + " ".join("%d:%d:%d:%s" % (f["status"], len(f["fields"]), len(f["body"]), fnv64(f["body"])) for f in frames) if ok else "noframes")
    out, rc, err = ctx.run_lines(ctx.model_argv(COMPONENT), ops, timeout=300)
    bad = 0
    for op, l, w in zip(ops, out, want):
        if l != w:
            bad += 1
            if bad <= 2:
                ctx.violation("correspondence", "the model's reference framer and the monitors' reference framer disagree: %s -> model `%s`, python `%s`" % (op[:100], l[:80], w[:80]),
                              {"broken": {"correspondence": "Lean frameAll vs props/c16.py ref_frames", "detail": op}, "ops": [op]}, found_input=False)
    ctx.extra["framer_cross_checks"] = len(ops)


def report_property(ctx, hb, c, impl, model, fails):
    ops = c["ops"]
    if not ctx.violation_budget("property", fails[0]):
        ctx.violation("property", fails[0])
        return
    obj = {"ops": ops, "decoded": [show_op(o) for o in ops], "observed": [show_line(l) for l in impl], "expected_by_model": [show_line(l) for l in (model or [])],
           "failures": fails[:5], "category": c["cat"]}
    if c.get("reqs") is not None and len(ops) > c["first_req"] + 1:
        cls = fails[0].split(":")[0]
        setup = ops[:c["first_req"]]
        reqs = list(zip(ops[c["first_req"]:], c["reqs"]))

        def still(sub):
            out, rc, err = ctx.run_lines([hb], setup + [o for o, _ in sub], timeout=60)
            out = out + ["crash:" + str(rc)] * (len(setup) + len(sub) - len(out))
            cc = dict(c)
            cc["ops"] = setup + [o for o, _ in sub]
            cc["reqs"] = [r for _, r in sub]
            return any(f.split(":")[0] == cls for f in monitor_case(cc, out))
        try:
            if still(reqs):
                small = ddmin(reqs, still, max_tests=40)
                obj["ops"] = setup + [o for o, _ in small]
                obj["decoded"] = [show_op(o) for o in obj["ops"]]
                obj["observed"] = None
        except Exception:
            pass
    ctx.violation("property", fails[0], obj, found_input=True)


def corpus_dir():
    return os.path.join(os.path.dirname(os.path.dirname(os.path.abspath(__file__))), "corpus", "C16")


def load_corpus():
    d = corpus_dir()
    out = []
    if os.path.isdir(d):
        for fn in sorted(os.listdir(d)):
            if fn.endswith(".json"):
                c = json.load(open(os.path.join(d, fn)))
                if "ops" not in c:
                    continue          # end-to-end witnesses (F28, F31) are replayed by replay_findings
                c.setdefault("cat", "corpus")
                c.setdefault("first_req", 0)
                c.setdefault("reqs", None)
                for r in (c["reqs"] or []):
                    if r.get("conn_last") is not None:
                        r["conn_last"] = r["conn_last"].encode("latin1")
                    if r.get("want") is not None:
                        r["want"] = tuple(x.encode("latin1") if isinstance(x, str) else x for x in r["want"])
                out.append(c)
    return out
