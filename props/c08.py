"""C08 — Timers never fire early, twice, or after a successful cancel (DESIGN §7 C08)."""
import os, json
from vlib.core import Ctx, ddmin, ModelBuildError, load_known_findings

ID = "C08"
MODULES = ["IoraModel.Props.C08"]
OBLIGATIONS = [
    {"id": "C08_G_wheel", "theorem": "Iora.C08.G_wheel_shapes", "kind": "proved",
     "statement": "Gen conformance: schedule re-tests _accepting under _wheelMutex (F32); collectFromBucket re-inserts when deadline-now > tick (F21); bucket loops walk a detached vector (F22); cascade/drain fire on deadline <= now; schedule/cancel/reschedule/advance/start/drain/clearAllEntries/reset/pendingCount take _wheelMutex before their first state access and hold it over all of them; callbacks fire outside the lock"},
    {"id": "C08_W6", "theorem": "Iora.C08.W6_lifecycle_order", "kind": "proved",
     "statement": "Gen conformance: stop()/drain() clear _accepting, join the tick thread, then clear/collect entries"},
    {"id": "C08_W0", "theorem": "Iora.C08.W0_levels_in_range", "kind": "proved",
     "statement": "every reachable wheel has one tick counter per level and every entry on an existing level"},
    {"id": "C08_W0m", "theorem": "Iora.C08.W0_mask_is_mod", "kind": "proved",
     "statement": "for a geometry the constructor accepts (tick > 0, slots a power of two, levels > 0) the model's `% slots` is the code's `& _tickMask`"},
    {"id": "C08_W1", "theorem": "Iora.C08.W1_conservation", "kind": "proved",
     "statement": "for every op list: pending ids + ids that left (fired/cancelled/drained/cleared) = issued ids as multisets, issued ids distinct"},
    {"id": "C08_W1b", "theorem": "Iora.C08.W1_fires_at_most_once", "kind": "proved",
     "statement": "no id is fired twice in any history; a fired id was issued and is no longer pending"},
    {"id": "C08_W2a", "theorem": "Iora.C08.W2_cancel_iff_pending", "kind": "proved", "statement": "cancel = true iff the id is pending"},
    {"id": "C08_W2a2", "theorem": "Iora.C08.W2_resched_iff_pending", "kind": "proved", "statement": "reschedule = true iff the id is pending"},
    {"id": "C08_W2b", "theorem": "Iora.C08.W2_cancelled_never_fires", "kind": "proved",
     "statement": "after cancel = true, for every continuation, the id is never pending again and never fired"},
    {"id": "C08_W2c", "theorem": "Iora.C08.W2_false_means_gone", "kind": "proved", "statement": "cancel = false => never issued or already left"},
    {"id": "C08_W3", "theorem": "Iora.C08.W3_not_early", "kind": "proved",
     "statement": "for every history and every clock value: an entry fired by advance() carries the deadline of the caller's latest (re)schedule and now >= deadline - tick"},
    {"id": "C08_W3d", "theorem": "Iora.C08.W3_drain_not_early", "kind": "proved", "statement": "drain fires only entries with deadline <= now"},
    {"id": "C08_W4", "theorem": "Iora.C08.W4_cascade_terminates", "kind": "proved",
     "statement": "cascadeDown: detached loops are structural; the level recursion needs at most `levels` calls (fuel adequacy)"},
    {"id": "C08_W4_F22", "theorem": "Iora.C08.W4_legacy_walk_livelock", "kind": "proved", "finding": "F22",
     "statement": "on record: the UNREPAIRED cascade walk over the live bucket runs forever on two beyond-span entries (all fuel values)"},
    {"id": "C08_W5", "theorem": "Iora.C08.W5_cascade_exact", "kind": "proved", "statement": "entries fired from a higher level have deadline <= now"},
    {"id": "C08_W7a", "theorem": "Iora.C08.W7_refused", "kind": "proved", "statement": "schedule on a non-accepting wheel returns 0 and stores nothing"},
    {"id": "C08_W7b", "theorem": "Iora.C08.W7_stopped_forever", "kind": "proved",
     "statement": "after stop()/drain(), for every continuation: never accepting again, nothing linked"},
    {"id": "C08_W7c", "theorem": "Iora.C08.W7_concurrent", "kind": "proved",
     "statement": "all interleavings of schedule() with stop(): once stop() returned no entry of the racing schedule is linked (uses Gen: re-test under lock)"},
    {"id": "C08_W7_F32", "theorem": "Iora.C08.W7_without_retest_witness", "kind": "proved", "finding": "F32",
     "statement": "on record: without the re-test a schedule exists that leaves an accepted entry in the stopped wheel"},
    # ---- c08w block (round 2, wheel) ----
    {"id": "C08_W8a", "theorem": "Iora.C08.W8_deadline_never_wraps", "kind": "proved", "finding": "FC08c",
     "statement": "for every clock value 0 <= now <= 2^63-1 ns and EVERY delay (milliseconds::max()/min() included) the deadline schedule/reschedule store lies in [epoch, TimePoint::max()] and deadline - now' is representable for every later clock value; it is now+delay whenever that is a representable time point >= epoch, else (delay too large) within the last millisecond before TimePoint::max() (replaces the assumption now+delay < 2^63)"},
    {"id": "C08_W8b", "theorem": "Iora.C08.W8_request_not_early", "kind": "proved", "finding": "FC08c",
     "statement": "if the W3 guard lets an entry scheduled at `now` with delay d >= 0 fire at now', then now' > min(now+d, TimePoint::max()) - tick - 1 ms: no overflow assumption"},
    {"id": "C08_G_wheel_r2", "theorem": "Iora.C08.G_wheel_shapes_r2", "kind": "proved",
     "statement": "Gen conformance: schedule's id is ONE `_nextId.fetch_add(1,..)` and only reset() writes `_nextId` otherwise; schedule/reschedule use the saturating deadlineAfter = now + clamp(delay, -behind, ahead) (deadline kept in [epoch, TimePoint::max()]); reset(): assert STOPPED, clearAllEntries, currentTick=0, lastAdvance unset, nextId=1, state RESET; clearAllEntries empties map and every bucket under the lock; start() leaves CREATED and RESET"},
    {"id": "C08_G_kvgeom", "theorem": "Iora.C08.G_kv_wheel_geometry_valid", "kind": "proved",
     "statement": "the KVStoreConfig default TTL-wheel geometry (Gen: kvWheelTickMs/Slots/Levels) satisfies the constructor preconditions Cfg.Valid used by W0_mask_is_mod"},
    {"id": "C08_WR0", "theorem": "Iora.C08.WR0_reset_drops_nothing", "kind": "proved",
     "statement": "every life (ops + reset()s): a STOPPED wheel holds no entry and does not accept, so reset() never drops a timer W1 has not accounted for; after reset(): nothing linked, tick counters 0, lastAdvance unset, next id 1, RESET, not accepting"},
    {"id": "C08_WR1", "theorem": "Iora.C08.WR1_every_epoch", "kind": "proved",
     "statement": "W1/W1' in the current epoch of every life with any number of stop/drain -> reset -> start cycles: conservation, ids distinct, nothing fired twice, fired => issued in this epoch and no longer pending"},
    {"id": "C08_WR1w", "theorem": "Iora.C08.WR1_ids_restart_witness", "kind": "proved",
     "statement": "on record: ids are NOT unique over the life of a wheel object: after stop, reset, start the first schedule returns id 1 again (reset stores _nextId = 1)"},
    {"id": "C08_WR2", "theorem": "Iora.C08.WR2_false_means_gone_in_epoch", "kind": "proved",
     "statement": "every life: cancel = false => the id was not issued in the current epoch or has left in it"},
    {"id": "C08_WR3", "theorem": "Iora.C08.WR3_not_early_across_restarts", "kind": "proved",
     "statement": "every life: an entry fired by advance() carries the deadline of the latest (re)schedule of its id IN THE CURRENT EPOCH and now >= deadline - tick: an id issued after a restart never fires on a deadline of an earlier epoch"},
    # ---- end of c08w block ----
    {"id": "C08_G_service", "theorem": "Iora.C08.G_service_shapes", "kind": "proved",
     "statement": "Gen conformance: re-tests under _mutex, cancel/collect under _mutex, erase before hand-over, pre-announce under lock, drain restore under lock, stop() clears _accepting and publishes Stopped under lock (F23), periodic cancel guard (F41) closed by cancel() unconditionally (not only on the !entry.canceled transition); every section the model treats as atomic takes _mutex first and holds it over its accesses; handlers run outside _mutex; `_accepting = true` only inside the braces of the CAS Draining->Running"},
    {"id": "C08_S1", "theorem": "Iora.C08.S1_collected_exactly_once", "kind": "proved",
     "statement": "for every list of atomic steps: started + skipped-by-cancel + waiting = collected (multisets); no (id, firing) collected or started twice"},
    {"id": "C08_S2", "theorem": "Iora.C08.S2_collected_is_due", "kind": "proved",
     "statement": "every collected invocation has tp <= now and tp = t0 + k*iv with (t0, iv) the caller's request; k-th periodic firing not before k intervals"},
    {"id": "C08_S3a", "theorem": "Iora.C08.S3_cancelled_never_starts", "kind": "proved",
     "statement": "after cancel = true in a state reached by ANY history (incl. drain gate/sweep/timeout/restore and stop steps: a sweep marks periodic entries without closing their guards), for every continuation, no handler of the id starts (incl. invocations collected before the cancel); uses Gen: cancel closes the guard on every periodic entry it finds"},
    {"id": "C08_S3a_C08b", "theorem": "Iora.C08.S3_conditional_close_witness", "kind": "proved", "finding": "seeded C08-b",
     "statement": "on record: with the guard closed only on the `!entry.canceled` transition, a drain sweep followed by cancel(P)=true lets P's waiting invocation start"},
    {"id": "C08_S3b", "theorem": "Iora.C08.S3_false_means_not_pending", "kind": "proved",
     "statement": "cancel = false => no live record and no periodic entry of the id"},
    {"id": "C08_S3b_refuted", "theorem": "Iora.C08.C08_S3b_refuted", "kind": "refuted", "finding": "FC08a",
     "statement": "the full clause `cancel = false on a Running service => collected or cancelled with true` (C08_S3b_statement) is FALSE: a drain(ms>0) that sweeps and then times out restores Running after cancelling far-future one-shots and marking every periodic entry"},
    {"id": "C08_S3b_partial", "theorem": "Iora.C08.C08_S3b_partial", "kind": "partial", "of": "Iora.C08.C08_S3b_statement",
     "statement": "without a drain(ms>0) sweep in the history (noSweep): an issued one-shot id for which cancel answers false was collected or cancelled by a cancel that answered true"},
    {"id": "C08_S3c", "theorem": "Iora.C08.S3_record_accounting", "kind": "proved",
     "statement": "collect: every record stays, is handed over (live) or was cancelled (dropped)"},
    {"id": "C08_S3d", "theorem": "Iora.C08.S3_other_steps_keep_records", "kind": "proved", "statement": "no step other than collect removes a record"},
    {"id": "C08_S4a", "theorem": "Iora.C08.S4_drain_success", "kind": "proved",
     "statement": "drain succeeds only with no live record, executing = 0, nothing waiting, nothing running"},
    {"id": "C08_S4b", "theorem": "Iora.C08.S4_after_stop", "kind": "proved",
     "statement": "after stop() returned, for every continuation: no handler starts, state stays Stopped, never accepting (S6)"},
    {"id": "C08_S4c", "theorem": "Iora.C08.S4_stop_waits_for_handlers", "kind": "proved",
     "statement": "stop() returns only after the loop thread exited with nothing collected left to run"},
    {"id": "C08_S4d", "theorem": "Iora.C08.S4_after_drain_nothing_starts", "kind": "proved",
     "statement": "after a successful drain, for every continuation, no handler ever starts"},
    {"id": "C08_S5a", "theorem": "Iora.C08.S5_heap_order", "kind": "proved",
     "statement": "the heap of every reachable state is in heap order for less(tp,id): siftUp/siftDown/heapPop preserve it, the root is a minimum"},
    {"id": "C08_S5b", "theorem": "Iora.C08.S5_no_due_record_left", "kind": "proved",
     "statement": "when collectDueLocked's loop leaves by break/empty heap no record with tp <= now remains (no silent loss)"},
    {"id": "C08_S6", "theorem": "Iora.C08.S6_refused", "kind": "proved", "statement": "schedule* on a non-accepting service returns 0 and stores nothing"},
    {"id": "C08_S3p_refuted", "theorem": "Iora.C08.C08_S3p_refuted", "kind": "refuted", "finding": "FC08e (proposed)",
     "statement": "at instruction granularity the periodic clause (C08_S3p_statement: once the loop thread has read the guard of a waiting periodic invocation as open, no cancel(id) answers true before fn() is entered) is FALSE: the guard load and the call of the user's handler are two instructions, cancel() can return true in between"},
    {"id": "C08_S3p_partial", "theorem": "Iora.C08.C08_S3p_partial", "kind": "partial", "of": "Iora.C08.C08_S3p_statement",
     "statement": "with guard read + handler call as ONE step: after cancel(id) = true no handler of the id starts in any continuation (= S3a)"},
    {"id": "C08_S6c", "theorem": "Iora.C08.S6_concurrent", "kind": "proved",
     "statement": "scheduleAt split into its lock-free test and its locked section: whatever steps other threads take in between, once stop() has returned the locked section stores nothing and answers 0"},
    {"id": "C08_S6s", "theorem": "Iora.C08.S6_split", "kind": "proved", "statement": "the two halves back to back are scheduleAt"},
    {"id": "C08_G_sys", "theorem": "Iora.C08.G_sys_shapes", "kind": "proved",
     "statement": "Gen conformance (second layer): programTimerfd bumps a zero it_value to 1 ns; scheduleAt/schedulePeriodic/cancel/drain/stop poke() after their locked section; reset() clears _records, _periodicTimers, _heap and _nextId; stop() drains for 5000 ms"},
    {"id": "C08_R1", "theorem": "Iora.C08.R_epoch_is_fresh_run", "kind": "proved",
     "statement": "for every history with any number of stop -> reset -> start restarts: outside the Reset state, state and history of the current epoch are a run of the first-layer model from the constructor's state"},
    {"id": "C08_R2", "theorem": "Iora.C08.R_transfer", "kind": "proved", "statement": "whatever holds of every first-layer run (S1-S6) holds of the current epoch of every history with restarts"},
    {"id": "C08_R3", "theorem": "Iora.C08.R_S2_across_restarts", "kind": "proved",
     "statement": "across restarts every collected invocation is due and tp = t0 + k*iv for the request made IN THE CURRENT EPOCH: an id issued after a restart never fires at a deadline of an earlier epoch"},
    {"id": "C08_R4", "theorem": "Iora.C08.R_S1_S3_across_restarts", "kind": "proved", "statement": "S1 (exactly once) and S3a (cancel = true => never starts) in the current epoch of every history with restarts"},
    {"id": "C08_R5", "theorem": "Iora.C08.R_reset_start_is_constructor_state", "kind": "proved",
     "statement": "reset() then start() on a reachable Stopped service leaves exactly the constructor's state (uses Gen: what reset() clears)"},
    {"id": "C08_R_C08d", "theorem": "Iora.C08.R_without_heap_clear_witness", "kind": "proved", "finding": "seeded C08-d",
     "statement": "on record: a reset() that keeps _heap lets the new id 1 (due at 15 ms) be collected at the old item's 4 ms"},
    {"id": "C08_WK1", "theorem": "Iora.C08.WK_parked_has_wakeup", "kind": "proved",
     "statement": "for every history: while the loop thread sleeps in epoll_wait with a non-empty heap, the eventfd is readable, or a client still owes its poke(), or the timerfd is armed no later than the heap top (or 1 ns after the clock programTimerfd read: zero guard)"},
    {"id": "C08_WK2", "theorem": "Iora.C08.WK_due_record_wakes", "kind": "proved",
     "statement": "for every history: parked, no poke owed, a record with tp <= now, now later than the arming clock => epoll_wait returns (eventfd readable or timerfd expired): a due timer is never slept on"},
    {"id": "C08_WK_A", "theorem": "Iora.C08.WK_without_zero_guard_witness", "kind": "proved", "finding": "hand mutant A (review 2)",
     "statement": "on record: without the zero guard a due heap top programs it_value = 0, which disarms the timerfd"},
    {"id": "C08_ST1", "theorem": "Iora.C08.ST_cancel_true_never_starts", "kind": "proved",
     "statement": "SteadyTimer: after cancel() = true, for every continuation (service steps, re-arms, cancels of any SteadyTimer), the user's handler of that arm never starts"},
    {"id": "C08_ST2", "theorem": "Iora.C08.ST_cancel_false_means_not_armed", "kind": "proved",
     "statement": "SteadyTimer: cancel() = false => nothing is armed (no token), or the service-level cancel found no live record and the arm's shared state is Started (the handler ran or is running) or was already Canceled - never false-and-suppressed"},
    {"id": "C08_ST_FC08b", "theorem": "Iora.C08.ST_legacy_cancel_witness", "kind": "proved", "finding": "FC08b",
     "statement": "on record: the unrepaired cancel() (flag stored first, answer = the service-level answer) answers false for an arm whose record is collected but not started, and the handler never runs"},
]
ANCHOR_FILES = ["include/iora/core/timing_wheel.hpp", "include/iora/core/timer.hpp"]
NS = 1000000

FINDING_FC08A = "drain-timeout-sweep-drops-schedules"


def known_keys():
    keys = {d.get("key") for d in load_known_findings() if d.get("kind") == "finding" and d.get("property") == ID}
    extra = os.environ.get("VERIF_KNOWN_FINDINGS_EXTRA")
    if extra and os.path.exists(extra):
        import re
        for l in open(extra):
            if l.startswith("finding:") and "property=%s" % ID in l:
                m = re.search(r"key=(\S+)", l)
                if m:
                    keys.add(m.group(1))
    return keys


GEOMETRIES = [(10, 8, 2), (1, 4, 3), (5, 16, 1), (20, 8, 2), (10, 64, 2), (1000, 256, 4), (3, 2, 4), (7, 1, 2), (2, 4, 2)]


# ------------------------------------------------------------------ wheel case generation
MAX_DELAY_MS = 2 ** 63 - 1      # std::chrono::milliseconds::max(): the deadline saturates (FC08c), no overflow assumption left
BASE_NS = 2592000000000000      # the harness's constant virtual epoch (kBaseNs, 30 days of uptime); op `base <ns>` moves it
TP_MAX = 2 ** 63 - 1            # steady_clock::time_point::max() in ns
YEAR_MS = 365 * 86400 * 1000


def huge_delay(rng, now_abs=BASE_NS):
    """boundary family around the end of the clock's range: milliseconds::max(), 2^63/10^6 ms +- 1 (the largest delay whose ns
    conversion fits), the room that is left at `now_abs` +- 1 ms, 292/300 years, and the negative mirror images"""
    room = (TP_MAX - now_abs) // NS
    d = rng.choice([2 ** 63 - 1, 2 ** 63 - 2, TP_MAX // NS, TP_MAX // NS + 1, TP_MAX // NS - 1, room, room + 1, room - 1, room + rng.range(2, 10 ** 6),
                    room - rng.range(2, 10 ** 6), 300 * YEAR_MS, 292 * YEAR_MS, 292 * YEAR_MS + 1, 292 * YEAR_MS - 1, 293 * YEAR_MS, 8 * 10 ** 12, 10 ** 13,
                    rng.range(10 ** 12, 2 ** 63 - 1)])
    if rng.chance(1, 6):
        behind = now_abs // NS      # the span back to the clock's epoch: the lower clamp bound of the repaired deadline
        return rng.choice([-d, -behind, -behind - 1, -behind + 1, -behind - rng.range(2, 10 ** 6)])
    return d


def delay_patterns(rng, tick, slots, levels):
    if rng.chance(1, 30):
        return huge_delay(rng)
    return min(delay_patterns0(rng, tick, slots, levels), MAX_DELAY_MS)


def deadline_after(now_abs, delay_ms):
    """reference for the REPAIRED deadline (FC08c), independent of model and code: now + delay kept between the clock's epoch and the end
    of its range, at the millisecond granularity of std::clamp(delay, -behind, ahead)"""
    ahead = (TP_MAX - now_abs) // NS
    behind = now_abs // NS
    return now_abs + max(-behind, min(delay_ms, ahead)) * NS


def delay_patterns0(rng, tick, slots, levels):
    """structured delays: past, zero, sub-tick, tick multiples +-1, level boundaries, beyond the wheel span"""
    span = tick * (slots ** levels)
    k = rng.below(12)
    if k == 0:
        return -rng.range(0, 3 * tick)
    if k == 1:
        return 0
    if k == 2:
        return rng.range(0, tick)
    if k == 3:
        return tick * rng.range(1, max(1, slots - 1)) + rng.choice([-1, 0, 0, 1])
    if k == 4:
        j = rng.range(1, levels)
        return tick * (slots ** j) + rng.choice([-tick, -1, 0, 1, tick])
    if k == 5:
        j = rng.range(1, levels)
        return tick * (slots ** j) * rng.range(1, max(1, slots - 1)) + rng.choice([-1, 0, 1])
    if k == 6:
        return span * rng.choice([1, 1, 2, 3]) + rng.choice([-tick, -1, 0, 1, tick, span // 2])
    if k == 7:
        return rng.range(0, min(span * 2, 400 * tick))
    return rng.range(0, min(span, 40 * tick))


def gen_wheel_case(rng, idx, geom=None, nops=None):
    tick, slots, levels = geom or rng.choice(GEOMETRIES)
    span_ticks = slots ** levels
    ops = ["reset %d %d %d" % (tick, slots, levels)]
    clk = 0
    issued = 0
    style = rng.below(8)   # 0-3 regular ticking with hiccups, 4 stall-heavy, 5 long jumps, 6 lifecycle, 7 sub-ms jitter
    if rng.chance(1, 25):
        ops.append("sched %d" % rng.range(0, 50))   # before start(): refused
    if rng.chance(1, 40):
        ops.append("adv %d" % clk)                   # advance() before start(): _lastAdvanceTime unset
    if rng.chance(1, 6):
        clk += rng.range(0, 5 * tick * NS)
        ops.append("clk %d" % clk)
    ops.append("start")
    n = nops or rng.range(8, 70)
    stopped = False
    for _ in range(n):
        k = rng.below(100)
        if k < 30:
            ops.append("sched %d" % delay_patterns(rng, tick, slots, levels))
            issued += 1
        elif k < 62:
            # advance: on time, slightly late, late by several ticks, or very late
            j = rng.below(20)
            if style == 7:
                step = tick * NS + rng.choice([0, 1, 999999, 1000000, 500000, rng.range(0, 2 * NS)])
            elif j < 11:
                step = tick * NS + rng.choice([0, 0, 0, 1, 100000, NS // 2, rng.range(0, NS)])
            elif j < 14:
                step = tick * NS * 2 - rng.choice([1, 0, NS // 2, 1000])          # just below / at the catch-up threshold
            elif j < 18 or style == 4:
                step = tick * NS * rng.range(2, 3 * slots) + rng.range(0, tick * NS - 1)
            elif j < 19:
                step = tick * NS * rng.range(1, min(2 * span_ticks, 3000))
            else:
                step = rng.choice([0, 1, tick * NS - 1, tick * NS // 2])              # early call of the public advance()
            if style == 5 and rng.chance(1, 3):
                step = tick * NS * rng.range(slots, min(2 * span_ticks + slots, 4000))
            clk += step
            ops.append("adv %d" % clk)
        elif k < 70:
            # stall: time passes without a tick, then something is scheduled
            clk += tick * NS * rng.range(1, 3 * slots) + rng.choice([0, 0, rng.range(0, tick * NS)])
            ops.append("clk %d" % clk)
            ops.append("sched %d" % delay_patterns(rng, tick, slots, levels))
            issued += 1
        elif k < 80:
            ops.append("cancel %d" % (rng.range(1, issued) if issued and rng.chance(9, 10) else rng.range(0, issued + 3)))
        elif k < 90:
            i = rng.range(1, issued) if issued and rng.chance(9, 10) else rng.range(0, issued + 3)
            ops.append("resched %d %d" % (i, delay_patterns(rng, tick, slots, levels)))
        elif k < 94:
            ops.append("pending")
        elif k < 98:
            ops.append("dump")
        elif style == 6 or rng.chance(1, 4):
            j = rng.below(4)
            if j == 0:
                ops.append("stop")
            elif j == 1:
                ops.append("drain %d" % rng.choice([30000, 1, 0, -1]))
            elif j == 2:
                ops.append("race %d" % delay_patterns(rng, tick, slots, levels))
            else:
                ops.append("start")
            stopped = stopped or j < 3
            if j < 3:
                issued += 1 if j == 2 else 0
                ops.append("sched %d" % rng.range(0, 5 * tick))
                if not stopped:
                    issued += 1
        if len(ops) % 7 == 0:
            ops.append("dump")
    ops.append("pending")
    ops.append("dump")
    # let everything that is still pending come due: a long run of on-time ticks, then a final count
    if not stopped and rng.chance(2, 3):
        for _ in range(rng.range(1, 6)):
            clk += tick * NS * rng.range(1, 2 * slots)
            ops.append("adv %d" % clk)
        ops.append("pending")
        # ... and, when the wheel is small enough, far enough for every timer with a moderate deadline to be overdue by more
        # than two full revolutions (the monitor then insists that it has fired: nothing is silently dropped)
        if span_ticks <= 1200:
            for _ in range(4):
                clk += tick * NS * rng.range(span_ticks, span_ticks + 2 * slots) + rng.choice([0, 0, 1, NS // 2])
                ops.append("adv %d" % clk)
            ops.append("pending")
    return {"cat": "wheel", "ops": ops, "geom": [tick, slots, levels], "style": style, "idx": idx}


def boundary_cases():
    """deterministic witnesses of the candidate defects and level-boundary placements (always run)"""
    cs = []
    # (witnesses of F21 / F22 / F32 live in corpus/C08/*.json and always run first)
    # level boundaries on every geometry
    for (t, s, l) in GEOMETRIES:
        ops = ["reset %d %d %d" % (t, s, l), "start", "vclock"]
        for j in range(0, l + 1):
            for d in (-1, 0, 1):
                ops.append("sched %d" % (t * (s ** j) + d))
        ops.append("dump")
        clk = 0
        for i in range(1, min(2 * s ** l + 2 * s, 700)):
            clk += t * NS
            ops.append("adv %d" % clk)
            if i % 16 == 0:
                ops.append("dump")
        ops += ["pending", "dump"]
        cs.append({"cat": "wheel-boundary", "geom": [t, s, l], "ops": ops})
    return cs


# ---- c08w block (round 2): restart epochs, concurrent schedulers, end-of-clock deadlines ---------------------------------------
def kv_default_geometry():
    """the KVStoreConfig default TTL-wheel geometry, from the regenerated Gen/Timer.lean (theorem G_kv_wheel_geometry_valid is about
    the same values); None if the file does not carry them"""
    import re
    from vlib.core import LEAN
    try:
        txt = open(os.path.join(LEAN, "IoraModel", "Gen", "Timer.lean")).read()
        g = [int(re.search(r"def %s : Nat := (\d+)" % n, txt).group(1)) for n in ("kvWheelTickMs", "kvWheelSlots", "kvWheelLevels")]
    except (OSError, AttributeError):
        return None
    t, sl, lv = g
    # what the harness's `reset` accepts (a default outside it fails G_kv_wheel_geometry_valid / is reported by the build)
    return tuple(g) if t > 0 and sl > 0 and sl & (sl - 1) == 0 and sl <= 65536 and 0 < lv <= 8 else None


def gen_wheel_restart_case(rng, idx):
    """stop()/drain() -> reset() -> start() cycles: entries pending at the stop, ids restarting at 1 in the new epoch, deadlines of the
    old epoch that come due in the new one, reset() refused on a wheel that is not STOPPED, advance() between reset() and start(),
    tick counters that were mid-revolution at the stop; sprinkled with concurrent schedulers (`mtsched`) and end-of-clock delays"""
    tick, slots, levels = rng.choice([g for g in GEOMETRIES if g[1] ** g[2] <= 5000] or GEOMETRIES)
    ops = ["reset %d %d %d" % (tick, slots, levels)]
    clk = 0
    if rng.chance(1, 5):
        b = rng.choice([1, NS, BASE_NS, TP_MAX - 10 ** 16, TP_MAX - 5 * 10 ** 15, 4 * 10 ** 18, rng.range(1, 4 * 10 ** 18)])
        ops.append("base %d" % b)
    else:
        b = BASE_NS
    if rng.chance(1, 6):
        ops.append("wreset")            # CREATED: not-stopped
    ops.append("start")
    for ep in range(rng.range(1, 4)):
        issued = 0
        old = []
        for _ in range(rng.range(2, 14)):
            k = rng.below(100)
            if k < 45:
                d = huge_delay(rng, b + clk) if rng.chance(1, 8) else delay_patterns0(rng, tick, slots, levels)
                ops.append("sched %d" % d)
                issued += 1
                old.append(d)
            elif k < 75:
                clk += tick * NS * rng.choice([1, 1, 1, 2, rng.range(1, 2 * slots)]) + rng.choice([0, 0, 1, NS // 2])
                ops.append("adv %d" % clk)
            elif k < 82 and issued:
                ops.append("cancel %d" % rng.range(1, issued))
            elif k < 90 and issued:
                ops.append("resched %d %d" % (rng.range(1, issued), huge_delay(rng, b + clk) if rng.chance(1, 6) else delay_patterns0(rng, tick, slots, levels)))
            elif k < 94:
                ops.append("mtsched %d %d %d" % (rng.choice([2, 4, 4, 8]), rng.choice([50, 200, 1000]), rng.choice([0, tick, 5 * tick, 2 ** 63 - 1])))
                issued = None           # ids continue after the threads' ids: stop picking ids by count
                break
            else:
                ops.append("dump")
        if rng.chance(1, 5):
            ops.append("wreset")        # RUNNING: not-stopped, nothing may change
            ops.append("dump")
        ops.append(rng.choice(["stop", "stop", "drain 30000", "drain 0", "race %d" % rng.range(0, 20 * tick)]))
        ops += ["pending", "sched %d" % rng.range(0, 3 * tick)]          # refused
        if rng.chance(1, 4):
            ops.append("start")         # STOPPED: start() does nothing
            ops.append("sched 1")
        ops.append("wreset")
        ops.append("dump")
        if rng.chance(1, 4):
            ops.append("wreset")        # RESET: not-stopped
        if rng.chance(1, 3):
            ops.append("sched 5")       # RESET, not started yet: refused
        if rng.chance(1, 4):
            clk += rng.range(0, 3 * tick * NS)
            ops.append("adv %d" % clk)  # advance() on the reset wheel: _lastAdvanceTime unset
        if rng.chance(1, 2):
            clk += rng.range(0, 4 * tick * NS)
            ops.append("clk %d" % clk)
        ops.append("start")
        # new epoch: the same ids again, mostly with LATER deadlines than their namesakes of the old epoch, whose deadlines now come due
        n_new = rng.range(1, 6)
        for j in range(n_new):
            dold = old[j] if j < len(old) and abs(old[j]) < 10 ** 9 else 0
            ops.append("sched %d" % (max(dold, 0) + tick * rng.range(2, 3 * slots)))
        ops.append("dump")
        for _ in range(rng.range(1, 2 * slots + 2)):
            clk += tick * NS + rng.choice([0, 0, 1, NS // 3])
            ops.append("adv %d" % clk)
        if rng.chance(1, 2):
            ops.append("cancel %d" % rng.range(1, n_new))
        ops.append("pending")
    ops += ["pending", "dump"]
    span_ticks = slots ** levels
    for _ in range(3):
        clk += tick * NS * rng.range(span_ticks, span_ticks + 2 * slots)
        ops.append("adv %d" % clk)
    ops += ["pending", "dump"]
    return {"cat": "wheel-restart", "ops": ops, "geom": [tick, slots, levels], "idx": idx}


def boundary_cases_r2():
    """deterministic end-of-clock and restart cases (always run)"""
    cs = []
    room = (TP_MAX - BASE_NS) // NS
    for (t, s, l) in [(10, 8, 2), (1, 4, 3), (1000, 256, 4)]:
        ops = ["reset %d %d %d" % (t, s, l), "start", "vclock"]
        for d in (2 ** 63 - 1, 2 ** 63 - 2, TP_MAX // NS + 1, TP_MAX // NS, TP_MAX // NS - 1, room + 1, room, room - 1, 300 * YEAR_MS, 292 * YEAR_MS + 1, 292 * YEAR_MS,
                  292 * YEAR_MS - 1, -(2 ** 63 - 1), -room - 1, -room, -room + 1, -(BASE_NS // NS) - 1, -(BASE_NS // NS), -(BASE_NS // NS) + 1, 50 * t):
            ops.append("sched %d" % d)
        ops += ["dump", "resched 20 %d" % (2 ** 63 - 1), "resched 1 %d" % (3 * t)]
        clk = 0
        for i in range(1, 4 * s + 3):
            clk += t * NS
            ops.append("adv %d" % clk)
        ops += ["pending", "dump", "drain 30000", "wreset", "start", "sched %d" % (2 ** 63 - 1), "adv %d" % (clk + t * NS), "adv %d" % (clk + 2 * t * NS), "pending", "dump",
                "race %d" % (2 ** 63 - 1)]
        cs.append({"cat": "wheel-endofclock", "geom": [t, s, l], "ops": ops})
    # the clock itself near the end of its range: little room is left, moderate delays saturate
    for b in (TP_MAX - 10 ** 16, TP_MAX - 5 * 10 ** 15):
        rm = (TP_MAX - b) // NS
        ops = ["reset 10 8 2", "base %d" % b, "start"] + ["sched %d" % d for d in (rm - 1, rm, rm + 1, 2 * rm, 30, -rm, -rm - 1, -2 * rm)] + ["dump"]
        clk = 0
        for i in range(1, 20):
            clk += 10 * NS
            ops.append("adv %d" % clk)
        ops += ["pending", "dump", "stop"]
        cs.append({"cat": "wheel-endofclock", "geom": [10, 8, 2], "ops": ops})
    # restart: an old-epoch entry is pending at the stop; the same id in the new epoch has a later deadline
    for stopop in ("stop", "drain 30000", "drain 0"):
        ops = ["reset 10 8 2", "wreset", "start", "sched 30", "sched 500", "adv 10000000", "wreset", stopop, "pending", "sched 10", "wreset", "dump", "wreset", "sched 10",
               "adv 15000000", "start", "sched 200", "sched 40", "dump", "mtsched 4 200 50", "sched 25", "dump"]
        clk = 15000000
        for i in range(30):
            clk += 10 * NS
            ops.append("adv %d" % clk)
        ops += ["pending", "dump", "cancel 1", "cancel 2", "stop", "wreset", "start", "sched 0", "adv %d" % (clk + 10 * NS), "pending", "dump"]
        cs.append({"cat": "wheel-restart", "geom": [10, 8, 2], "ops": ops})
    return cs
# ---- end of c08w block ------------------------------------------------------------------------------------------------------------


# ------------------------------------------------------------------ wheel property monitor (implementation output only)
def parse_fired(tok):
    return [] if tok in ("-", "") else [int(x) for x in tok.split(",")]


def monitor_wheel(c, impl):
    """Replays the case against what the implementation answered; knows only the ops it generated (clock, delays)."""
    tick = c["geom"][0] * NS
    bad = []
    clk = 0
    deadline = {}      # id -> ns, latest successful (re)schedule
    pending = set()
    gone = {}          # id -> how it left: fired | cancelled | drained | stopped
    accepting = False
    life = "created"   # created | running | stopped | reset  (TimingWheelState as the op list implies it)
    base = BASE_NS     # virtual epoch of the harness clock (absolute now = base + clk)
    epoch = 0          # number of successful reset() calls: ids restart at 1 in every epoch
    last_adv = None    # _lastAdvanceTime
    overdue = {}       # id -> ticks processed by advance() calls whose `now` was at or past the timer's deadline
    for op, ans in zip(c["ops"], impl):
        t = op.split()
        if ans.startswith("crash:") or ans.startswith("throw"):
            bad.append("W0: the wheel crashes/throws: %s -> %s" % (op, ans))
            break
        if ans == "hang":
            bad.append("W4: the call does not return (watchdog: 3 s of CPU time or 60 s wall inside one call): %s (livelock under _wheelMutex)" % op)
            break
        if ans == "bad-op":
            continue
        if ans == "clock-not-interposed":
            bad.append("W0: the wheel does not read the virtual clock (harness interposition broken)")
            break
        if (t[0] in ("adv", "drain") and "f=" not in ans) or (t[0] in ("sched", "pending") and not ans.lstrip("-").isdigit()):
            bad.append("W0: malformed answer: %s -> %s" % (op, ans))
            break
        if t[0] == "reset":
            clk = 0
            base = BASE_NS
        elif t[0] == "clk":
            clk = int(t[1])
        elif t[0] == "base":
            base = int(t[1])
        elif t[0] == "start":
            if life in ("created", "reset"):
                accepting = True
                last_adv = clk
                life = "running"
        elif t[0] == "wreset":
            if ans == "ok":
                if life != "stopped":
                    bad.append("W7: reset() went through on a wheel that is not STOPPED (%s)" % life)
                if pending:
                    bad.append("W1: %d timer(s) still pending when reset() is reached although stop()/drain() returned: %s" % (len(pending), sorted(pending)[:6]))
                # a new epoch: ids restart at 1; nothing of the old epoch may be linked, fire, or be cancellable any more
                epoch += 1
                deadline, gone, overdue = {}, {}, {}
                pending = set()
                last_adv = None
                life = "reset"
            elif ans == "not-stopped":
                if life == "stopped":
                    bad.append("W7: the wheel is not STOPPED after stop()/drain() returned (reset() impossible)")
            else:
                bad.append("W0: malformed answer: %s -> %s" % (op, ans))
        elif t[0] == "mtsched":
            kv = dict(x.split("=") for x in ans.split() if "=" in x)
            if not all(k in kv and kv[k].lstrip("-").isdigit() for k in ("acc", "dups", "pending_short", "cancelled")):
                bad.append("W0: malformed answer: %s -> %s" % (op, ans))
                break
            want = int(t[1]) * int(t[2]) if accepting else 0
            if int(kv["dups"]) != 0:
                bad.append("W1: id issued twice: %s concurrent schedule() calls returned an id another call also returned (%s)" % (kv["dups"], op))
            if int(kv["pending_short"]) != 0:
                bad.append("W1: pendingCount() grew by %s less than the number of accepted schedule() calls: accepted timers share an id / were dropped (%s)" % (kv["pending_short"], op))
            if int(kv["acc"]) != want:
                bad.append("W7: %s of %d concurrent schedule() calls accepted on a wheel that is %saccepting" % (kv["acc"], int(t[1]) * int(t[2]), "" if accepting else "not "))
            if int(kv["cancelled"]) + int(kv["dups"]) != int(kv["acc"]):
                bad.append("W2: cancel() = false for %d timer(s) that were just scheduled and cannot have fired" % (int(kv["acc"]) - int(kv["dups"]) - int(kv["cancelled"])))
        elif t[0] == "sched":
            i = int(ans)
            if i != 0:
                if not accepting:
                    bad.append("W7: schedule() on a wheel that is not accepting returned id %d (it can never fire): %s" % (i, op))
                if i in deadline:
                    bad.append("W1: id %d issued twice" % i)
                deadline[i] = deadline_after(base + clk, int(t[1])) - base
                pending.add(i)
            elif accepting:
                bad.append("W7: schedule() refused on an accepting wheel: %s" % op)
        elif t[0] == "cancel":
            i = int(t[1])
            if ans == "1":
                if i not in pending:
                    bad.append("W2: cancel(%d) = true but the timer was not pending (%s)" % (i, gone.get(i, "never issued")))
                pending.discard(i)
                gone[i] = "cancelled"
            elif i in pending:
                bad.append("W2: cancel(%d) = false although the timer is pending" % i)
        elif t[0] == "resched":
            i = int(t[1])
            if ans == "1":
                if i not in pending:
                    bad.append("W2: reschedule(%d) = true but the timer was not pending (%s)" % (i, gone.get(i, "never issued")))
                pending.add(i)
                deadline[i] = deadline_after(base + clk, int(t[2])) - base
                overdue.pop(i, None)
            elif i in pending:
                bad.append("W2: reschedule(%d) = false although the timer is pending" % i)
        elif t[0] == "adv":
            clk = int(t[1])
            # ticks this call processes (the documented catch-up rule), from the clock values alone
            if last_adv is None:
                nt = 1
            else:
                nt = max(1, int((clk - last_adv) / NS) // c["geom"][0]) if clk >= last_adv else 1
            last_adv = clk
            for i in pending:
                if clk >= deadline[i]:
                    overdue[i] = overdue.get(i, 0) + nt
            f = parse_fired(ans.split("f=")[1].split()[0])
            for i in f:
                if i in gone:
                    bad.append("W1/W2: timer %d fires after it %s" % (i, "already fired" if gone[i] == "fired" else "was " + gone[i]))
                elif i not in pending:
                    bad.append("W1: unknown id %d fires" % i)
                elif deadline[i] - clk > tick:
                    bad.append("W3: timer %d fires %d ns before its deadline (more than one tick = %d ns early): scheduled deadline %d, fired at %d"
                               % (i, deadline[i] - clk, tick, deadline[i], clk))
                pending.discard(i)
                gone[i] = "fired"
        elif t[0] == "drain":
            f = parse_fired(ans.split("f=")[1].split()[0])
            for i in f:
                if i in gone or i not in pending:
                    bad.append("W1: drain fires %d which is not pending" % i)
                elif deadline[i] > clk:
                    bad.append("W3: drain fires timer %d before its deadline" % i)
                gone[i] = "fired"
                pending.discard(i)
            for i in list(pending):
                gone[i] = "drained"
            pending.clear()
            accepting = False
            life = "stopped"
        elif t[0] == "stop":
            for i in list(pending):
                gone[i] = "stopped"
            pending.clear()
            accepting = False
            life = "stopped"
        elif t[0] == "race":
            kv = dict(x.split("=") for x in ans.split())
            for i in list(pending):
                gone[i] = "stopped"
            pending.clear()
            accepting = False
            life = "stopped"
            if kv.get("id", "0") != "0" and kv.get("pending", "0") != "0":
                bad.append("W7: schedule() racing stop() returned id %s and the entry is still linked after stop() returned (pending=%s): accepted by a stopped wheel, never fires"
                           % (kv["id"], kv["pending"]))
        elif t[0] == "pending":
            if int(ans) != len(pending):
                bad.append("W1: pendingCount() = %s but %d scheduled timers have neither fired nor been cancelled/drained (%s)"
                           % (ans, len(pending), sorted(pending)[:6]))
            # never silently dropped: an entry whose deadline has passed fires when its bucket comes round again, i.e. within one
            # revolution of the top level (`span` level-0 ticks) counted in ticks that advance() processed with now >= deadline
            span = c["geom"][1] ** c["geom"][2]
            for i in sorted(pending):
                if overdue.get(i, 0) > span + 1:
                    bad.append("W1: timer %d (deadline %d) is still pending although advance() has processed %d ticks (> one full revolution = %d) since its deadline passed: silently dropped (pendingCount still counts it)"
                               % (i, deadline[i], overdue[i], span))
                    break
        elif t[0] == "dump":
            if "!" in ans:
                bad.append("W1: entry coordinates / id map inconsistent with the bucket lists: %s" % ans[:200])
    return bad


def wheel_hyp_stats(c, impl):
    """what a case exercised (for the evidence file)"""
    st = {"fired": 0, "catchup": 0, "resched_ok": 0, "cancel_ok": 0}
    for op, ans in zip(c["ops"], impl):
        if op.startswith("adv") and "f=" in ans:
            st["fired"] += len(parse_fired(ans.split("f=")[1].split()[0]))
        if op.startswith("cancel") and ans == "1":
            st["cancel_ok"] += 1
        if op.startswith("resched") and ans == "1":
            st["resched_ok"] += 1
    return st


# ------------------------------------------------------------------ service (deterministic, single-stepped loop thread)
MS = 1000000


def gen_svc_case(rng, idx):
    """ops for harness/c08_svc.cpp: the real TimerService with its loop thread parked in epoll_wait between `wake`s"""
    k = rng.below(100)
    if k < 10:
        return gen_svc_sweep_case(rng, idx)
    if k < 20:
        return gen_svc_stop_case(rng, idx)
    if k < 32:
        return gen_svc_restart_case(rng, idx)
    if k < 44:
        return gen_svc_wakeup_case(rng, idx)
    if k < 56:
        return gen_svc_steady_case(rng, idx)
    c = gen_svc_plain_case(rng, idx)
    if rng.chance(1, 3):
        # the kernel's rule instead of a forced pass: `tick` leaves epoll_wait only if the eventfd is readable or the timerfd expired
        c["ops"] = [("tick" if o == "wake" and rng.chance(3, 4) else o) for o in c["ops"]]
        c["cat"] = "svc-tick"
    return c


def gen_svc_plain_case(rng, idx):
    style = rng.below(7)     # 0-2 mixed, 3 heap stress (many timers, ties), 4 gates + concurrent cancel/schedule, 5 small limits, 6 drains
    if style == 5:
        lim = (rng.range(1, 4), rng.range(0, 2), rng.choice([50, 5, 86400000]))
    else:
        lim = (10000, 1000, 86400000)
    ops = ["reset %d %d %d" % lim]
    clk = 0
    issued = 0
    blocked_possible = False
    n = rng.range(6, 40)
    for _ in range(n):
        k = rng.below(100)
        if style == 3 and k < 55:
            k = 0
        if k < 34:
            base = clk + rng.choice([0, 0, MS, 2 * MS, 3 * MS, 5 * MS, rng.range(-3, 30) * MS, rng.range(0, 20 * MS), -MS, 7 * MS + 1, 3 * MS - 1])
            if style == 5 and rng.chance(1, 4):
                base = clk + rng.choice([49, 50, 51, 5, 6]) * MS
            kind = "n"
            j = rng.below(12)
            if (style == 4 and j < 5) or j == 0:
                kind = "g"
                blocked_possible = True
            elif j == 1 and issued:
                kind = "x%d" % rng.range(1, issued + 1)
            elif j == 2:
                kind = "t"
            ops.append("at %d %s" % (base, kind))
            issued += 1
        elif k < 44:
            iv = rng.choice([1, 2, 3, 5, 7, 10]) * MS + rng.choice([0, 0, 0, 1, 500000])
            kind = "n"
            j = rng.below(10)
            if j == 0 or (style == 4 and j < 3):
                kind = "g"
                blocked_possible = True
            elif j == 1 and issued:
                kind = "x%d" % rng.range(1, issued + 1)
            elif j == 2:
                kind = "t"
            ops.append("per %d %s" % (iv, kind))
            issued += 1
        elif k < 60:
            ops.append("cancel %d" % (rng.range(1, issued) if issued and rng.chance(9, 10) else rng.range(0, issued + 2)))
        elif k < 85:
            clk += rng.choice([0, MS, MS, 2 * MS, 3 * MS, 5 * MS, rng.range(0, 12 * MS), 1, MS - 1])
            ops.append("clk %d" % clk)
            ops.append("wake")
        elif k < 93:
            ops.append("release")
        elif k < 96:
            ops.append("inflight")
        else:
            ops.append("wake")
        if rng.chance(1, 40):
            # scheduleAt on another thread, held between its lock-free test and its locked section while other calls go on
            ops.append("rsched %d" % (clk + rng.choice([0, 1, 5, 30]) * MS))
            for _ in range(rng.below(3)):
                ops.append(rng.choice(["at %d n" % (clk + 2 * MS), "cancel %d" % rng.range(0, issued + 1), "wake", "drain 0", "drain 5", "dwait"]))
            ops.append("rgo")
            issued += 1
        if style == 6 and rng.chance(1, 5):
            # drain(ms) on a helper thread: gate, sweep, wait; it completes / times out / keeps waiting as the clock and the loop go on
            j = rng.below(10)
            if j < 5:
                ops.append("drain %d" % rng.choice([0, 1, 2, 3, 5, 10, 20, 50, 1000, 5000]))
            elif j < 8:
                ops.append("dwait")
            else:
                clk += rng.choice([MS, 3 * MS, 10 * MS, 20 * MS, 50 * MS])
                ops.append("clk %d" % clk)
    # wind down: open every gate, cancel the periodic timers, let everything that is due fire
    for _ in range(6):
        ops.append("release")
    if style == 6:
        ops.append("dwait")
    ops.append("inflight")
    return {"cat": "svc", "ops": ops, "idx": idx, "style": style, "limits": list(lim), "kind": "svc"}


def gen_svc_sweep_case(rng, idx):
    """the drain-sweep window: a periodic invocation waits in the loop's ready list behind a gated handler while a drain() (which
    then completes, keeps waiting, or times out and puts the service back to Running) sweeps the periodic entries; cancel(P) follows"""
    ops = ["reset 10000 1000 86400000"]
    ids = 0
    noise = rng.below(3)
    for _ in range(noise):
        ops.append(rng.choice(["at %d n" % (rng.range(40, 900) * MS), "per %d n" % (rng.range(30, 90) * MS), "at %d n" % (rng.range(6000, 9000) * MS)]))
        ids += 1
    iv = rng.choice([2, 3, 5, 7]) * MS
    variant = rng.below(3)
    if variant == 2:
        # gate G first, then a handler that itself cancels P, then P: all in one batch
        ops.append("at %d g" % rng.choice([0, MS, iv]))
        g = ids + 1
        ops.append("at %d x%d" % (iv, ids + 3))
        ops.append("per %d n" % iv)
        p_id = ids + 3
        ids += 3
    else:
        ops.append("at %d g" % rng.choice([0, MS, iv - 1, iv]))
        g = ids + 1
        ops.append("per %d %s" % (iv, rng.choice(["n", "n", "g"])))
        p_id = ids + 2
        ids += 2
    clk = iv + rng.choice([0, 0, 1, MS])
    ops += ["clk %d" % clk, "wake"]                       # G blocks; P's invocation waits in `ready`
    ms = rng.choice([1, 2, 5, 20, 1000, 5000])
    ops.append("drain %d" % ms)                           # gate + sweep: P's periodic entry is marked, its guard is not touched
    how = rng.below(4)
    if how == 1:
        clk += ms * MS + rng.choice([0, 1, MS])           # the drain times out: service back to Running
        ops.append("clk %d" % clk)
        if rng.chance(1, 2):
            ops.append("dwait")
    elif how == 2:
        clk += ms * MS
        ops += ["clk %d" % clk, "dwait", "drain %d" % rng.choice([1, 5, 1000])]   # a second sweep after the first one timed out
    elif how == 3 and rng.chance(1, 2):
        ops.append("at %d n" % (clk + MS))                # refused: draining
    if variant != 2:
        ops.append("cancel %d" % p_id)                    # true: the entry is still there (marked by the sweep)
        if rng.chance(1, 3):
            ops.append("cancel %d" % p_id)
    ops.append("release")                                 # G returns; the loop thread goes on with the batch
    for _ in range(rng.range(1, 4)):
        clk += rng.choice([iv, 2 * iv, MS, 30 * MS])
        ops += ["clk %d" % clk, "wake"]
        if rng.chance(1, 3):
            ops.append("release")
    for _ in range(4):
        ops.append("release")
    clk += 6000 * MS
    ops += ["clk %d" % clk, "dwait", "inflight"]
    return {"cat": "svc-sweep", "ops": ops, "idx": idx, "style": 7, "limits": [10000, 1000, 86400000], "kind": "svc"}


def gen_svc_stop_case(rng, idx):
    """stop() on a helper thread (flag, halt, join, publish) against the single-stepped loop thread: its internal drain(5000) completing
    or timing out, the exit branch of the loop collecting and running what is due, a drain() on a third thread held just before its
    restore section while stop() completes, schedule/cancel/drain/stop after stop() has returned"""
    ops = ["reset 10000 1000 86400000"]
    clk = 0
    pat = rng.below(6)
    n_noise = rng.below(3)
    for _ in range(n_noise):
        ops.append(rng.choice(["at %d n" % (rng.range(1, 40) * MS), "at %d n" % (rng.range(5200, 9000) * MS), "at %d n" % (rng.range(100, 4000) * MS),
                               "per %d n" % (rng.choice([700, 1300, 2500]) * MS)]))
    racer = rng.chance(1, 2)
    if racer:
        # a scheduleAt() on another thread has passed its lock-free `_accepting` test and is held before `_mutex`
        ops.append("rsched %d" % (clk + rng.choice([1, 30, 6000, 90000000]) * MS))
    if pat == 0:
        # idle (or nearly idle) service
        if rng.chance(1, 2):
            clk += rng.range(0, 50) * MS
            ops += ["clk %d" % clk, "wake"]
        ops += ["stop", "swait", "wake", "swait"]
    elif pat == 1:
        # a handler is running while stop() drains; it ends, the drain completes, the loop exits on the next pass
        ops += ["at %d g" % (clk + MS), "clk %d" % (clk + MS), "wake", "stop", "swait"]
        clk += MS
        if rng.chance(1, 2):
            ops.append("cancel %d" % rng.range(1, n_noise + 1))
        ops += ["release", "swait", "wake", "swait"]
    elif pat == 2:
        # the internal drain(5000) times out behind a running handler; a timer inside the drain window is due by then: the exit branch
        # of the loop collects and runs it after the handler has returned
        t1 = clk + rng.choice([1, 2, 5]) * MS
        t2 = t1 + rng.range(1, 4500) * MS
        ops += ["at %d g" % t1, "at %d %s" % (t2, rng.choice(["n", "n", "g"])), "at %d n" % (t1 + rng.range(5100, 8000) * MS), "clk %d" % t1, "wake", "stop"]
        clk = t1 + 5000 * MS + rng.choice([0, 1, MS, 700 * MS])
        ops += ["clk %d" % clk, "swait", "release", "release", "swait", "wake"]
    elif pat == 3:
        # a live timer inside the window, no handler running: the loop collects it after epoll_wait, the drain completes, stop() halts the
        # loop, the next pass takes the exit branch
        t1 = clk + rng.range(1, 3000) * MS
        ops += ["at %d n" % t1, "stop", "clk %d" % t1, "wake", "swait", "wake", "swait"]
        clk = t1
    elif pat == 4:
        # drain() on another thread times out and is held just before its restore section; stop() runs to the end; then the restore
        ms = rng.choice([1, 5, 20])
        t1 = clk + MS
        ops += ["at %d g" % t1, "clk %d" % t1, "wake", "drain %d park" % ms]
        clk = t1 + ms * MS + rng.choice([0, MS])
        ops += ["clk %d" % clk, "dwait", "stop", "swait", "release", "swait", "dgo", "dwait"]
    else:
        # a drain() is waiting when stop() is called: stop() skips its own drain
        t1 = clk + MS
        ops += ["at %d g" % t1, "clk %d" % t1, "wake", "drain %d" % rng.choice([0, 50, 5000]), "stop", "swait", "release", "swait", "dwait"]
        clk = t1
    if racer:
        ops.append("rgo")        # the locked section re-tests `_accepting`: refused (stop() has cleared it, or published Stopped)
    # after stop() has returned: everything is refused, nothing runs
    for _ in range(rng.range(1, 5)):
        k = rng.below(6)
        if k == 0:
            ops.append("at %d n" % (clk + rng.range(0, 5) * MS))
        elif k == 1:
            ops.append("per %d n" % (rng.range(1, 5) * MS))
        elif k == 2:
            ops.append("cancel %d" % rng.range(1, 4))
        elif k == 3:
            clk += rng.range(1, 9000) * MS
            ops += ["clk %d" % clk, "wake"]
        elif k == 4:
            ops.append("drain %d" % rng.choice([0, 5]))
        else:
            ops.append("stop")
    ops += ["release", "dwait", "swait", "inflight"]
    return {"cat": "svc-stop", "ops": ops, "idx": idx, "style": 8, "limits": [10000, 1000, 86400000], "kind": "svc"}


def gen_svc_restart_case(rng, idx):
    """stop() -> reset() -> start() on ONE service object (the ids restart at 1): what the old epoch leaves behind - the heap item of a
    cancelled timer whose deadline has not passed, a live timer beyond stop()'s 5 s drain window, periodic entries - must not touch the
    timers of the new epoch; reset()/start()/stop() in the wrong state are refused / no-ops"""
    ops = ["reset 10000 1000 86400000"]
    clk = 0
    epochs = rng.range(1, 3)
    for ep in range(epochs):
        d_old = []
        n = rng.range(1, 5)
        ids = 0
        for _ in range(n):
            k = rng.below(6)
            if k <= 1:
                d = clk + rng.range(2, 400) * MS
                ops += ["at %d n" % d, "cancel %d" % (ids + 1)]      # tombstone: the heap item stays until its deadline
                ids += 1
                d_old.append(d)
            elif k == 2:
                d = clk + rng.range(5200, 9000) * MS                  # beyond the drain window of stop(): swept, stays in the heap
                ops.append("at %d n" % d)
                ids += 1
                d_old.append(d)
            elif k == 3:
                ops.append("per %d n" % (rng.choice([700, 1300, 2500, 6000]) * MS))
                ids += 1
            elif k == 4:
                d = clk + rng.range(1, 40) * MS
                ops.append("at %d %s" % (d, rng.choice(["n", "t"])))
                ids += 1
                if rng.chance(1, 2):
                    clk = d + rng.choice([0, 1, MS])
                    ops += ["clk %d" % clk, rng.choice(["wake", "tick"])]
            else:
                ops.append(rng.choice(["svcreset", "start", "wake", "tick", "inflight"]))     # reset() while Running is refused, start() is a no-op
        if rng.chance(1, 5):
            ops += ["stop", "svcreset", "swait", "wake", "swait"]     # reset() while stop() is still joining: refused (Draining)
        else:
            ops += ["stop", "swait", "wake", "swait"]
        if rng.chance(1, 4):
            ops.append(rng.choice(["start", "stop", "at %d n" % (clk + MS), "wake"]))    # Stopped: start refused, stop refused, schedule refused
        ops.append("svcreset")
        if rng.chance(1, 3):
            ops.append(rng.choice(["svcreset", "stop", "at %d n" % (clk + MS), "cancel 1", "drain 0", "wake", "inflight"]))   # Reset: everything refused
        ops.append("start")
        # the new epoch: ids restart; deadlines LATER than what the old epoch left in the heap
        base = max(d_old) if d_old else clk
        m = rng.range(1, 4)
        new_d = []
        for j in range(m):
            if rng.chance(1, 4):
                ops.append("per %d %s" % (rng.choice([3, 50, 600]) * MS, "n"))
            else:
                d = base + rng.range(1, 900) * MS
                ops.append("at %d n" % d)
                new_d.append(d)
        for d in sorted(set(d_old)):
            if d > clk:
                clk = d
                ops += ["clk %d" % clk, rng.choice(["wake", "tick", "wake"])]    # an old deadline passes: nothing of the new epoch may fire
        for d in sorted(new_d):
            if d > clk and rng.chance(2, 3):
                clk = d + rng.choice([0, 1])
                ops += ["clk %d" % clk, rng.choice(["wake", "tick"])]
        if rng.chance(1, 2):
            ops.append("cancel %d" % rng.range(1, m + 1))
    clk += 2 * MS
    ops += ["clk %d" % clk, "tick", "inflight"]
    return {"cat": "svc-restart", "ops": ops, "idx": idx, "style": 9, "limits": [10000, 1000, 86400000], "kind": "svc"}


def gen_svc_wakeup_case(rng, idx):
    """the wake-up plumbing under the kernel's rule (`tick`): a timer comes due while the loop thread is busy with a handler, so the top of
    the loop programs the timerfd with the heap top ALREADY due (zero guard: 1 ns, never 0 = disarm); earlier deadlines scheduled while
    the loop sleeps (poke); cancelled tops; and at the end the clock runs ahead and every wake-up the kernel owes is delivered"""
    ops = ["reset 10000 1000 86400000"]
    clk = 0
    ids = 0
    for _ in range(rng.range(1, 4)):
        k = rng.below(5)
        if k <= 1:
            t1 = clk + rng.choice([0, 1, 2, 5]) * MS
            t2 = t1 + rng.choice([0, 1, MS, 2 * MS])
            ops += ["at %d g" % t1, "at %d %s" % (t2, rng.choice(["n", "n", "t"]))]
            ids += 2
            clk = max(clk, t1)
            ops += ["clk %d" % clk, "tick"]                 # the gate handler blocks; timer 2 is not collected unless t2 <= t1
            clk = max(clk, t2) + rng.choice([0, 1, MS])
            ops += ["clk %d" % clk, "release"]              # back at the top of the loop with the heap top already due
            clk += rng.choice([1, 1, 2, MS])
            ops += ["clk %d" % clk, "tick", "tick"]
        elif k == 2:
            d = clk + rng.range(5, 50) * MS
            ops += ["at %d n" % d, "tick"]                  # the poke wakes the loop, it arms for d and sleeps
            e = clk + rng.range(1, 4) * MS
            ops += ["at %d n" % e]                          # an earlier deadline: poked again
            ids += 2
            if rng.chance(1, 2):
                ops.append("tick")
            clk = e + rng.choice([0, 1])
            ops += ["clk %d" % clk, "tick"]
            clk = d
            ops += ["clk %d" % clk, "tick", "tick"]
        elif k == 3:
            d = clk + rng.range(2, 9) * MS
            ops += ["at %d n" % d, "at %d n" % (d + MS), "tick", "cancel %d" % (ids + 1), "tick"]
            ids += 2
            clk = d + MS
            ops += ["clk %d" % clk, "tick"]
        else:
            iv = rng.choice([2, 3, 5]) * MS
            ops += ["per %d n" % iv, "tick"]
            ids += 1
            for _ in range(rng.range(1, 4)):
                clk += iv + rng.choice([0, 1, MS])
                ops += ["clk %d" % clk, "tick"]
            ops.append("cancel %d" % ids)
    clk += rng.range(1, 50) * MS
    ops += ["clk %d" % clk, "tick", "tick", "tick", "inflight"]
    return {"cat": "svc-wakeup", "ops": ops, "idx": idx, "style": 10, "limits": [10000, 1000, 86400000], "kind": "svc"}


def gen_svc_steady_case(rng, idx):
    """SteadyTimer: arm / cancel / re-arm in every window - pending; collected but not started (its record waits in the loop's ready
    list behind a gate handler: the FC08b window); started (the handler itself is a gate); after it ran; refused arm"""
    lim = (rng.range(1, 3), 1000, 86400000) if rng.chance(1, 8) else (10000, 1000, 86400000)
    ops = ["reset %d %d %d" % lim]
    clk = 0
    for _ in range(rng.range(1, 4)):
        i = rng.below(3)
        k = rng.below(7)
        t1 = clk + rng.choice([1, 2, 5]) * MS
        if k == 0:
            ops += ["sat %d %d n" % (i, t1), "scancel %d" % i, "scancel %d" % i]                       # pending: true, then nothing armed
            clk = t1
            ops += ["clk %d" % clk, "wake"]
        elif k <= 2:
            ops += ["at %d g" % t1, "sat %d %d %s" % (i, t1 + rng.choice([0, 0, 1]), rng.choice(["n", "g"])), "clk %d" % (t1 + 1), "wake"]
            clk = t1 + 1
            ops += [rng.choice(["scancel %d" % i, "scancel %d" % i, "sat %d %d n" % (i, clk + 3 * MS)])]   # collected, not started
            ops += ["release", "release"]
            ops += ["scancel %d" % i]
        elif k == 3:
            ops += ["sat %d %d g" % (i, t1), "clk %d" % t1, "wake", "scancel %d" % i, "release", "scancel %d" % i]   # started: false, runs once
            clk = t1
        elif k == 4:
            ops += ["sat %d %d n" % (i, t1), "clk %d" % t1, "tick", "scancel %d" % i]                  # already ran: false
            clk = t1
        elif k == 5:
            ops += ["sat %d %d n" % (i, t1), "sat %d %d n" % (i, t1 + 2 * MS), "clk %d" % t1, "wake"]   # re-arm replaces the first wait
            clk = t1 + 2 * MS
            ops += ["clk %d" % clk, "wake", "scancel %d" % i]
        else:
            ops += ["at %d g" % t1, "clk %d" % t1, "wake", "drain %d" % rng.choice([0, 5]), "sat %d %d n" % (i, t1 + MS), "scancel %d" % i,
                    "release", "dwait"]                                                                   # refused arm: nothing armed, cancel false
            clk = t1 + 6 * MS
            ops += ["clk %d" % clk, "dwait"]
        if rng.chance(1, 3):
            ops.append(rng.choice(["at %d n" % (clk + MS), "cancel %d" % rng.range(1, 4), "tick", "inflight"]))
    for _ in range(4):
        ops.append("release")
    clk += 10 * MS
    ops += ["clk %d" % clk, "wake", "release", "release", "dwait", "inflight"]
    return {"cat": "svc-steady", "ops": ops, "idx": idx, "style": 11, "limits": list(lim), "kind": "svc"}


def gen_svc_winddown(c, impl_so_far=None):
    return c


def svc_boundary_cases():
    cs = []
    # (witnesses of F41 live in corpus/C08/*.json)
    # cancel versus collect for a one-shot: collected behind a gate => cancel answers false and the handler runs once
    cs.append({"cat": "svc-vclock", "kind": "svc", "limits": [10000, 1000, 86400000],
               "ops": ["reset 10000 1000 86400000", "vclock", "clk 5000000", "vclock", "at 1000000 n", "wake", "vclock", "inflight"]})
    cs.append({"cat": "svc-cancel-collect", "kind": "svc", "limits": [10000, 1000, 86400000],
               "ops": ["reset 10000 1000 86400000", "at 1000000 g", "at 1000000 n", "at 2000000 n", "clk 1000000", "wake", "cancel 2", "cancel 3", "release", "clk 5000000", "wake", "inflight"]})
    # heap order with ties and many entries
    ops = ["reset 10000 1000 86400000"]
    for i in range(40):
        ops.append("at %d n" % (((i * 7919) % 13) * MS))
    for t in range(0, 14):
        ops += ["clk %d" % (t * MS), "wake"]
    ops.append("inflight")
    cs.append({"cat": "svc-heap", "kind": "svc", "limits": [10000, 1000, 86400000], "ops": ops})
    # periodic catch-up: the loop wakes late, several firings are collected in one pass
    cs.append({"cat": "svc-periodic", "kind": "svc", "limits": [10000, 1000, 86400000],
               "ops": ["reset 10000 1000 86400000", "per 2000000 n", "per 3000000 n", "clk 1999999", "wake", "clk 2000000", "wake", "clk 13000000", "wake", "cancel 1", "clk 20000000", "wake", "cancel 2", "inflight"]})
    return cs


def monitor_svc(c, impl):
    """safety monitor on the implementation's own answers (never early / at most once / not after a successful cancel /
    cancel=false => runs exactly once / nothing lost, no wake-up slept on / nothing after stop() / a Stopped service refuses / nothing
    of an earlier epoch touches the timers issued after a restart), knowing only the generated ops.  A failure that falls under the
    recorded finding FC08a (a drain(ms>0) that sweeps and then times out has destroyed schedules of a service that is Running again) is
    returned with the prefix `FC08a:`; the caller counts it under the finding if that is listed in KNOWN_FINDINGS.txt and reports it
    as a violation otherwise."""
    bad = []
    clk = 0
    E = {}             # bookkeeping of the CURRENT epoch of the service (ids restart at 1 after reset())

    def new_epoch():
        E.clear()
        E.update(dict(info={}, starts={}, cancelled_ok={}, cancel_false=set(), swept=set(), swept_per=set(), stop_swept=set(), sched_idx={},
                      last_collect_clk=None, last_collect_idx=None, lost_after_restore=False, dead=set()))
    new_epoch()
    blocked = False
    life = "R"
    stop_returned = False
    tok_of = {}        # SteadyTimer index -> service id of its armed wait (None: nothing armed)
    racer_tp = None
    last_pass_clk = 0  # clock at the last op after which the loop thread went (back) to sleep: it armed the timerfd then
    busy_seen = False

    def on_events(evs, now):
        nonlocal blocked
        info, starts, cancelled_ok = E["info"], E["starts"], E["cancelled_ok"]
        for e in evs:
            if e[0] == "s":
                i = int(e[1:])
                if i not in info:
                    bad.append("S1: handler of unknown id %d starts (not issued in this epoch of the service)" % i)
                    continue
                starts[i] = starts.get(i, 0) + 1
                d = info[i]
                if stop_returned:
                    bad.append("S4: handler of timer %d starts after stop() returned" % i)
                if cancelled_ok.get(i):
                    bad.append("S3: handler of timer %d starts after cancel(%d) returned true" % (i, i))
                if i in E["dead"]:
                    bad.append("S3: handler of SteadyTimer wait %d starts after the timer was re-armed (asyncWait cancels the previous wait)" % i)
                if i in E["swept"] or (i in E["stop_swept"] and not d["periodic"]):
                    bad.append("S3: handler of timer %d starts after a drain() sweep had cancelled it" % i)
                if d["periodic"]:
                    due = d["t0"] + starts[i] * d["iv"]
                    if now < due:
                        bad.append("S2: firing %d of periodic timer %d starts at %d, before %d = schedule time + %d intervals" % (starts[i], i, now, due, starts[i]))
                else:
                    if starts[i] > 1:
                        bad.append("S1: one-shot handler %d starts %d times" % (i, starts[i]))
                    if now < d["tp"]:
                        bad.append("S2: one-shot timer %d starts at %d, before its time point %d" % (i, now, d["tp"]))
                blocked = d["kind"] == "g"
            elif e[0] == "e":
                blocked = False
            elif e[0] == "c":
                j, r = e[1:].split("=")
                note_cancel(int(j), r == "1")

    def note_cancel(i, ok):
        info, starts, cancelled_ok = E["info"], E["starts"], E["cancelled_ok"]
        if ok:
            if i not in info:
                bad.append("S3: cancel(%d) = true for an id that was never issued" % i)
            elif cancelled_ok.get(i):
                bad.append("S3: cancel(%d) = true twice" % i)
            elif not info[i]["periodic"] and starts.get(i, 0) > 0:
                bad.append("S3: cancel(%d) = true after the one-shot handler already started" % i)
            cancelled_ok[i] = True
        elif i in info and not cancelled_ok.get(i):
            E["cancel_false"].add(i)

    def sweep(ms, into, into_per):
        horizon = clk + ms * MS
        for i, d in E["info"].items():
            if E["cancelled_ok"].get(i) or i in E["dead"]:
                continue
            if d["periodic"]:
                into_per.add(i)
            elif E["starts"].get(i, 0) == 0 and d["tp"] > horizon:
                into.add(i)

    def close_epoch():
        """end of an epoch (reset() or end of case; all gates were opened): cancel=false => ran exactly once; nothing silently lost"""
        info, starts, cancelled_ok = E["info"], E["starts"], E["cancelled_ok"]
        lost = [i for i in sorted(E["swept"]) if starts.get(i, 0) == 0 and not cancelled_ok.get(i)]
        if E["lost_after_restore"] and (lost or [i for i in E["swept_per"] if not cancelled_ok.get(i)]):
            bad.append("FC08a: drain(ms) swept %d one-shot timer(s) %s and marked %d periodic timer(s), timed out and put the service back to Running: "
                       "they never fire and cancel() on them answers false" % (len(lost), lost[:5], len([i for i in E["swept_per"] if not cancelled_ok.get(i)])))
        exempt = E["swept"] | E["stop_swept"] | E["dead"]
        if not blocked:
            for i in E["cancel_false"]:
                if not info[i]["periodic"] and not cancelled_ok.get(i) and i not in exempt and starts.get(i, 0) != 1:
                    bad.append("S3: cancel(%d) = false on a running service but the handler ran %d times (must be exactly once)" % (i, starts.get(i, 0)))
            if E["last_collect_clk"] is not None and not busy_seen:
                for i, d in info.items():
                    if not d["periodic"] and not cancelled_ok.get(i) and i not in exempt and d["tp"] <= E["last_collect_clk"] and starts.get(i, 0) == 0 \
                            and E["sched_idx"][i] < E["last_collect_idx"]:
                        bad.append("S5: one-shot timer %d (time point %d) was due at the last pass of the loop (%d) and never started: silently lost" % (i, d["tp"], E["last_collect_clk"]))

    def issue(i, t, k, rec):
        if i != 0:
            if stop_returned:
                bad.append("S6: %s after stop() returned was accepted (id %d): it can never fire" % (t[0], i))
            if i in E["info"]:
                bad.append("S1: id %d issued twice" % i)
            E["sched_idx"][i] = k
            E["info"][i] = rec

    for k, (op, ans) in enumerate(zip(c["ops"], impl)):
        t = op.split()
        if ans.startswith("crash:") or ans.startswith("throw") or ans == "hang":
            bad.append("S0: the service crashes/throws/hangs: %s -> %s" % (op, ans))
            return bad
        if ans in ("bad-op", "busy", "idle"):
            busy_seen = busy_seen or ans == "busy"
            continue
        if ans == "clock-not-interposed":
            bad.append("S0: the service does not read the virtual clock (harness interposition broken)")
            return bad
        head = ans.split()[0]
        prev_life = life
        m = [x for x in ans.split() if x.startswith("life=")]
        acc = [x for x in ans.split() if x.startswith("acc=")]
        if m:
            life = m[0][5:]
            if life in ("S", "Z") and acc and acc[0] == "acc=1":
                bad.append("S6: the service is Stopped and accepting (a later schedule is accepted and can never fire): %s -> %s" % (op, " ".join(ans.split()[-6:])))
            if life == "R" and prev_life == "D" and (E["swept"] or E["swept_per"]) and not stop_returned:
                E["lost_after_restore"] = True
        if t[0] == "clk":
            clk = int(t[1])
        elif t[0] == "at":
            issue(int(head), t, k, {"periodic": False, "tp": int(t[1]), "kind": t[2][0]})
        elif t[0] == "per":
            issue(int(head), t, k, {"periodic": True, "t0": clk, "iv": int(t[1]), "kind": t[2][0]})
        elif t[0] == "rsched":
            if head == "r=parked":
                racer_tp = int(t[1])
            elif head.startswith("r=") and head[2:].isdigit() and int(head[2:]) != 0:
                bad.append("S0: the racing scheduleAt was not held before its locked section: %s -> %s" % (op, head))
        elif t[0] == "rgo":
            if head.startswith("r=") and head[2:].isdigit() and racer_tp is not None:
                issue(int(head[2:]), ["scheduleAt racing stop()/drain()"], k, {"periodic": False, "tp": racer_tp, "kind": "n"})
                racer_tp = None
        elif t[0] == "sat":
            j = int(t[1])
            old = tok_of.get(j)
            if old is not None:
                E["dead"].add(old)      # asyncWait() cancels the previous wait: if its handler has not started it never will
            i = int(head)
            issue(i, t, k, {"periodic": False, "tp": int(t[2]), "kind": t[3][0], "steady": j})
            tok_of[j] = i if i != 0 else None
        elif t[0] == "scancel":
            j = int(t[1])
            tok = tok_of.get(j)
            if head == "1":
                if tok is None:
                    bad.append("S3: SteadyTimer::cancel() = true although nothing is armed")
                else:
                    note_cancel(tok, True)
            elif tok is not None:
                note_cancel(tok, False)   # false => the handler has started: it runs exactly once (checked at the end of the epoch)
            tok_of[j] = None
        elif t[0] == "cancel":
            note_cancel(int(t[1]), head == "1")
        elif t[0] in ("wake", "release", "tick"):
            if head.startswith("ev="):
                evs = head[3:].split(",") if head != "ev=-" else []
                on_events(evs, clk)
                # a pass of the loop collects after epoll_wait (`wake`); with _running == false it collects again in the exit branch
                # once the handlers of the pass are done (`wake`, or the `release` that ends the last gate of the pass)
                if t[0] in ("wake", "tick") or ("run=0" in ans.split() and not blocked):
                    E["last_collect_clk"] = clk
                    E["last_collect_idx"] = k
                if not blocked:
                    last_pass_clk = clk
            elif head == "sleep":
                # the kernel's rule: neither the eventfd nor the timerfd is ready.  No live one-shot timer may be overdue then (the
                # loop armed the timerfd for the heap top, or 1 ns ahead, when it went to sleep - at an earlier clock value)
                if life in ("R", "D") and not blocked and clk > last_pass_clk:
                    exempt = E["swept"] | E["stop_swept"] | E["dead"]
                    for i, d in E["info"].items():
                        if not d["periodic"] and not E["cancelled_ok"].get(i) and i not in exempt and E["starts"].get(i, 0) == 0 and d["tp"] <= clk - 1:
                            bad.append("S5: lost wake-up: the loop thread sleeps in epoll_wait with the timerfd %s and no poke pending although one-shot timer %d "
                                       "(time point %d) is overdue at %d: it never fires" % ([x for x in ans.split() if x.startswith("arm=")], i, d["tp"], clk))
                            break
        elif t[0] == "drain" and head in ("d=wait", "d=ok", "d=timeout", "d=parked") and int(t[1]) > 0:
            sweep(int(t[1]), E["swept"], E["swept_per"])
        elif t[0] == "stop" and head in ("s=drainwait", "s=join", "s=ok") and prev_life == "R":
            sweep(5000, E["stop_swept"], E["stop_swept"])
        elif t[0] == "svcreset":
            if head == "r=ok":
                if prev_life != "S":
                    bad.append("S4: reset() succeeded on a service that is not Stopped (life=%s)" % prev_life)
                close_epoch()
                new_epoch()
                tok_of.clear()
        elif t[0] == "start":
            if head == "st=ok" and prev_life == "Z":
                stop_returned = False
                blocked = False
                last_pass_clk = clk
        if life == "S":
            stop_returned = True      # Stopped is published by stop() just before it returns; events of this answer came before
    close_epoch()
    return bad


# ------------------------------------------------------------------ real-time part (safety monitors only)
def rt_scenarios(rng, scale):
    """one batch of real-time scenarios (all run concurrently in one harness process): kept small enough that 16 cores are not
    oversubscribed by sanitizer-instrumented threads; the thorough tier runs several batches one after the other"""
    sc = []
    for _ in range(8):
        sc.append(("svc", rng.below(10 ** 6), 300))
    for _ in range(3):
        sc.append(("wakeup", rng.below(10 ** 6), 350))
    for _ in range(4):
        sc.append(("svcdrain", rng.below(10 ** 6), 250))
    for _ in range(6):
        sc.append(("wheel", rng.below(10 ** 6), 600))
    return sc


def monitor_rt(kind, text):
    """C08 safety monitors over one real-time history (times: ns on the steady clock)."""
    bad = []
    if text.startswith("throw:") or not text or text == "-":
        return ["RT0: scenario failed: %s" % text[:100]], {}
    tick = 5 * NS if kind == "wheel" else 0
    sched, refused, cancels, resch, H, X = {}, [], {}, {}, {}, []
    end = 0
    for e in text.split(";"):
        f = e.split(":")
        if f[0] == "S":
            i = int(f[1])
            rec = {"tcall": int(f[2]), "tret": int(f[3]), "delay": int(f[4]), "per": f[5] == "P"}
            if i == 0:
                refused.append(rec)
            else:
                if i in sched:
                    bad.append("RT1: id %d issued twice" % i)
                sched[i] = rec
        elif f[0] == "C":
            cancels.setdefault(int(f[1]), []).append({"tcall": int(f[2]), "tret": int(f[3]), "ok": f[4] == "1"})
        elif f[0] == "R":
            resch.setdefault(int(f[1]), []).append({"tcall": int(f[2]), "tret": int(f[3]), "delay": int(f[4]), "ok": f[5] == "1"})
        elif f[0] == "H":
            H.setdefault(int(f[1]), []).append((int(f[2]), int(f[3])))
        elif f[0] == "X":
            X.append({"what": f[1], "tcall": int(f[2]), "tret": int(f[3]), "ok": f[4] == "1"})
        elif f[0] == "Z":
            end = int(f[2])
    stop = [x for x in X if x["what"] == "stop"]
    drains = [x for x in X if x["what"] == "drain"]
    stats = {"scheduled": len(sched), "handlers": sum(len(v) for v in H.values()), "cancel_ok": sum(1 for v in cancels.values() for c in v if c["ok"]),
             "refused_after_stop": 0}
    for i, runs in H.items():
        runs.sort()
        if i not in sched:
            bad.append("RT1: a handler runs for id %d which schedule() never returned (refused or unknown)" % i)
            continue
        sc = sched[i]
        if sc["per"]:
            for k, (ts, te) in enumerate(runs, 1):
                if ts < sc["tcall"] + k * sc["delay"]:
                    bad.append("RT2: firing %d of periodic timer %d starts %d ns before k intervals after schedulePeriodic was called" % (k, i, sc["tcall"] + k * sc["delay"] - ts))
        else:
            if len(runs) > 1:
                bad.append("RT1: one-shot handler %d ran %d times" % (i, len(runs)))
            cands = [sc] + [r for r in resch.get(i, []) if r["ok"]]
            last = [c for c in cands if not any(o["tcall"] > c["tret"] for o in cands if o is not c)]
            earliest = min(c["tcall"] + c["delay"] for c in last)
            ts = runs[0][0]
            if ts < earliest - tick:
                bad.append("RT2: timer %d starts %d ns before its deadline (allowed: %d ns)" % (i, earliest - ts, tick))
        oks = [c for c in cancels.get(i, []) if c["ok"]]
        if len(oks) > 1:
            bad.append("RT3: cancel(%d) answered true %d times" % (i, len(oks)))
        for c in oks:
            # one-shot (service and wheel): exact - the decision is taken under the mutex, cancel = true excludes a later start.
            # periodic: the guard is checked a few instructions before the handler body; a thread descheduled right there (sanitizer
            # build, loaded machine) could start up to a scheduling quantum later: 5 ms, far below the >= 2 ms handlers that open the window
            margin = 5000000 if sc["per"] else 0
            late = [ts for ts, te in runs if ts > c["tret"] + margin]
            if late:
                bad.append("RT3: handler of %stimer %d starts %d ns after cancel(%d) returned true" % ("periodic " if sc["per"] else "", i, late[0] - c["tret"], i))
    for x in stop + [d for d in drains if d["ok"]]:
        for i, runs in H.items():
            for ts, te in runs:
                if ts > x["tret"]:
                    bad.append("RT4: handler %d starts %d ns after %s() returned" % (i, ts - x["tret"], x["what"]))
                elif te > x["tret"] and x["what"] == "stop":
                    bad.append("RT4: handler %d is still running %d ns after stop() returned" % (i, te - x["tret"]))
    if stop:
        t = stop[0]["tret"]
        for i, sc in sched.items():
            if sc["tcall"] > t:
                bad.append("RT5: schedule() called after stop() returned was accepted (id %d): it can never fire" % i)
        stats["refused_after_stop"] = sum(1 for r in refused if r["tcall"] > t)
        # nothing silently lost while the service ran: generous slack (a watchdog, not a latency claim)
        # (effective since round 3: one-shot delays are <= 40 ms (service) / 120 ms (wheel) and every scenario ends with a tail longer than
        # delay + slack; a failure of this class is re-run alone before it is reported, see run())
        slack = (250 if kind == "wheel" else 120) * NS
        horizon = min([stop[0]["tcall"]] + [d["tcall"] for d in drains])
        for i, sc in sched.items():
            if sc["per"]:
                continue
            if any(c["ok"] for c in cancels.get(i, [])) or any(r["ok"] for r in resch.get(i, [])):
                continue
            if sc["tret"] + sc["delay"] + slack < horizon and kind != "f23":
                stats["rt6_checked"] = stats.get("rt6_checked", 0) + 1
                if i in H:
                    # `wakeup` scenarios (two timers, nobody poking, no load): a timer that started only `slack` after its deadline was slept
                    # on - it fired because stop() poked the loop at the end: the wake-up for it was lost.  (Not in the other scenarios: their
                    # periodic handlers deliberately overload the single loop thread, and lateness is no C08 clause; not for the wheel: a
                    # timer filed on a higher level can be late by design.)
                    if kind == "wakeup" and min(ts for ts, te in H[i]) > sc["tret"] + sc["delay"] + slack:
                        bad.append("RT6: one-shot timer %d (delay %d ns) started %d ns after its deadline: the loop thread slept on a due timer until something else woke it"
                                   % (i, sc["delay"], min(ts for ts, te in H[i]) - sc["tret"] - sc["delay"]))
                    continue
                bad.append("RT6: one-shot timer %d (delay %d ns, scheduled at %d) never fired although the service ran until %d" % (i, sc["delay"], sc["tret"], horizon))
    else:
        bad.append("RT0: no stop event in the history")
    return bad, stats


# ------------------------------------------------------------------ run
def replay(ctx):
    """Re-run a replay file: wheel / service op lists go through lockstep + monitor again, a real-time scenario is re-run."""
    obj = json.load(open(ctx.replay))
    ctx.translate(["timer"])
    ctx.lake_build(MODULES)
    still = False
    if obj.get("scenario"):
        hr = ctx.build_harness("harness/c08_rt.cpp", sanitize=True)
        if hr:
            out, rc, err = ctx.run_lines([hr], [obj["scenario"]], timeout=600)
            kind = obj["scenario"].split()[0]
            fails, _ = monitor_rt(kind, out[0].partition(" | ")[2] if out else "")
            for f in fails:
                print("PROPERTY FAILS:", f[:300])
            still = bool(fails)
    elif obj.get("ops"):
        ops = obj["ops"]
        svc = ops[0].split()[0] == "reset" and len(ops[0].split()) == 4 and obj.get("category", "").startswith("svc") or obj.get("kind") == "svc"
        src, comp, mon = ("harness/c08_svc.cpp", "tsvc", monitor_svc) if svc else ("harness/c08_wheel.cpp", "wheel", monitor_wheel)
        hb = ctx.build_harness(src, sanitize=True)
        if hb:
            c = {"cat": obj.get("category", "corpus"), "ops": ops, "geom": obj.get("geom") or [int(x) for x in ops[0].split()[1:4]], "limits": obj.get("limits")}
            if c["limits"] is None:
                c.pop("limits")
            (c, impl, model), = ctx.lockstep(comp, hb, [c])
            for o, a, b in zip(ops, impl, model):
                print("op    %s\n impl  %s\n model %s" % (o[:200], a[:200], b[:200]))
            fails = mon(c, impl)
            for f in fails:
                print("PROPERTY FAILS:", f[:300])
            still = bool(fails) or impl != model
    else:
        print("replay: nothing to run (kind=%s): %s" % (obj.get("kind"), obj.get("what", "")[:200]))
        still = bool(ctx.violations)
    print("replay: %s" % ("still failing" if still or ctx.violations else "no longer failing"))
    import shutil
    shutil.rmtree(ctx.work, ignore_errors=True)
    return 1 if still or ctx.violations else 0


KNOWN = set()


def run(ctx: Ctx):
    if ctx.replay:
        return replay(ctx)
    KNOWN.clear()
    KNOWN.update(known_keys())
    quick = ctx.tier == "quick"
    scale = 1 if quick else 20
    rng = ctx.rng
    ctx.translate(["timer"])
    ok_build = ctx.lake_build(MODULES)
    if ok_build:
        ctx.audit(MODULES, OBLIGATIONS)
        if not quick:
            ctx.leanchecker(MODULES + ["IoraModel.Lemmas.TimingWheel", "IoraModel.Model.TimingWheel", "IoraModel.Lemmas.TimerService", "IoraModel.Lemmas.TimerHeap", "IoraModel.Lemmas.TimerDrain", "IoraModel.Model.TimerService",
                                       "IoraModel.Model.TimerSys", "IoraModel.Lemmas.TimerSys", "IoraModel.Model.SteadyTimer", "IoraModel.Lemmas.SteadyTimer",
                                       "IoraModel.Lemmas.TimingWheelSat", "IoraModel.Lemmas.TimingWheelRestart"])
    else:
        ctx.cov["obligations"] = len(OBLIGATIONS)
    # the three harnesses are independent translation units: compile them side by side
    from concurrent.futures import ThreadPoolExecutor
    with ThreadPoolExecutor(3) as ex:
        futs = [ex.submit(ctx.build_harness, src, sanitize=True) for src in ("harness/c08_wheel.cpp", "harness/c08_svc.cpp", "harness/c08_rt.cpp")]
        hb, hs, hr = [f.result() for f in futs]
    dist = {}
    # the model drivers depend on Model/* and Gen/* only: the correspondence run goes ahead even when a theorem no longer builds,
    # so that a broken proof obligation comes with a failing input whenever the monitors can find one
    have_model = True
    try:
        ctx.model_argv("wheel")
        ctx.model_argv("tsvc")
    except ModelBuildError:
        have_model = False
    cut = {}
    if hb and have_model:
        r = rng.fork("wheel")
        kvg = kv_default_geometry()
        if kvg and kvg not in GEOMETRIES:
            GEOMETRIES.append(kvg)
        ctx.extra["kv_default_wheel_geometry"] = {"from_gen": kvg, "in_lockstep_geometries": kvg in GEOMETRIES}
        first = load_corpus("wheel") + boundary_cases() + boundary_cases_r2()
        r2 = rng.fork("wheel-restart")
        cases = first + [gen_wheel_case(r, i) for i in range(3000 * scale)] + [gen_wheel_restart_case(r2, i) for i in range(300 * scale)]
        tot = {"fired": 0, "cancel_ok": 0, "resched_ok": 0}
        cut["wheel"] = run_phase(ctx, "wheel", hb, cases, len(first), 600, monitor_wheel, "wheel lockstep (harness/c08_wheel.cpp vs Model/TimingWheel.lean)",
                                 dist, rng, lambda c, impl: wheel_hyp_stats(c, impl), tot, lambda st: st["fired"] > 0)
        ctx.extra["wheel_totals"] = tot
    if hs and have_model:
        r = rng.fork("svc")
        first = load_corpus("svc") + svc_boundary_cases()
        cases = first + [gen_svc_case(r, i) for i in range(1500 * scale)]
        tot = {"starts": 0, "cancel_ok": 0, "gate_blocks": 0, "drains": 0, "drain_timeouts": 0, "tick_sleeps": 0, "tick_wakes_by_poke": 0, "tick_wakes_by_timerfd": 0,
               "armed_for_heap_top": 0, "armed_by_zero_guard": 0, "restarts": 0, "reset_refused": 0, "old_heap_items_at_restart": 0, "racer_parked": 0,
               "racer_refused_under_lock": 0, "racer_accepted": 0, "steady_arms": 0, "steady_arms_refused": 0, "steady_cancel_true": 0,
               "steady_cancel_true_after_collect": 0, "steady_cancel_false": 0, "throwing_handlers": 0, "stops_completed": 0}
        cut["svc"] = run_phase(ctx, "tsvc", hs, cases, len(first), 400, monitor_svc, "service lockstep (harness/c08_svc.cpp vs Model/TimerService.lean)",
                               dist, rng, svc_stats, tot, lambda st: st["starts"] > 0)
        ctx.extra["svc_totals"] = tot
        for kk, vv in tot.items():
            dist["svc-branch:" + kk] = vv
    if hs and have_model:
        # recorded finding FC08a: its witness must still reproduce on the real code AND be what the model (C08_S3b_refuted) predicts
        wit = [c for c in load_corpus("svc") if c.get("finding") == "FC08a"]
        if wit:
            (wc, wimpl, wmodel), = ctx.lockstep("tsvc", hs, [dict(wit[0])], timeout=120)
            reproduces = any(f.startswith("FC08a:") for f in monitor_svc(wc, wimpl))
            predicted = any(f.startswith("FC08a:") for f in monitor_svc(wc, wmodel))
            fc = ctx.extra.setdefault("finding_FC08a", {"cases_counted_under_it": 0, "example": None})
            fc.update({"witness": wit[0]["ops"], "reproduces": reproduces, "model_predicts": predicted, "listed": FINDING_FC08A in KNOWN})
            if reproduces and FINDING_FC08A in KNOWN:
                ctx.known_lines.append("KNOWN-FINDING: property=C08 id=FC08a a drain(ms>0) that times out has already cancelled far-future one-shot timers and marked every "
                                       "periodic timer, then restores Running+accepting: cancel() on them answers false and they never fire "
                                       "(%d generated case(s) counted under it)" % fc["cases_counted_under_it"])
            elif reproduces:
                ctx.violation("property", "S3b: cancel = false on a Running service for a timer that never ran and never will: a drain(5) that timed out had swept it "
                              "(finding FC08a is not listed in KNOWN_FINDINGS.txt)", {"ops": wit[0]["ops"], "observed": wimpl, "expected_by_model": wmodel}, found_input=True)
            if reproduces != predicted:
                ctx.violation("correspondence", "the recorded finding FC08a no longer matches the code (witness reproduces=%s, model predicts=%s): the refuted theorem "
                              "C08_S3b_refuted no longer describes the source" % (reproduces, predicted),
                              {"broken": {"correspondence": "FC08a witness", "detail": str(wimpl[-3:])}, "ops": wit[0]["ops"]}, found_input=False)
    ctx.extra["phases_cut_short"] = {k: v for k, v in cut.items() if v}
    if hr and any(cut.values()):
        # the deterministic phases already produced their failing inputs: on such a tree the real-time scenarios add minutes
        # (aborts, hangs until the time-out) and no new kind of evidence
        ctx.extra["rt_skipped"] = "deterministic phases already reported violations with failing inputs"
        hr = None
    if hr:
        tot = {"scheduled": 0, "handlers": 0, "cancel_ok": 0, "refused_after_stop": 0, "rt6_checked": 0}
        t_rt = __import__("time").time()
        rr = rng.fork("rt")
        batches = [[("f23", rr.below(10 ** 6), 0)] + rt_scenarios(rr, 1)] + [rt_scenarios(rr, 1) for _ in range(0 if quick else 3)]
        for sc in batches:
            out, rc, err = ctx.run_lines([hr], ["%s %d %d" % x for x in sc], timeout=90)
            if rc != 0 or len(out) != len(sc):
                ctx.violation("property", "RT0: the real-time harness died (rc=%s, %d/%d scenarios): %s" % (rc, len(out), len(sc), err[-300:]),
                              {"scenarios": sc, "stderr": err[-2000:]}, found_input=True)
            for x, line in zip(sc, out):
                head, _, text = line.partition(" | ")
                fails, st = monitor_rt(x[0], text)
                dist["rt-" + x[0]] = dist.get("rt-" + x[0], 0) + 1
                for k in tot:
                    tot[k] += st.get(k, 0)
                ctx.count_case("rt %s %d" % (x[0], x[1]), nontrivial=st.get("handlers", 0) > 0)
                ctx.cov["traces_validated_against_impl"] += 1
                if fails and all(f.startswith("RT6") or (f.startswith("RT3") and "periodic" in f) for f in fails):
                    # the two classes with a real-time tolerance (RT6: a slack; RT3 on a PERIODIC timer: 5 ms between guard and body):
                    # on a loaded machine the batch of sanitizer-instrumented scenarios can exceed them; the scenario is re-run ALONE
                    # and reported only if the same class fails again
                    out1, rc1, err1 = ctx.run_lines([hr], ["%s %d %d" % x], timeout=90)
                    fails1, _ = monitor_rt(x[0], out1[0].partition(" | ")[2] if out1 else "")
                    again = [f for f in fails1 if f[:3] in {g[:3] for g in fails}]
                    ctx.extra.setdefault("rt_rerun_alone", []).append({"scenario": "%s %d %d" % x, "first": fails[0][:160], "again": bool(again)})
                    if again:
                        line, text, fails = out1[0], out1[0].partition(" | ")[2], again
                    else:
                        fails = []
                if fails:
                    ctx.violation("property", fails[0], {"scenario": "%s %d %d" % x, "failures": fails[:6], "history": text[:20000],
                                                         "how": "echo '%s %d %d' | <harness c08_rt>  (real time: re-run to re-validate)" % x}, found_input=True)
        ctx.extra["rt_wall_s"] = round(__import__("time").time() - t_rt, 1)
        ctx.extra["rt_totals"] = tot
        if not quick:
            # data races: the same scenarios under ThreadSanitizer (the lockstep harnesses are single-threaded by construction, and the
            # Gen facts `wheelMutexSections` / `svcMutexSections` are syntactic): a removed or narrowed lock shows up here as a report
            ht = ctx.build_harness("harness/c08_rt.cpp", name="c08_rt_tsan", sanitize=False, flags=["-fsanitize=thread", "-fno-omit-frame-pointer"])
            if ht:
                sc = [("svc", rr.below(10 ** 6), 300), ("svc", rr.below(10 ** 6), 300), ("svcdrain", rr.below(10 ** 6), 250), ("svcdrain", rr.below(10 ** 6), 250),
                      ("wheel", rr.below(10 ** 6), 500), ("wheel", rr.below(10 ** 6), 500), ("wheel", rr.below(10 ** 6), 500)]
                out, rc, err = ctx.run_lines([ht], ["%s %d %d" % x for x in sc], timeout=180, env={"TSAN_OPTIONS": "exitcode=66 halt_on_error=0 history_size=4"})
                races = err.count("WARNING: ThreadSanitizer: data race")
                ctx.extra["tsan"] = {"scenarios": len(sc), "data_race_reports": races, "rc": rc}
                if races or rc not in (0,):
                    first = err[err.find("WARNING: ThreadSanitizer"):][:1800] if races else err[-600:]
                    ctx.violation("property", "RT7: ThreadSanitizer reports %d data race(s) in the timer code under concurrent schedule/cancel/reschedule/advance/drain/stop (rc=%s)" % (races, rc),
                                  {"scenarios": ["%s %d %d" % x for x in sc], "report": first}, found_input=True)
    ctx.extra["input_distribution"] = dist
    ctx.extra["repo_tree_sha"] = ctx.repo_tree_sha(ANCHOR_FILES)
    ctx.extra["not_proved"] = [
        "W6 as a theorem about threads (the order stop()/drain(): flag, join, clear is a Gen obligation; that joining the tick thread ends all callbacks is std::thread semantics)",
        "wheel liveness bound: an entry whose deadline has passed fires within one revolution of the top level (W1 is conservation only: it does not exclude an entry that stays pending for ever); checked on every lockstep case by the `overdue` monitor, not a theorem",
        "S3b full clause for one-shot timers: REFUTED (C08_S3b_refuted, finding FC08a); proved without drain(ms>0) sweeps (C08_S3b_partial); for periodic timers the clause `will run exactly once` has no meaning and is not stated",
        "termination of collectDueLocked's loop for positive periodic intervals (S5b is conditional on the loop leaving by break/empty heap; the lockstep driver never ran out of fuel)",
        "real-time behaviour of timerfd/epoll/condition variables (measured by the real-time monitors, not proved)",
        "wheel restart: W2b (cancelled never fires) and W7b (stopped forever) are stated for continuations without reset() - after a reset() the id can be issued again and the wheel accepts again, WR1_ids_restart_witness; W7c (schedule racing stop) is not repeated for schedule racing reset() (reset() is only legal on a STOPPED wheel, where schedule is refused before it touches anything)",
        "S3p: the periodic clause at instruction granularity is REFUTED (C08_S3p_refuted: guard load and handler call are two instructions); proved with both as one step (C08_S3p_partial = S3a); the window cannot be replayed on the real code without a hook between the load and fn()",
        "service liveness: WK1/WK2 say that epoll_wait RETURNS whenever a record is due (eventfd readable or timerfd expired) once every owed poke() has been written; that the kernel then schedules the loop thread, and that a client thread eventually writes the poke() it owes, is assumed (fairness)",
        "SteadyTimer: ST2 leaves the disjunct `already Canceled` (a token whose arm an earlier cancel() had won cannot exist, because cancel() resets the token; that invariant needs injectivity of tokens and is not proved); the destructor (= cancel()) and a SteadyTimer used across a restart of its service (its stale token aliases an id of the new epoch: cancel() then cancels an unrelated timer - observation) are not modelled",
        "restart: reset() while a drain() call of the old epoch is still between its sections (dpc != idle) is excluded by the guard of the model's `reset` step (the old drainer's sweep would hit the new epoch: same class as FC08a); TimerServicePool (delegates to per-service calls), a second concurrent stop(), the system-error exits of runLoop (throwOnSystemError), drain()'s `budget <= 0` branch",
    ]
    ctx.extra["observations"] = [
        "restart aliasing (not a C08 clause as stated): reset() restarts _nextId at 0, so an id (or a SteadyTimer token) kept from before the restart names an unrelated timer of the new epoch: cancel(old id) answers true and cancels it",
        "scheduleAfter(d)/schedulePeriodic(d) with d > TimePoint::max() - now overflow `Clock::now() + d` and again `tp - now` in isValidTimeout (formally UB); the two wraps cancel and the request is REFUSED (id 0): nothing fires early, nothing is lost; hardening proposal: test d > maxTimeout before the addition",
        "runLoop leaves on a timerfd_settime/epoll_wait error when throwOnSystemError is set (not the default) while the service stays Running and accepting: later schedules are accepted and never fire; the error handler is called, so this is reported, not silent; not modelled",
        "F42 (not a C08 clause): schedulePeriodic(interval <= 0) makes collectDueLocked loop forever under _mutex (the re-armed record is due again at once); the model's collectLoop runs out of fuel in the same way",
        "wheel lateness (not a C08 clause): a timer whose delay is >= one level-0 revolution is filed relative to the level's currentTick and can fire up to one lower-level revolution late; ticks that arrive 1.x ticks late lose the fraction (the wheel lags)",
    ]
    ctx.assumptions += [
        "wheel: 64-bit tick counters do not wrap; steady_clock values are 0 <= now <= 2^63-1 ns (W8a needs nothing else: the deadline saturates, FC08c) and otherwise whatever the op list says (no monotonicity assumed by the theorems)",
        "wheel lockstep: advance() is issued by the op list under an interposed CLOCK_MONOTONIC (the real start() runs, its tick thread is joined at once); the tick thread's own timing is exercised only in the real-time part",
        "service lockstep: the real loop thread is single-stepped by an interposed epoll_wait; `wake` forces a pass, `tick` lets the loop leave epoll_wait only if the kernel would (the REAL eventfd is readable - asked by poll() - or the expiry the service programmed with the real timerfd_settime, recorded in virtual time, has passed), and the state line of every op carries the programmed expiry and the eventfd state, compared with the model's `armed`/`poked`; stop() -> reset() -> start() run on the one service object (new fds, new loop thread); a racer thread is held by the mutex interposer between scheduleAt's lock-free test and its locked section; SteadyTimer objects are the real class; drain(ms) runs on a helper thread whose timed wait is interposed and which re-evaluates predicate and (virtual) deadline after every op (a forced spurious wake-up), so completion / time-out / restore happen at op boundaries",
        "service model: the atomic steps are the `_mutex` sections (+ handler start/end); stop() is called by one thread at a time; the periodic cancel guard is checked atomically with the handler start (C08_S3p_refuted records what that hides); second layer: a client's poke() is a separate step after its locked section (`owed`), epoll_wait returns exactly when the eventfd is readable or the timerfd expired, or spuriously; reset() requires that no drain() call of the old epoch is still in progress",
        "real-time part: safety monitors over measured steady-clock timestamps (call/return of schedule/cancel/stop, handler start/end), at most 19 scenarios at a time; tolerances: none for one-shot timers of the service, one tick for the wheel (its contract), 5 ms between cancel() = true and the start of a PERIODIC handler body (the guard check precedes the body); RT6 (nothing lost) is a watchdog with 120 ms (service) / 250 ms (wheel) slack over one-shot delays <= 40 / 120 ms, with a quiet tail of 160 ms in the `svc` scenarios and three `wakeup` scenarios (real epoll/timerfd, nobody poking: review mutant A); an RT6 or periodic-RT3 failure is re-run alone and reported only if it fails again; thorough tier: the same scenarios under ThreadSanitizer",
    ]
    return ctx.finish(level="proof", rule="a case = one op list from `reset` (wheel or single-stepped service) or one real-time scenario; distinct = distinct op lists / scenario seeds; non-trivial = at least one timer fired / handler started")


def svc_stats(c, impl):
    """branch / kind counters of one case, MEASURED from the implementation's answers (they go into input_distribution)"""
    st = {"starts": 0, "cancel_ok": 0, "gate_blocks": 0}

    def inc(k, n=1):
        st[k] = st.get(k, 0) + n
    kinds = {}
    clk = 0
    prev = ""
    for op, ans in zip(c["ops"], impl):
        t = op.split()
        head = ans.split()[0] if ans else ""
        f = dict(x.split("=", 1) for x in ans.split()[1:] if "=" in x)
        if t[0] == "clk":
            clk = int(t[1])
        if head.startswith("ev=") and head != "ev=-":
            evs = head[3:].split(",")
            st["starts"] += sum(1 for e in evs if e[0] == "s")
            st["cancel_ok"] += sum(1 for e in evs if e[0] == "c" and e.endswith("=1"))
            inc("throwing_handlers", sum(1 for e in evs if e[0] == "s" and kinds.get(e[1:]) == "t"))
            if evs[-1][0] == "s":
                st["gate_blocks"] += 1
        if t[0] in ("at", "per", "sat") and head.isdigit() and head != "0":
            kinds[head] = t[-1][0]
        if t[0] == "tick":
            if head == "sleep":
                inc("tick_sleeps")
            elif head.startswith("ev="):
                inc("tick_wakes_by_poke" if " poke=1" in prev else "tick_wakes_by_timerfd")
        if t[0] in ("wake", "tick", "release", "start") and f.get("arm", "-") != "-" and f.get("heap", "-") != "-":
            top = int(f["heap"].split(",")[0].split(":")[0])
            inc("armed_for_heap_top" if int(f["arm"]) == top else "armed_by_zero_guard" if int(f["arm"]) == clk + 1 else "armed_other")
        if op.startswith("cancel") and head == "1":
            st["cancel_ok"] += 1
        if op.startswith("drain") and head in ("d=wait", "d=ok"):
            inc("drains")
        if op == "dwait" and head == "d=timeout":
            inc("drain_timeouts")
        if t[0] == "svcreset":
            inc("restarts" if head == "r=ok" else "reset_refused")
            if head == "r=ok" and "heap=-" not in prev:
                inc("old_heap_items_at_restart")
        if t[0] == "rsched" and head == "r=parked":
            inc("racer_parked")
        if t[0] == "rgo" and head.startswith("r=") and head[2:].isdigit():
            inc("racer_refused_under_lock" if head == "r=0" else "racer_accepted")
        if t[0] == "sat" and head.isdigit():
            inc("steady_arms" if head != "0" else "steady_arms_refused")
        if t[0] == "scancel":
            inc("steady_cancel_true" if head == "1" else "steady_cancel_false")
            # cancel() = true although the service-level record was already collected (not in rec= before the call): the FC08b window
            if head == "1" and "exec=0" not in prev:
                inc("steady_cancel_true_after_collect")
        if t[0] in ("swait", "wake", "release") and head in ("s=ok",) or (" life=S" in ans and " life=S" not in prev):
            inc("stops_completed") if " life=S" in ans and " life=S" not in prev else None
        prev = ans
    return st


def run_phase(ctx, comp, hbin, cases, n_first, chunk, monitor, what, dist, rng, stats, tot, nontrivial):
    """Lockstep + monitors over `cases`, in chunks (the witnesses/boundary cases first).  The phase stops as soon as it has reported
    3 violations of one class or 6 in all: each further failing case on a broken tree only costs sanitizer aborts, watchdog
    seconds, harness restarts and shrinking runs, and adds nothing to what is already reported.  Returns a note if cut short."""
    seen = {}
    i = 0
    while i < len(cases):
        n = n_first if i == 0 and n_first else chunk
        part = cases[i:i + n]
        i += n
        res = ctx.lockstep(comp, hbin, part, timeout=300)
        judge(ctx, hbin, res, monitor, what, dist, rng, stats, tot, nontrivial, seen)
        if seen and (max(seen.values()) >= 3 or sum(seen.values()) >= 6) and i < len(cases):
            note = "stopped after %d of %d cases: %s" % (i, len(cases), seen)
            ctx.log("phase %s cut short: %s" % (comp, note))
            return note
    return None


def judge(ctx, hbin, res, monitor, what, dist, rng, stats, tot, nontrivial, seen=None):
    """property monitor on the implementation's answers first; a pure model/implementation difference is a correspondence break"""
    n_mismatch = 0
    seen = seen if seen is not None else {}
    for c, impl, model in res:
        dist[c["cat"]] = dist.get(c["cat"], 0) + 1
        st = stats(c, impl)
        for k in tot:
            tot[k] += st.get(k, 0)
        ctx.count_case("\n".join(c["ops"]), nontrivial=nontrivial(st))
        if c["cat"] in ("wheel", "svc", "svc-sweep") and len(ctx.cov["samples"]) < 6 and rng.chance(1, 400):
            ctx.sample({"cat": c["cat"], "ops": c["ops"][:12], "impl": [l[:150] for l in impl[:12]]})
        fails = monitor(c, impl)
        mism = [(i, a, b) for i, (a, b) in enumerate(zip(impl, model)) if a != b]
        # failures that fall under the recorded finding FC08a (hypothesis `noSweep` of C08_S3b_partial is false for the case): counted
        # under the finding while it is listed, whatever else the case shows is still judged
        hits = [f for f in fails if f.startswith("FC08a:")]
        fails = [f for f in fails if not f.startswith("FC08a:")]
        if hits:
            fc = ctx.extra.setdefault("finding_FC08a", {"cases_counted_under_it": 0, "example": None})
            fc["cases_counted_under_it"] += 1
            if fc["example"] is None:
                fc["example"] = {"ops": c["ops"], "what": hits[0][:300]}
            if not mism and FINDING_FC08A not in KNOWN:
                fails = ["S3b: " + hits[0][7:] + " (finding FC08a is not listed in KNOWN_FINDINGS.txt)"]
        if fails:
            cls = "property:" + fails[0].split(":")[0]
            seen[cls] = seen.get(cls, 0) + 1
            if seen[cls] <= 3:
                report_property(ctx, hbin, c, impl, model, fails, monitor)
            else:
                ctx.violation("property", fails[0])     # counted, not shrunk again
        elif mism:
            n_mismatch += 1
            seen["correspondence"] = seen.get("correspondence", 0) + 1
            if seen["correspondence"] <= 3:
                i, a, b = mism[0]
                ctx.violation("correspondence", "model and implementation disagree (no property monitor fails on this case): op `%s` impl=`%s` model=`%s`"
                              % (c["ops"][i][:120], a[:160], b[:160]),
                              {"broken": {"correspondence": what, "detail": "first differing op index %d" % i},
                               "ops": c["ops"], "observed": impl, "expected_by_model": model}, found_input=False)


def report_property(ctx, hb, c, impl, model, fails, monitor):
    ops = c["ops"]
    if not ctx.violation_budget("property", fails[0]):
        ctx.violation("property", fails[0])
        return
    tag = fails[0].split(":")[0]

    def still(sub):
        if not sub or not sub[0].startswith("reset"):
            return False
        out, rc, err = ctx.run_lines([hb], sub, timeout=30)
        out = out + ["crash:" + str(rc)] * (len(sub) - len(out))
        cc = dict(c)
        cc["ops"] = sub
        return bool([f for f in monitor(cc, out) if f.split(":")[0] == tag])
    try:
        import time as _t
        t0 = _t.time()
        if len(ops) > 4 and still(ops):
            # shrinking re-runs the harness: keep it cheap when one run is slow (watchdog answers cost seconds each)
            budget = 60 if _t.time() - t0 < 1.0 else 8
            ops = [ops[0]] + ddmin(ops[1:], lambda s: still([ops[0]] + s), max_tests=budget)
    except Exception:
        pass
    obj = {"ops": ops, "geom": c.get("geom"), "observed": impl if ops is c["ops"] else None, "expected_by_model": model if ops is c["ops"] else None,
           "failures": fails[:5], "category": c["cat"], "crash": c.get("crash")}
    ctx.violation("property", fails[0], obj, found_input=True)


def load_corpus(kind):
    d = os.path.join(os.path.dirname(os.path.dirname(os.path.abspath(__file__))), "corpus", "C08")
    out = []
    if os.path.isdir(d):
        for fn in sorted(os.listdir(d)):
            if fn.endswith(".json"):
                c = json.load(open(os.path.join(d, fn)))
                if c.get("kind", "wheel") != kind:
                    continue
                c.setdefault("cat", "corpus")
                out.append(c)
    return out
