"""C01 — TCP/TLS sessions deliver sent bytes exactly once and in order (DESIGN §7 C01).

Trace inclusion (DESIGN §2.2): a real Transport/TcpEngine runs against a raw-socket / OpenSSL peer on loopback with
send/recv/SSL_write/SSL_read/SSL_do_handshake/epoll_ctl/epoll_wait/getsockopt interposed inside the harness executable
(harness/c01_tcp_stream.cpp). The Lean acceptor (Driver/TcpSession.lean) replays `Iora.Tcp.step` on the recorded answers
and must produce exactly the recorded calls. Implementation-only monitors compare what the peer read with the accepted
payloads byte for byte (and what the data callback delivered with what the peer wrote)."""
import json, os, re, concurrent.futures
from vlib.core import Ctx

ID = "C01"
MODULES = ["IoraModel.Props.C01"]
COMPONENT = "tcpsession"
HARNESS = "harness/c01_tcp_stream.cpp"
ANCHOR_FILES = ["include/iora/network/detail/tcp_engine.hpp", "include/iora/network/transport_impl.hpp",
                "include/iora/network/transport_types.hpp", "include/iora/network/event_batch_processor.hpp"]
LEAN_FILES = ["IoraModel.Model.TcpSession", "IoraModel.Model.TcpWake", "IoraModel.Lemmas.TcpSession", "IoraModel.Lemmas.TcpWake",
              "IoraModel.Lemmas.TcpExt", "IoraModel.Gen.TcpSession", "IoraModel.Props.C01"]

OBLIGATIONS = [
    {"id": "C01_T1", "theorem": "Iora.C01.T1_exactly_once_in_order", "kind": "proved",
     "statement": "for every input history and every answer sequence from a fresh session (close-on-backpressure policy): while open, wire ++ pending = accepted payloads concatenated; always wire is a prefix of it"},
    {"id": "C01_T1_step", "theorem": "Iora.C01.T1_step", "kind": "proved",
     "statement": "the conservation invariant is preserved by every single step from every state that satisfies it"},
    {"id": "C01_T2", "theorem": "Iora.C01.T2_no_cleartext_on_tls", "kind": "proved",
     "statement": "on a TLS session no history ever produces a plain ::send or a plain ::recv; a step that stays in the handshake state leaves the wire untouched"},
    {"id": "C01_T3", "theorem": "Iora.C01.T3_rearm", "kind": "proved",
     "statement": "after every step of every history (unconditional MOD, as extracted): open and queue non-empty => EPOLLOUT registered, by an epoll_ctl issued after the last write attempt (ET and LT)"},
    {"id": "C01_T3_mod_needed", "theorem": "Iora.C01.T3_needs_unconditional_mod", "kind": "proved",
     "statement": "if updateInterest skipped the epoll_ctl(MOD) when the mask is unchanged (mask cache), a short write issued by the drain loop leaves an open session with queued bytes and no re-arm after the last write attempt — the regenerated fact updateInterestSkipsUnchangedMask=false (T3_default_mod, gen_conforms) is load-bearing"},
    {"id": "C01_T3_default_mod", "theorem": "Iora.C01.T3_default_mod", "kind": "proved",
     "statement": "the model's default configuration has the unconditional MOD, as extracted from updateInterest/modEpoll"},
    {"id": "C01_T3_progress", "theorem": "Iora.C01.T3_progress", "kind": "proved",
     "statement": "a writable event with a first answer wrote n>0 on a non-empty queue strictly decreases the pending byte count; wire grows by exactly that amount"},
    {"id": "C01_T3_drain", "theorem": "Iora.C01.T3_drains", "kind": "proved",
     "statement": "if the environment takes every buffer whole, one writable event empties the queue"},
    {"id": "C01_T3_fair", "theorem": "Iora.C01.T3_fair_drain", "kind": "proved",
     "statement": "if every writable event's first write takes >= 1 byte, then after `pending` writable events the queue is empty or the session was closed by a reported error — for all cut positions / EAGAINs / errors after each first answer"},
    {"id": "C01_T3_fair_reach", "theorem": "Iora.C01.T3_fair_drain_reachable", "kind": "proved",
     "statement": "T3_fair_drain for every state reachable from a fresh session by any history: 'queued buffers are non-empty' is derived (send does not enqueue n == 0), not assumed"},
    {"id": "C01_T4", "theorem": "Iora.C01.T4_read_loop", "kind": "proved",
     "statement": "with the drain loop (the loop shape extracted from readAvail: true in ET and LT): the read loop delivers exactly the data answers before the first non-data answer, in order, each once, stops there, and closes iff that answer is eof/error"},
    {"id": "C01_T4_default", "theorem": "Iora.C01.T4_default_drains", "kind": "proved",
     "statement": "the model's default configuration (regenerated readAvailDrainsLevelTriggered) reads until the channel blocks in edge-triggered AND level-triggered mode"},
    {"id": "C01_T4_run", "theorem": "Iora.C01.T4_run_delivered_eq_received", "kind": "proved",
     "statement": "whole histories: for every input history from a fresh session the bytes handed to the data callback = the bytes recv/SSL_read returned, in order, each once (state and outputs of the whole run)"},
    {"id": "C01_T4_env", "theorem": "Iora.C01.T4_wakeup_drains_environment", "kind": "proved",
     "statement": "one readAvail call with the drain loop, answered by an environment holding kernel-buffered records AND plaintext already buffered inside OpenSSL (which no epoll event announces), delivers all of it in order, for every chunk size > 0"},
    {"id": "C01_T4_sys", "theorem": "Iora.C01.T4_run_delivered_eq_sent", "kind": "proved",
     "statement": "closed receive-side system (peer writes into the kernel buffer at any time, epoll wakes only while the kernel buffer is non-empty, a wake-up = one readAvail answered by the environment): with the drain loop, for every interleaving, delivered ++ kernel-buffered = everything the peer sent, nothing stays inside OpenSSL between wake-ups, and whenever epoll is silent everything sent has been delivered"},
    {"id": "C01_T4_lt_needed", "theorem": "Iora.C01.T4_one_read_per_wakeup_strands_tls_tail", "kind": "proved",
     "statement": "witness: with one read per readiness notification in level-triggered mode a TLS record larger than ioReadChunk leaves its tail inside OpenSSL with the kernel buffer empty — never delivered while the session stays open (the readAvail loop fact is load-bearing)"},
    {"id": "C01_T5", "theorem": "Iora.C01.T5_per_thread_fifo", "kind": "proved",
     "statement": "for every schedule of enqueue micro-steps under the mutex and every thread count: the dispatched ++ queued commands of thread t are exactly 0..k-1 in order with k = (completed enqueue calls of t) + (1 if t is between its store and its unlock) — so nothing is lost, duplicated or reordered — and every queued command belongs to one of the n threads"},
    {"id": "C01_one_command", "theorem": "Iora.C01.send_is_one_command", "kind": "proved",
     "statement": "one accepted send is one command: after any schedule the number of commands of thread t equals the number of its stored send calls, none twice, sequence numbers exactly 0..k-1"},
    {"id": "C01_contiguous", "theorem": "Iora.C01.one_send_contiguous_on_wire", "kind": "proved",
     "statement": "accepted = the non-empty payloads of the Send commands in dispatch order; for every history/fault sequence and every accepted payload p: open => wire ++ pending = (whole payloads before) ++ p ++ (whole payloads after), always wire is a prefix of it — the bytes of one accepted send are one block"},
    {"id": "C01_T5_T1", "theorem": "Iora.C01.T5_T1_one_send_contiguous", "kind": "proved",
     "statement": "T1 o T5: for any number of sender threads and every enqueue schedule, if the session's Send commands are the dispatched commands in dispatch order, each dispatched send's bytes are contiguous on the wire between the bytes of the commands dispatched before and after it"},
    {"id": "C01_T5_mutex_needed", "theorem": "Iora.C01.T5_needs_mutex", "kind": "proved",
     "statement": "without the mutex a 2-thread schedule loses a command (the translator fact is load-bearing)"},
    {"id": "C01_T5_swap_needed", "theorem": "Iora.C01.T5_needs_locked_swap", "kind": "proved",
     "statement": "without the mutex around process()'s swap (read, then clear) one sender's accepted command is neither queued nor dispatched: processSwapUnderCmdMutex is an argument of Enq.run in T5 and load-bearing"},
    {"id": "C01_T5_whole_batch_needed", "theorem": "Iora.C01.T5_needs_whole_batch_dispatch", "kind": "proved",
     "statement": "witness: if process() dispatched only a budget of commands per call and re-queued the unprocessed tail at the back of _cmds, ONE sender's commands 0,1,2 are dispatched in the order 0,2,1 (session open, no error): processDispatchesWholeBatch is the third argument of Enq.run in T5 and load-bearing"},
    {"id": "C01_T5_default_whole_batch", "theorem": "Iora.C01.T5_default_whole_batch", "kind": "proved",
     "statement": "as extracted: process()'s dispatch loop is its only loop and has no early exit, _cmds is mutated only by enqueue's two push_back and the two locked swaps (process, shutdownDrain), the eventfd is written only in enqueue"},
    {"id": "C01_wake_whole_batch_needed", "theorem": "Iora.C01.wakeup_three_steps_need_whole_batch", "kind": "proved",
     "statement": "witness: with a one-command budget per process() call the I/O thread's next three steps do not take two queued commands (wakeup_dispatches_all consumes processDispatchesWholeBatch)"},
    {"id": "C01_wake", "theorem": "Iora.C01.no_lost_wakeup", "kind": "proved",
     "statement": "eventfd wake-up protocol (write after push_back inside the lock, drainEvt() before process(), both regenerated): for every schedule of any number of senders and the I/O thread a non-empty command queue is always announced (counter > 0, or I/O thread between drain and swap, or the pushing sender just before its write); whenever the I/O thread sleeps with no enqueue in flight the queue is empty and every accepted command was dispatched"},
    {"id": "C01_wake_progress", "theorem": "Iora.C01.wakeup_dispatches_all", "kind": "proved",
     "statement": "from every reachable state with the lock free, three steps of the I/O thread alone (wake, drainEvt, process) take every queued command"},
    {"id": "C01_wake_start", "theorem": "Iora.C01.wakeup_commands_before_loop_start", "kind": "proved",
     "statement": "any number k of enqueue calls completed before the I/O thread's first step (before the loop thread exists / before epoll_wait) leave the eventfd counter at k, and the I/O thread's first three steps dispatch all k: the counter is a level, so a write preceding the level-triggered registration is not lost"},
    {"id": "C01_gen_start", "theorem": "Iora.C01.gen_conforms_start", "kind": "proved",
     "statement": "start(): the fresh eventfd is published in _eventFd and the queue reopened (_cmdsClosed=false) in ONE _cmdMutex section, published before registered, registered once with EPOLLIN (level-triggered) and before the loop thread is created"},
    {"id": "C01_wake_order_needed", "theorem": "Iora.C01.wakeup_needs_drain_before_process", "kind": "proved",
     "statement": "witness: with process(); drainEvt(); a command enqueued between swap and drain stays queued while the I/O thread sleeps (loopDrainBeforeProcess is load-bearing)"},
    {"id": "C01_wake_write_needed", "theorem": "Iora.C01.wakeup_needs_write_after_push", "kind": "proved",
     "statement": "witness: with the eventfd write before the locked push_back the I/O thread can swap an empty queue and sleep with one command queued (enqueueWakeAfterPushUnderLock is load-bearing)"},
    {"id": "C01_close_arm", "theorem": "Iora.C01.close_arm_spec", "kind": "proved",
     "statement": "the Close arm of process(): a timer-originated close (connect timeout / handshake timeout / write stall) is dropped without output exactly when its condition no longer holds, otherwise and for application closes it is closeNow"},
    {"id": "C01_T6_shutdown", "theorem": "Iora.C01.T6_shutdown", "kind": "proved",
     "statement": "shutdownDrain: the session is closed with the close output, the residual accepted-but-undispatched Send payloads count as accepted and the wire is still a prefix of everything accepted"},
    {"id": "C01_retry", "theorem": "Iora.C01.retry_same_buffer", "kind": "proved",
     "statement": "close-on-backpressure: from every open session with queue front b, for every further history, the next ::send/SSL_write issued passes exactly b (or none is ever issued): the OpenSSL same-buffer retry rule"},
    {"id": "C01_retry_block", "theorem": "Iora.C01.retry_block_leaves_front", "kind": "proved",
     "statement": "a refused direct write leaves its payload as the whole queue (or the session closed); a drain loop stopped by a refusal leaves the refused buffer (argument of its last write) at the front"},
    {"id": "C01_retry_policy", "theorem": "Iora.C01.retry_moves_under_drop_oldest", "kind": "proved",
     "statement": "scope witness: with drop-oldest the refused buffer is popped and the next SSL_write passes another buffer"},
    {"id": "C01_batch", "theorem": "Iora.C01.batch_order_is_order_preserving_permutation", "kind": "proved",
     "statement": "EventBatchProcessor::processBatch order (the batchOrder function the acceptor uses): a permutation of the batch in which the events of one fd keep their relative order"},
    {"id": "C01_T6", "theorem": "Iora.C01.T6_drop_only_with_close", "kind": "proved",
     "statement": "close-on-backpressure: a step (sends, application and timer-originated close commands with their stale-timeout guards, shutdownDrain, connect probe, every epoll event) either keeps every accepted byte (wire ++ pending) or closes the session in the same step and emits the close output; a closed session emits nothing"},
    {"id": "C01_T6_policy", "theorem": "Iora.C01.T6_drop_oldest_breaks_stream", "kind": "proved",
     "statement": "scope witness: with closeOnBackpressure=false the wire is no longer a prefix of the accepted stream (a half-written front buffer is dropped)"},
    {"id": "C01_obs_spin", "theorem": "Iora.C01.obs_handshake_window_spins", "kind": "proved",
     "statement": "observation: with data queued in the TLS-handshake window every event re-registers EPOLLOUT and leaves the state unchanged (busy polling; nothing lost)"},
    {"id": "C01_obs_hsqueue", "theorem": "Iora.C01.obs_handshake_queue_unbounded", "kind": "proved",
     "statement": "observation: payloads accepted in the handshake window are queued without the maxWriteQueue test"},
    {"id": "C01_obs_readwant", "theorem": "Iora.C01.obs_read_wantWrite_not_armed", "kind": "proved",
     "statement": "observation: SSL_read answering WANT_WRITE in the open state does not register EPOLLOUT (delivery delayed until the next EPOLLIN; nothing lost)"},
    {"id": "C01_gen", "theorem": "Iora.C01.gen_conforms", "kind": "proved",
     "statement": "the requeue offsets / queue ends / lock scopes, updateInterest's mask computation, its single unconditional modEpoll and its call sites, the tlsMode/tlsState assignment sites, the sendAsync / Transport send, sendAsync, sendSync, sendSyncCancellable delegation (one engine send, no loop), send()'s callee list and return count, the eventfd write/drain order, the readAvail loop shape and exits, the Close-arm guards and the processBatch shape extracted from the source are the ones the model mirrors"},
]

BOUNDARY_SIZES = [1, 2, 3, 255, 256, 257, 1459, 1460, 1461, 4095, 4096, 4097, 16383, 16384, 16385, 65535, 65536, 65537]


# ------------------------------------------------------------------ generator
def no_edge(rng, faults, share=(2, 5)):
    """A share of the short writes (and of SSL_write's WANT_READ) leave the socket writable and get NO fabricated edge (upper case)."""
    out = []
    for f in faults:
        if f[0] in "cmf" and f not in ("m0",) and rng.chance(*share):
            out.append(f[0].upper() + f[1:])
        elif f == "r" and rng.chance(*share):
            out.append("R")
        else:
            out.append(f)
    return out


def gen_faults(rng, n, tls, kind):
    """A fault schedule: p pass | c<k> cut to k | m<k> cut to len-k | f<permille> | a EAGAIN | r/w WANT_READ/WRITE | e error."""
    out = []
    mode = rng.below(5)      # 0 mostly pass, 1 boundary cuts, 2 EAGAIN runs, 3 mixed heavy, 4 none
    if mode == 4:
        return out
    while len(out) < n:
        k = rng.below(100)
        if mode == 0 and k < 70:
            out.append("p")
        elif k < 25:
            out.append(rng.choice(["c0", "c1", "m1", "m0", "c2", "m2"]) if kind == "w" else rng.choice(["c1", "c2", "m1", "c3"]))
        elif k < 40:
            out.append("f%d" % rng.choice([1, 250, 500, 750, 999, rng.range(1, 999)]))
        elif k < 50:
            out.append("c%d" % rng.choice([1, 7, 100, 1460, 4096, 16384, 16385, rng.range(1, 70000)]))
        elif k < 70:
            run = rng.range(1, 4) if mode == 2 else 1
            for _ in range(run):
                if tls:
                    out.append(rng.choice(["w", "r"]) if kind == "w" else rng.choice(["r", "r", "w"]))
                else:
                    out.append("a")
        else:
            out.append("p")
    return out[:n]


def gen_case(rng, idx, quick, corner=None):
    tls = rng.chance(2, 5)
    role = rng.choice(["srv", "cli"])
    et = rng.chance(2, 3)
    batch = rng.chance(1, 3)
    if corner is not None:
        et, batch, tls, role = corner
    thr = rng.choice([1, 1, 2, 3, 4])
    c = {"id": idx, "role": role, "tls": int(tls), "et": int(et), "batch": int(batch), "thr": thr,
         # a small SEND buffer makes send()/SSL_write really return short counts / WANT_WRITE. Receive buffers are never made tiny:
         # the kernel then drops in-window segments (truesize accounting) and the connection crawls through RTO back-off
         # (observed: 17 s for 180 KB), which says nothing about the engine.
         "sndbuf": rng.choice([0, 0, 4608, 8192, 32768]), "rcvbuf": rng.choice([0, 0, 65536]),
         "prcvbuf": rng.choice([0, 0, 65536]),
         "mwq": 1024, "cob": 1, "chunk": rng.choice([65536, 65536, 4096, 1, 17, 1000]),
         "early": int(rng.chance(1, 3)), "hsdelay": rng.choice([0, 0, 300, 1500]) if tls else 0, "expectend": 0}
    # payloads
    n = rng.range(1, 24)
    total = 0
    cap = 1_500_000 if rng.chance(1, 8) else 200_000
    sends = []
    for _ in range(n):
        k = rng.below(20)
        if k < 6:
            ln = rng.choice(BOUNDARY_SIZES)
        elif k < 14:
            ln = rng.range(1, 2000)
        elif k < 18:
            ln = rng.range(2000, 70000)
        else:
            ln = rng.choice([131072, 262144, 524288, rng.range(70000, 524288)])
        if total + ln > cap:
            ln = rng.range(1, 300)
        total += ln
        sends.append([ln, rng.range(0, 250), rng.below(thr), rng.choice([0, 0, 0, 50, 400])])
    # backpressure: a small queue limit (close-on-backpressure, sometimes the drop-oldest policy)
    if rng.chance(1, 8):
        c["mwq"] = rng.range(0, 5)
        c["expectend"] = 1
        if rng.chance(1, 4):
            c["cob"] = 0
    # application close somewhere in the middle
    if rng.chance(1, 10):
        sends.insert(rng.below(len(sends) + 1), [0, 0, rng.below(thr), rng.choice([0, 100])])
        c["expectend"] = 1
    elif rng.chance(1, 8):
        # a close command as the TimerService callbacks enqueue it (pat 1 connect timeout, 2 handshake timeout, 3 write stall):
        # process() must drop it when it is stale and close otherwise
        sends.insert(rng.below(len(sends) + 1), [0, rng.range(1, 3), rng.below(thr), rng.choice([0, 100])])
        c["expectend"] = 1
    c["sends"] = sends
    nf = rng.range(4, 60)
    wf = gen_faults(rng, nf, tls, "w")
    if rng.chance(1, 14):
        wf.insert(rng.below(len(wf) + 1), "e")
        c["expectend"] = 1
    c["wf"] = no_edge(rng, wf)
    c["rf"] = gen_faults(rng, rng.range(2, 30), tls, "r")
    if rng.chance(1, 16):
        c["rf"].insert(rng.below(min(len(c["rf"]), 4) + 1), "e")      # a fatal recv / SSL_read error: everything pending goes with the reported close
        c["expectend"] = 1
    # spurious WANT_WRITE only: a spurious WANT_READ before the first flight was written is not something OpenSSL can answer
    c["hf"] = ["w" for _ in range(rng.range(1, 3))] if tls and rng.chance(1, 3) else []
    if tls and rng.chance(1, 25):
        c["hf"] = c["hf"][:1] + ["e"]          # a fatal handshake failure: everything accepted so far is dropped together with the close
        c["expectend"] = 1
    c["wd"] = [rng.choice([0, 0, 30, 200, 1000]) for _ in range(rng.range(0, 30))] if rng.chance(1, 2) else []
    # peer behaviour
    small_total = total <= 30000
    c["peer"] = [rng.choice([1, 7, 512, 4096, 65536]) if small_total else rng.choice([4096, 16384, 65536]),
                 rng.choice([0, 0, 0, 40, 300]) if total <= 300000 else 0, rng.choice([0, 0, 0, 2000])]
    pw = []
    if rng.chance(1, 2):
        for _ in range(rng.range(1, 6)):
            pw.append([rng.choice([1, 100, 4096, 65536, 100000, rng.range(1, 5000)]), rng.range(0, 250), rng.choice([0, 0, 100, 1000])])
    c["pw"] = pw
    if sum(w[0] for w in pw) > 5000 and c["chunk"] < 1000:
        c["chunk"] = rng.choice([4096, 65536, 1000])
    # sends issued from inside the data callback (on the I/O thread itself), one per callback
    c["echo"] = [[rng.choice([1, 100, 4096, 20000, rng.range(1, 3000)]), rng.range(0, 250)] for _ in range(rng.range(1, 6))] if pw and rng.chance(1, 3) else []
    c["pclose"] = -1
    if rng.chance(1, 16) and total > 10:
        c["pclose"] = rng.range(0, total - 1)
        c["expectend"] = 1
    # R6: a 1..7-byte peer read with a sleep after each read multiplies into tens of seconds; keep such peers fast
    if c["peer"][0] < 512:
        c["peer"][1] = 0
    # the plain connect window: getpeername answers "not yet" a few times, so sends meet connectPending (client role, plain)
    c["gp"] = ""
    if role == "cli" and not tls and rng.chance(1, 3):
        c["gp"] = "n" * rng.range(1, 3)
        c["early"] = 1
        if rng.chance(1, 12):
            c["gp"] = c["gp"][:-1] + "r"
            c["expectend"] = 1
    c["async"] = rng.choice([0, 0, 0, 1, 2, 3])   # which Transport entry points the senders use: send / sendAsync / sendSync / sendSyncCancellable
    # a second live session on the same engine with its own payloads
    c["s2"] = [[rng.choice([1, 100, 5000, 70000, rng.range(1, 2000)]), rng.range(0, 250)] for _ in range(rng.range(1, 5))] if rng.chance(1, 4) else []
    # unlocked senders: the Transport::send calls of the sender threads really overlap; payloads carry (thread, seq).
    # Only where nothing ends the session early, so that the peer's stream IS the accepted order.
    c["nolock"] = 0
    if thr > 1 and not c["expectend"] and not c["echo"] and rng.chance(1, 2):
        c["nolock"] = 1
        c["s2"] = []          # the queue position of a second session's commands among unlocked sends would be unknown to the acceptor
        c["sends"] = [[max(x[0], 8), x[1], x[2], 0 if rng.chance(3, 4) else x[3]] for x in c["sends"] if x[0] > 0]
    # one send from inside the accept / connect callback and one from inside the close callback (both on the I/O thread)
    c["cbsend"] = [rng.choice([1, 100, 5000, 70000]), rng.range(0, 250)] if not c["nolock"] and rng.chance(1, 6) else []
    c["clsend"] = [rng.choice([1, 100, 5000]), rng.range(0, 250)] if not c["nolock"] and rng.chance(1, 8) else []
    # SO_ERROR != 0 at the k-th probe on the session (connect probe / first check of an EPOLLOUT event): reported close
    c["so"] = 0
    if not c["nolock"] and rng.chance(1, 16):      # (with unlocked senders the accepted order is rebuilt from the peer's stream: nothing may end the session early)
        c["so"] = rng.range(1, 4)
        c["expectend"] = 1
    # a small per-wake-up event budget (epollMaxEvents) and one send accepted from a helper thread while a larger batch is dispatched
    c["eme"] = rng.choice([1, 2, 3]) if rng.chance(1, 6) else 0
    c["mid"] = [rng.choice([1, 100, 4096]), rng.range(0, 250)] if c["eme"] and not c["nolock"] and rng.chance(2, 3) else []
    c["cat"] = "random"
    return c


def base_case(rng, idx, **kw):
    c = {"id": idx, "role": rng.choice(["srv", "cli"]), "tls": int(rng.chance(1, 3)), "et": int(rng.chance(1, 2)), "batch": int(rng.chance(1, 3)),
         "thr": 1, "sndbuf": 0, "rcvbuf": 0, "prcvbuf": 0, "mwq": 1024, "cob": 1, "chunk": 65536, "early": 0, "hsdelay": 0, "expectend": 0,
         "sends": [], "wf": [], "rf": [], "hf": [], "wd": [], "peer": [65536, 0, 0], "pw": [], "echo": [], "pclose": -1, "cat": "boundary",
         "gp": "", "async": 0, "nolock": 0, "s2": [], "gate": 0, "eme": 0, "mid": []}
    c.update(kw)
    return c


def gen_boundary_cases(rng, start, n, big_ok=False):
    """Boundary stream: every cut position of tiny payloads (0, 1, len-1, len) for the direct write and for the queued front;
    the backpressure limit at k / k+1 queued buffers; read sizes around ioReadChunk; payload sizes around the TLS record size."""
    out = []
    i = start
    cuts = ["c0", "c1", "m1", "m0", "c2", "m2"]
    while len(out) < n:
        k = len(out) % 9
        if k == 8:      # ONE accepted send is ONE command: thread 0 makes one send() call with a payload above every plausible chunking
            # constant (64 KiB, 128 KiB, 256 KiB, 1 MiB, several MiB); the other unlocked senders are released when the engine's command
            # counter has moved, and a send() that comes back for the queue mutex a second time is held until they are through —
            # if the payload is queued in pieces, another sender's frame lands INSIDE it and the peer-side frame monitor sees it
            thr = rng.range(2, 4)
            big = rng.choice([65537, 131073, 262145, 524288, 524289, 1048577, 2097153] + ([4194305] if big_ok else []))
            sends = [[big, 0, 0, 0]] + [[rng.choice([8, 9, 64, 100, 200]), 0, t, 0] for t in range(1, thr) for _ in range(rng.range(1, 3))]
            if rng.chance(1, 2):
                sends.append([rng.choice([8, 3000, 70000]), 0, 0, 0])
            c = base_case(rng, i, thr=thr, nolock=1, gate=1, sends=sends, sndbuf=rng.choice([0, 0, 32768]),
                          wf=no_edge(rng, [rng.choice(["p", "p", "f500", "c16384", "a"]) for _ in range(rng.range(0, 5))]),
                          cat="boundary-one-send-one-command", **{"async": rng.choice([0, 1, 2, 2, 3, 3])})
            if c["tls"]:
                c["wf"] = ["w" if x == "a" else x for x in c["wf"]]
        elif k == 5:      # the plain connect window: connect completion reported late ("not yet" 1-3 times), sends queued meanwhile
            sends = [[rng.choice([1, 100, 5000, 40000]), rng.range(0, 250), 0, 0] for _ in range(rng.range(1, 6))]
            c = base_case(rng, i, role="cli", tls=0, early=1, sends=sends, gp="n" * rng.range(1, 3),
                          wf=no_edge(rng, [rng.choice(["a", "a", "c1", "m1", "p", "f500"]) for _ in range(rng.range(1, 6))]), cat="boundary-connect-window")
            if len(out) % 16 == 13:
                c["gp"] = c["gp"][:-1] + "r"       # ... or refused: everything accepted so far goes with the close
                c["expectend"] = 1
        elif k == 6:    # short writes from the drain loop with EPOLLOUT already registered and NO kernel edge (ET re-arm by MOD only)
            sends = [[rng.choice([200000, 5000, 7, 30000]), rng.range(0, 250), 0, 0] for _ in range(rng.range(2, 5))]
            c = base_case(rng, i, et=1, tls=int(rng.chance(1, 3)), sends=sends, cat="boundary-no-edge-rearm",
                          wf=[rng.choice(["C1000", "C1", "M1", "F500", "C16384"]) for _ in range(rng.range(2, 8))])
            if c["tls"]:
                c["wf"] = [rng.choice([x, "R"]) for x in c["wf"]]
        elif k == 7:    # a fatal handshake failure with payloads queued in the handshake window; several unlocked senders
            if len(out) % 16 == 7:
                sends = [[rng.choice([1, 100, 5000]), rng.range(0, 250), 0, 0] for _ in range(rng.range(1, 4))]
                c = base_case(rng, i, tls=1, early=1, hsdelay=rng.choice([0, 300]), sends=sends, hf=rng.choice([["e"], ["w", "e"]]), expectend=1,
                              cat="boundary-handshake-error")
            else:
                thr = rng.range(2, 4)
                sends = [[rng.choice([8, 9, 100, 3000, 20000]), 0, rng.below(thr), 0] for _ in range(rng.range(6, 24))]
                c = base_case(rng, i, thr=thr, nolock=1, sends=sends, sndbuf=rng.choice([0, 4608]), **{"async": rng.choice([0, 1, 2, 3])},
                              wf=no_edge(rng, [rng.choice(["p", "c1", "m1", "a", "f500"]) for _ in range(rng.range(0, 8))]), cat="boundary-unlocked-senders")
                if c["tls"]:
                    c["wf"] = ["w" if x == "a" else x for x in c["wf"]]
        elif k == 0:      # cut positions on 1..4-byte payloads, direct write then queued retries
            ln = rng.range(1, 4)
            sends = [[ln, rng.range(0, 250), 0, 0] for _ in range(rng.range(1, 4))]
            wf = [rng.choice(cuts + ["a"]) for _ in range(rng.range(2, 12))]
            c = base_case(rng, i, sends=sends, wf=wf, cat="boundary-cut")
            if c["tls"]:
                c["wf"] = ["w" if x == "a" else ("c1" if x in ("c0", "m0") and ln == 1 else x) for x in wf]
        elif k == 1:    # backpressure: writes refused while exactly mwq .. mwq+2 payloads are queued
            mwq = rng.range(0, 4)
            nq = mwq + rng.choice([0, 1, 1, 2])
            sends = [[rng.range(1, 50), rng.range(0, 250), 0, 0] for _ in range(nq + 1)]
            c = base_case(rng, i, sends=sends, mwq=mwq, expectend=1, cat="boundary-backpressure",
                          wd=[rng.choice([0, 200, 1000]) for _ in range(6)])
            c["wf"] = (["w"] if c["tls"] else ["a"]) * rng.choice([3, 40, 200])
        elif k == 2 and len(out) % 18 == 2:
            # level-triggered TLS with ioReadChunk below the record size: the tail of a record sits inside OpenSSL, no epoll event
            # announces it — only the drain loop of readAvail delivers it
            chunk = rng.choice([1000, 4096, 4096, 16383])
            pw = [[rng.choice([chunk + 1, chunk + 4, 12004, 16384, 3 * chunk + 7]), rng.range(0, 250), rng.choice([0, 200])] for _ in range(rng.range(1, 3))]
            c = base_case(rng, i, tls=1, et=0, chunk=chunk, pw=pw, sends=[[10, 1, 0, 0]], cat="boundary-lt-tls-record-tail")
        elif k == 4 and len(out) % 18 == 4:
            # timer-originated close commands: stale (condition gone: dropped, the stream goes on) and effective (write stall with the
            # queue refused; handshake timeout inside the handshake window; connect timeout inside the connect window)
            o = rng.range(1, 3)
            pre = [[rng.choice([1, 100, 5000, 40000]), rng.range(0, 250), 0, 0] for _ in range(rng.range(1, 4))]
            post = [[rng.choice([1, 100, 5000]), rng.range(0, 250), 0, 0] for _ in range(rng.range(1, 3))]
            eff = rng.chance(1, 2)
            kw = {}
            if o == 3:
                kw = dict(wf=(["a"] * rng.choice([4, 40])) if eff else [], wd=[rng.choice([0, 200])] * 4)
            elif o == 2:
                kw = dict(tls=1, early=int(eff), hsdelay=rng.choice([1500, 3000]) if eff else 0)
            else:
                kw = dict(role="cli", tls=0, early=int(eff), gp=("n" * rng.range(3, 5)) if eff else "")
                if eff:
                    pre = pre[:rng.below(2)]        # the close must be dispatched while the connect is still pending
            c = base_case(rng, i, sends=pre + [[0, o, 0, 0]] + post, expectend=1, cat="boundary-close-origin", **kw)
            if o == 3 and c["tls"]:
                c["wf"] = ["w" if x == "a" else x for x in c["wf"]]
        elif len(out) % 18 in (12, 13):
            # one process() call dispatches the WHOLE swapped batch, in order: the I/O thread is parked after epoll_wait (wd) so that a
            # burst queues in ONE wake-up — more commands than the engine's per-wake-up event budget (epollMaxEvents set to 1..3, or
            # > 256 commands against the default) — and while the first command of that batch is in its write call a helper thread's
            # send() is accepted ("mid"): it must reach the wire AFTER the whole batch
            big = len(out) % 36 == 12
            eme = 0 if big else rng.range(1, 3)
            nb_ = rng.range(280, 330) if big else rng.range(eme + 3, eme + 9)
            sends = [[rng.choice([8, 9, 64, 100, 200]) if big else rng.choice([1, 100, 3000, 20000]), rng.range(0, 250), 0, 0] for _ in range(nb_)]
            c = base_case(rng, i, sends=sends, eme=eme, mid=[rng.choice([1, 77, 5000]), rng.range(0, 250)], wd=[rng.choice([3000, 20000])] * 6,
                          cat="boundary-batch-exceeds-event-budget")
        elif k == 2:    # reads around ioReadChunk
            chunk = rng.choice([1, 2, 1000, 4096, 65536])
            pw = [[max(1, chunk + d), rng.range(0, 250), rng.choice([0, 200])] for d in (rng.choice([-1, 0, 1]), 0, 1, chunk)]
            c = base_case(rng, i, chunk=chunk, pw=pw, sends=[[10, 1, 0, 0]], rf=[rng.choice(["p", "c1", "m1", "a" , "f500"]) for _ in range(rng.range(0, 8))],
                          cat="boundary-readchunk")
            if c["tls"]:
                c["rf"] = ["r" if x == "a" else x for x in c["rf"]]
        elif k == 3:    # payload sizes around the TLS record size / 64 KiB, cut at record boundaries
            ln = rng.choice([16383, 16384, 16385, 32768, 32769, 65535, 65536, 65537])
            sends = [[ln, rng.range(0, 250), 0, 0], [rng.choice([1, ln]), rng.range(0, 250), 0, 0]]
            wf = [rng.choice(["c16384", "c16383", "c16385", "m1", "c1", "p", "f500"]) for _ in range(rng.range(1, 8))]
            c = base_case(rng, i, sends=sends, wf=wf, sndbuf=rng.choice([0, 4608]), prcvbuf=rng.choice([0, 65536]), cat="boundary-record")
        else:           # sends in the connect / TLS-handshake window, several threads
            thr = rng.range(1, 4)
            sends = [[rng.choice([1, 100, 5000, 40000]), rng.range(0, 250), rng.below(thr), 0] for _ in range(rng.range(1, 8))]
            c = base_case(rng, i, sends=sends, thr=thr, early=1, hsdelay=rng.choice([0, 200, 1000]), tls=int(rng.chance(2, 3)),
                          wf=[rng.choice(["p", "c1", "m1", "w", "f500"]) for _ in range(rng.range(0, 6))], cat="boundary-handshake-window",
                          hf=["w"] * rng.range(0, 2))
            if not c["tls"]:
                c["wf"] = ["a" if x == "w" else x for x in c["wf"]]
                c["hf"] = []
        out.append(c)
        i += 1
    return out


def case_line(c):
    def lst(xs, sub="."):
        return ",".join(sub.join(str(v) for v in x) if isinstance(x, (list, tuple)) else str(x) for x in xs) if xs else "-"
    return ("case id=%s role=%s tls=%d et=%d batch=%d thr=%d sndbuf=%d rcvbuf=%d prcvbuf=%d mwq=%d cob=%d chunk=%d early=%d hsdelay=%d "
            "expectend=%d lossy=%d async=%d nolock=%d gate=%d so=%d eme=%d mid=%s gp=%s s2=%s cbsend=%s clsend=%s pclose=%s peer=%s sends=%s pw=%s echo=%s wf=%s rf=%s hf=%s wd=%s") % (
        c["id"], c["role"], c["tls"], c["et"], c["batch"], c["thr"], c["sndbuf"], c["rcvbuf"], c["prcvbuf"], c["mwq"], c["cob"], c["chunk"],
        c["early"], c["hsdelay"], c["expectend"], int(c["cob"] == 0 and c["mwq"] < 1024), c.get("async", 0), c.get("nolock", 0), c.get("gate", 0), c.get("so", 0), c.get("eme", 0), ".".join(str(v) for v in c.get("mid") or []) or "-",
        c.get("gp") or "-", lst(c.get("s2") or []), ".".join(str(v) for v in c.get("cbsend") or []) or "-", ".".join(str(v) for v in c.get("clsend") or []) or "-",
        "-" if c["pclose"] < 0 else str(c["pclose"]), ".".join(str(v) for v in c["peer"]),
        lst(c["sends"]), lst(c["pw"]), lst(c.get("echo") or []), lst(c["wf"]), lst(c["rf"]), lst(c["hf"]), lst(c["wd"]))


# ------------------------------------------------------------------ running the harness
def parse_harness_output(lines):
    """-> {case id: {"acc": [...], "segs": [...], "fin": {...}, "throw": str|None}}, machinery messages, counters"""
    res, mach, counters = {}, [], {}
    cur = None
    for l in lines:
        if l.startswith("begin "):
            cur = {"acc": [], "segs": [], "fin": None, "throw": None, "complete": False}
            res[l.split()[1]] = cur
        elif l.startswith("machinery "):
            mach.append(l)
        elif l.startswith("counters"):
            for t in l.split()[1:]:
                k, v = t.split("=")
                counters[k] = counters.get(k, 0) + int(v)
        elif cur is None:
            continue
        elif l.startswith("acc"):
            cur["acc"] = l.split()[1:]
        elif l.startswith("seg "):
            cur["segs"].append(l[4:])
        elif l.startswith("fin "):
            cur["fin"] = dict(t.split("=", 1) for t in l.split()[1:])
        elif l.startswith("throw "):
            cur["throw"] = l[6:]
        elif l.startswith("end "):
            cur["complete"] = True
            cur = None
    return res, mach, counters


def run_harness(ctx, hb, cases, workers):
    """Runs the cases in `workers` harness processes. A crash/hang inside a case is recorded on that case; the rest is re-run."""
    chunks = [cases[i::workers] for i in range(workers)]
    results, machinery, counters = {}, [], {}

    def work(chunk):
        out_res, out_mach, out_cnt = {}, [], {}
        todo = list(chunk)
        guard = 0
        while todo and guard < 40:
            guard += 1
            lines = [case_line(c) for c in todo] + ["counters"]
            out, rc, err = ctx.run_lines([hb], lines, timeout=1500)
            res, mach, cnt = parse_harness_output(out)
            out_mach += mach
            for k, v in cnt.items():
                out_cnt[k] = out_cnt.get(k, 0) + v
            done = 0
            for c in todo:
                r = res.get(str(c["id"]))
                if r is not None and r["complete"]:
                    out_res[c["id"]] = r
                    done += 1
                else:
                    break
            if done == len(todo):
                break
            # the process died (or reported a machinery failure) in todo[done]
            from vlib.core import classify_crash
            bad = todo[done]
            if any(m.split()[1] == str(bad["id"]) for m in mach):
                out_res[bad["id"]] = {"machinery": [m for m in mach if m.split()[1] == str(bad["id"])][0]}
            else:
                why = "hang" if (out and out[-1].startswith("hang")) or rc == 97 else classify_crash(rc, err)
                m_lw = re.search(r"lostwake=(-?\d+)", out[-1]) if out and out[-1].startswith("hang") else None
                out_res[bad["id"]] = {"crash": why, "stderr": err[-1500:], "partial": res.get(str(bad["id"])), "lostwake": int(m_lw.group(1)) if m_lw else -1}
            todo = todo[done + 1:]
        return out_res, out_mach, out_cnt

    with concurrent.futures.ThreadPoolExecutor(max_workers=workers) as ex:
        for r, m, cn in ex.map(work, chunks):
            results.update(r)
            machinery += m
            for k, v in cn.items():
                counters[k] = counters.get(k, 0) + v
    return results, machinery, counters


def model_lines(c, r):
    ls = ["tcp reset srv=%d tls=%d et=%d batch=%d mwq=%d cob=%d chunk=%d" % (c["role"] == "srv", c["tls"], c["et"], c["batch"], c["mwq"], c["cob"], c["chunk"])]
    if c["pw"]:
        ls.append("tcp pw " + " ".join("%d.%d" % (w[0], w[1]) for w in c["pw"]))
    ls.append("tcp acc " + " ".join(r["acc"]))
    ls += ["tcp seg " + s for s in r["segs"]]
    ls.append("tcp end")
    return ls


# ------------------------------------------------------------------ monitors (implementation output only)
def monitor(c, r):
    """Property failures visible in what the real code did in this case."""
    bad = []
    f = r["fin"]
    if f is None:
        return ["harness produced no result line"]
    g = lambda k: int(f[k])
    drop_policy = c["cob"] == 0 and c["mwq"] < 1024
    if g("foreign"):
        return []
    if c["tls"]:
        n_clear = sum(1 for s in r["segs"] for t in s.split(";") if t.startswith("W0:"))
        if n_clear:
            bad.append("T2: %d plain send() call(s) on a TLS session (clear text on the wire)" % n_clear)
        n_clear_r = sum(1 for s in r["segs"] for t in s.split(";") if t.startswith("R0:"))
        if n_clear_r:
            bad.append("T2: %d plain recv() call(s) on a TLS session (bytes taken from the socket behind OpenSSL's back)" % n_clear_r)
        if f["peer_hs"] == "0" and f["close_why"] == "shutdown" and f["note"] == "peer-handshake-failed":
            bad.append("T2: the TLS peer's handshake failed although the engine reported no handshake failure")
    if not drop_policy and g("peer_diff") != -1:
        bad.append("T1: the peer's byte stream is not a prefix of the accepted payloads concatenated in accepted order: first difference at byte %d (peer read %d, accepted %d)"
                   % (g("peer_diff"), g("peer_rx"), g("exp_total")))
    if c.get("nolock"):
        if g("tag_err") != -1:
            bad.append("T1/T5: unlocked concurrent senders: the peer's stream is not a sequence of whole, intact payloads in per-thread order (one accepted send must be contiguous on the wire): %s at byte %d (frames ok so far: %d)"
                       % (f["tag_what"], g("tag_err"), g("tag_frames")))
        elif f["close_why"] == "shutdown" and not g("stall") and g("tag_frames") != g("tag_accepted"):
            bad.append("T5: %d sends were accepted from the unlocked sender threads but the peer received %d payloads" % (g("tag_accepted"), g("tag_frames")))
    taken = sum(int(t[2:]) for sg in r["segs"] for t in sg.split(";") if t.startswith("S:"))
    # stop() clears _running before it enqueues Shutdown: the loop may already have drained and closed the queue, so the final
    # Shutdown command (Q) is taken from the queue or legitimately refused; every other accepted command must be taken exactly once
    n_acc = len([a for a in r["acc"] if a != "Q"])
    if c.get("nolock"):          # there the acc line is rebuilt from the peer's stream; the number of accepted sends is counted separately
        n_acc = len([a for a in r["acc"] if a != "Q" and not a.startswith("T")]) + g("tag_accepted")
    if not (n_acc <= taken <= n_acc + 1) and g("closed_cb") > 0:
        bad.append("T5: enqueue() accepted %d commands (+ Shutdown) but process()/shutdownDrain took %d from the queue (a command was lost or duplicated)" % (n_acc, taken))
    if g("s2") and not drop_policy and c["mwq"] >= 1024:
        if g("s2_diff") != -1:
            bad.append("T1: second session on the same engine: its peer's stream is not a prefix of what was sent to it (cross-talk / corruption) at byte %d" % g("s2_diff"))
        elif f["close_why"] == "shutdown" and not g("stall") and g("s2_rx") != g("s2_total"):
            bad.append("T1: second session on the same engine: %d of %d bytes arrived although nothing closed it before stop()" % (g("s2_rx"), g("s2_total")))
    if g("moved") and not drop_policy:
        bad.append("T1: an SSL_write that had answered WANT_READ/WANT_WRITE was retried with a different buffer or a shorter length (%d time(s))" % g("moved"))
    if g("dlv_diff") != -1:
        bad.append("T4: the bytes handed to the data callback are not a prefix of what the peer wrote: first difference at byte %d" % g("dlv_diff"))
    if g("closed_cb") == 0 and (g("accepted_cb") or g("connected_cb") or c["role"] == "cli"):
        bad.append("T6: the session was never reported closed (no close callback, even after stop())")
    if g("closed_cb") > 1:
        bad.append("T6: the close callback fired %d times" % g("closed_cb"))
    early = f["close_why"] != "shutdown"
    if int(f.get("lostwake", "0")) > 0:
        bad.append("T5/T3: lost wake-up — %s command(s) enqueue() had accepted were still in the command queue, never dispatched, after seconds without any progress (the I/O thread sleeps in epoll_wait; eventfd write / drainEvt / process order)" % f["lostwake"])
    if drop_policy:
        pass
    elif g("stall"):
        if not early and g("peer_rx") < g("exp_total"):
            bad.append("T3: stall — %d accepted bytes never reached the peer while the session stayed open (lost EPOLLOUT re-arm / skipped data)"
                       % (g("exp_total") - g("peer_rx")))
        elif not early and g("dlv") < g("pw_written"):
            bad.append("T4: stall — %d bytes the peer wrote were never delivered while the session stayed open" % (g("pw_written") - g("dlv")))
        elif not early:
            bad.append("T3: stall — the case did not finish within the watchdog time")
    elif not early and not drop_policy:
        if g("peer_rx") != g("exp_total"):
            bad.append("T1: session open until stop() but the peer read %d of %d accepted bytes (bytes skipped silently)" % (g("peer_rx"), g("exp_total")))
        if g("dlv") != g("pw_written"):
            bad.append("T4: session open until stop() but %d of %d peer bytes were delivered" % (g("dlv"), g("pw_written")))
    if early and not c["expectend"] and f["close_why"] not in ("peerClosed",):
        # nothing in the schedule ends the session early: the acceptor decides (the model would not close); flagged as a note here
        pass
    return bad


def replay_obj(c, r, extra=None):
    o = {"case": c, "op": case_line(c), "fin": r.get("fin"), "acc": r.get("acc"),
         "segs_first": (r.get("segs") or [])[:40], "segs_last": (r.get("segs") or [])[-60:], "n_segs": len(r.get("segs") or [])}
    if extra:
        o.update(extra)
    return o


def check_cases(ctx, hb, cases, workers, dist, tag="", solo=False):
    """harness -> monitors -> acceptor. Returns number of cases validated."""
    unreproduced = []
    results, machinery, counters = run_harness(ctx, hb, cases, workers)
    for k, v in counters.items():
        ctx.extra.setdefault("interposer_counts", {})
        ctx.extra["interposer_counts"][k] = ctx.extra["interposer_counts"].get(k, 0) + v
    mlines, spans, good = [], [], []
    n_mach = 0
    for c in cases:
        r = results.get(c["id"])
        if r is None:
            continue
        if "machinery" in r:
            n_mach += 1
            continue
        if "crash" in r:
            if r["crash"] == "hang" and r.get("lostwake", -1) > 0:
                ctx.violation("property", "T5/T3: lost wake-up — the case hung with %d command(s) enqueue() had accepted still in the command queue, never dispatched (eventfd write / drainEvt / process order)" % r["lostwake"],
                              replay_obj(c, r.get("partial") or {}, {"crash": r["crash"], "stderr": r.get("stderr")}), found_input=True)
                continue
            hs = ctx.extra.setdefault("hang_reruns", {"done": 0, "reproduced": 0})
            if r["crash"] == "hang" and not solo and not hs["reproduced"]:
                # R7: the per-case watchdog on a loaded / paused machine: a hang counts only when a hanging case, run alone, fails
                # again (at most two such re-runs per check: once one has reproduced, later hangs are taken at face value; when the
                # budget is used up without a reproduction, later hangs are machinery as well)
                again = None
                if hs["done"] >= 2:
                    unreproduced.append("%s: hang (watchdog), re-run budget used up" % c["id"])
                    continue
                hs["done"] += 1
                for k in range(1):
                    cc = dict(c)
                    cc["id"] = "%s-solo%d" % (c["id"], k)
                    rr, _, _ = run_harness(ctx, hb, [cc], 1)
                    r2 = rr.get(cc["id"])
                    if r2 and ("crash" in r2 or (r2.get("fin") and monitor(cc, r2))):
                        again = (cc, r2)
                        break
                if again is None:
                    unreproduced.append("%s: hang (watchdog) not reproduced alone" % c["id"])
                    continue
                hs["reproduced"] += 1
                c, r = again
                if "crash" not in r:
                    ctx.violation("property", monitor(c, r)[0], replay_obj(c, r, {"failures": monitor(c, r)[:5], "first_run": "hang"}), found_input=True)
                    continue
            ctx.violation("property", "T1: the engine crashed / hung under this fault schedule: %s" % r["crash"],
                          replay_obj(c, r.get("partial") or {}, {"crash": r["crash"], "stderr": r.get("stderr")}), found_input=True)
            continue
        if r["throw"]:
            ctx.violation("property", "T1: exception escaped into the harness: %s" % r["throw"], replay_obj(c, r), found_input=True)
            continue
        if r["fin"] and r["fin"].get("foreign") == "1":
            raise RuntimeError("a second engine thread touched the session: the trace is not a single I/O-thread trace")
        ls = model_lines(c, r)
        spans.append((len(mlines), len(mlines) + len(ls)))
        mlines += ls
        good.append((c, r))
    if n_mach:
        raise RuntimeError("harness machinery failure (cannot bind / start): %s" % machinery[:2])
    mout, mrc, merr = ctx.run_lines(ctx.model_argv(COMPONENT), mlines, timeout=1500) if mlines else ([], 0, "")
    if mrc != 0 or len(mout) != len(mlines):
        raise RuntimeError("model driver failed rc=%s lines=%d/%d: %s" % (mrc, len(mout), len(mlines), merr[-400:]))
    for (c, r), (a, b) in zip(good, spans):
        out = mout[a:b]
        m = re.search(r" br=(\S+)", out[-1]) if out else None
        if m and m.group(1) != "-":
            for kvp in m.group(1).split(","):
                k, v = kvp.rsplit("=", 1)
                dist["model_branches"][k] = dist["model_branches"].get(k, 0) + int(v)
        fails = monitor(c, r)
        rejects = [(ls, o) for ls, o in zip(mlines[a:b], out) if not o.startswith("ok")]
        toks = [t for s in r["segs"] for t in s.split(";")]
        kinds = {"partial": any(re.match(r"W[01]:(\d+):\w+:n(\d+)$", t) and int(t.split(":")[1]) > int(t.split(":")[3][1:]) for t in toks),
                 "eagain": any(re.match(r"W[01]:.*:(a|r|w)$", t) for t in toks),
                 "queued": any(t.startswith("S:") and int(t[2:]) > 1 for t in toks)}
        nontrivial = kinds["partial"] or kinds["eagain"]
        ctx.count_case(case_line(c), nontrivial=nontrivial)
        dist["category"][c.get("cat", "corpus")] = dist["category"].get(c.get("cat", "corpus"), 0) + 1
        if c.get("echo"):
            dist["reached"]["echo_from_callback"] = dist["reached"].get("echo_from_callback", 0) + 1
        key = "%s/%s/%s/%s" % (c["role"], "tls" if c["tls"] else "plain", "ET" if c["et"] else "LT", "batch" if c["batch"] else "nobatch")
        dist["config"][key] = dist["config"].get(key, 0) + 1
        for k, v in kinds.items():
            if v:
                dist["reached"][k] = dist["reached"].get(k, 0) + 1
        why = r["fin"]["close_why"]
        dist["close_why"][why] = dist["close_why"].get(why, 0) + 1
        obs = dist["observations"]
        if c["cob"] == 0 and c["mwq"] < 1024 and int(r["fin"]["peer_diff"]) != -1:
            obs["drop_oldest_policy_peer_stream_not_a_prefix"] = obs.get("drop_oldest_policy_peer_stream_not_a_prefix", 0) + 1
        spin = sum(1 for s in r["segs"] if ";H:r;E:M:7" in s or ";H:r;E:M:3" in s)
        if spin > 20:
            obs["handshake_window_busy_poll_cases"] = obs.get("handshake_window_busy_poll_cases", 0) + 1
            obs["handshake_window_busy_poll_wakeups_max"] = max(obs.get("handshake_window_busy_poll_wakeups_max", 0), spin)
        dist["sends"] += sum(1 for x in r["acc"] if x.startswith("S"))
        dist["bytes"] += int(r["fin"]["exp_total"])
        dist["write_calls"] += sum(1 for t in toks if t.startswith("W"))
        dist["segments"] += len(r["segs"])
        if len(ctx.cov["samples"]) < 6 and nontrivial and ctx.rng.chance(1, 20):
            ctx.sample({"op": case_line(c)[:300], "acc": r["acc"][:8], "segs": [s[:120] for s in r["segs"][:6]], "fin": r["fin"]})
        api = [int(x) for x in r["fin"].get("api", "0.0.0.0").split(".")]
        for nm, v in zip(("send", "sendAsync", "sendSync", "sendSyncCancellable"), api):
            dist["api_calls"][nm] = dist["api_calls"].get(nm, 0) + v
        oc = [int(x) for x in r["fin"].get("oclose", "0.0.0.0").split(".")]
        for nm, v in zip(("app", "connect-timeout", "handshake-timeout", "write-stall"), oc):
            dist["close_commands"][nm] = dist["close_commands"].get(nm, 0) + v
        if int(r["fin"].get("mid", "0")):
            dist["reached"]["send_accepted_while_batch_over_event_budget_is_dispatched"] = dist["reached"].get("send_accepted_while_batch_over_event_budget_is_dispatched", 0) + 1
        for nm in ("cbsend", "clsend"):
            if int(r["fin"].get(nm, "0")):
                dist["reached"]["send_from_%s_callback" % ("accept_or_connect" if nm == "cbsend" else "close")] = dist["reached"].get("send_from_%s_callback" % ("accept_or_connect" if nm == "cbsend" else "close"), 0) + 1
        if c.get("gate"):
            dist["reached"]["gated_one_send_api_%d" % c.get("async", 0)] = dist["reached"].get("gated_one_send_api_%d" % c.get("async", 0), 0) + 1
        if fails and all(re.match(r"T[34]: stall", x) for x in fails) and not rejects and not solo:
            # R6: a stall seen once in a loaded parallel run is re-run alone; only a stall that shows again is a finding
            again = None
            for k in range(3):
                cc = dict(c)
                cc["id"] = "%s-solo%d" % (c["id"], k)
                rr, _, _ = run_harness(ctx, hb, [cc], 1)
                r2 = rr.get(cc["id"])
                if r2 and r2.get("fin") and monitor(cc, r2):
                    again = (cc, r2)
                    break
            if again is None:
                unreproduced.append("%s: %s" % (c["id"], fails[0][:120]))
                continue
            c, r = again
            fails = monitor(c, r)
        if fails:
            ctx.violation("property", fails[0], replay_obj(c, r, {"failures": fails[:5], "acceptor": [o for _, o in rejects][:3]}), found_input=True)
        elif rejects:
            ls, o = rejects[0]
            ctx.violation("correspondence", "the model cannot explain the trace of the real I/O thread (no property monitor fails on this case): %s | segment `%s`"
                          % (o[:200], ls[8:260]),
                          replay_obj(c, r, {"broken": {"correspondence": "tcpsession trace inclusion (harness/c01_tcp_stream.cpp vs Model/TcpSession.lean)",
                                                       "detail": o}, "rejected_segment": ls[:2000]}), found_input=False)
    ctx.cov["traces_validated_against_impl"] += len(good)
    if unreproduced:
        ctx.notes.append("stall not reproduced in 3 solo re-runs (machinery, not a finding): %s" % unreproduced[:3])
        if not ctx.violations:      # with reproduced failing inputs at hand the unreproduced one is only a note
            raise RuntimeError("a stall reported by the watchdog did not reproduce when the case was re-run alone (load / scheduling): %s" % unreproduced[:2])
    return len(good)


def load_corpus():
    d = os.path.join(os.path.dirname(os.path.dirname(os.path.abspath(__file__))), "corpus", "C01")
    out = []
    if os.path.isdir(d):
        for fn in sorted(os.listdir(d)):
            if fn.endswith(".json"):
                c = json.load(open(os.path.join(d, fn)))
                c = c.get("case", c)
                c["id"] = "corpus-" + fn[:-5]
                out.append(c)
    return out


def replay(ctx):
    obj = json.load(open(ctx.replay))
    c = obj.get("case")
    ctx.translate([COMPONENT])
    ctx.lake_build(MODULES)
    hb = ctx.build_harness(HARNESS, sanitize=True)
    if not hb or not c:
        print("replay: nothing to run (kind=%s)" % obj.get("kind"))
        return 1 if ctx.violations else 0
    dist = new_dist()
    runs = []
    for i in range(5):        # real sockets and threads: the same schedule is re-run a few times
        cc = dict(c)
        cc["id"] = "replay%d" % i
        runs.append(cc)
    check_cases(ctx, hb, runs, 1, dist, solo=True)
    still = bool(ctx.violations)
    for v in ctx.violations:
        print("STILL FAILS:", v.what[:300])
    print("replay: %s" % ("still failing" if still else "no longer failing in 5 runs"))
    import shutil
    shutil.rmtree(ctx.work, ignore_errors=True)
    return 1 if still else 0


def new_dist():
    return {"category": {}, "observations": {}, "model_branches": {}, "config": {}, "reached": {}, "close_why": {}, "api_calls": {}, "close_commands": {},
            "sends": 0, "bytes": 0, "write_calls": 0, "segments": 0}


def run(ctx: Ctx):
    if ctx.replay:
        return replay(ctx)
    quick = ctx.tier == "quick"
    rng = ctx.rng
    ctx.translate([COMPONENT])
    ok_build = ctx.lake_build(MODULES)
    if ok_build:
        ctx.audit(MODULES, OBLIGATIONS)
        if not quick:
            ctx.leanchecker(LEAN_FILES)
    else:
        ctx.cov["obligations"] = len(OBLIGATIONS)
    hb = ctx.build_harness(HARNESS, sanitize=True)
    dist = new_dist()
    if hb:
        n = 300 if quick else 5000
        cases = load_corpus()
        corners = [(et, b, tls, role) for et in (True, False) for b in (True, False) for tls in (True, False) for role in ("srv", "cli")]
        crng = rng.fork("cases")
        nb = 72 if quick else 1008
        for i in range(n - nb):
            corner = corners[i % len(corners)] if i < len(corners) * (2 if quick else 20) else None
            cases.append(gen_case(crng, i, quick, corner))
        cases += gen_boundary_cases(rng.fork("boundary"), n - nb, nb, big_ok=not quick)
        workers = 6 if quick else 8
        # in rounds, so that a broken tree (where many cases end in the stall watchdog) is reported after the first failing round
        per_round = 100 if quick else 500
        for k in range(0, len(cases), per_round):
            check_cases(ctx, hb, cases[k:k + per_round], workers, dist)
            if ctx.violations:
                ctx.notes.append("stopped after %d of %d cases: violations found" % (min(k + per_round, len(cases)), len(cases)))
                break
    ctx.extra["input_distribution"] = dist
    ctx.extra["repo_tree_sha"] = ctx.repo_tree_sha(ANCHOR_FILES)
    ctx.extra["not_proved"] = [
        "liveness is stated as T3_rearm (a writable event is armed whenever the queue is non-empty) + T3_fair_drain (enough productive writable events empty the queue); that epoll delivers the armed event is an assumption about the kernel, not a theorem",
        "doConnect / onListener / timers / GC closes are C02 (here: 'session closed' is an output); TLS configuration is C07",
        "EventBatchProcessor: the handling order of one batch is the Lean function batchOrder (theorem: order-preserving permutation; the acceptor uses it; shape facts in gen_conforms); adaptive batch sizing, the epoll_wait timeout and the statistics are not modelled",
        "the eventfd wake-up is modelled in a counting abstraction (Model/TcpWake.lean: one critical-section slot stands for any number of senders, commands are counted, not named): no_lost_wakeup / wakeup_dispatches_all hold for every schedule of that model; it is tied to the code by the order facts (write after push_back under the lock, drainEvt before process in both loops, eventfd registered level-triggered) and by the harness' lost-wake-up monitor, not by exhaustive scheduling of the real code; Wake and Enq (T5) are two models of the same functions, their composition is not one theorem",
        "the catch block of process() (an exception thrown half-way through doSend) is not modelled; C++ exceptions are outside the model",
        "In.shutdown models shutdownDrain's residual swap; the correspondence run produces a non-empty residual only through sends issued from inside the close callback during stop() (branch counter shutdown:residual-sends-dropped), not through sender threads racing stop()",
        "Rd.Env (kernel buffer + plaintext buffered inside OpenSSL, invisible to epoll) is an environment model: T4_wakeup_drains_environment is about every such environment, that OpenSSL behaves like one is an assumption exercised by the level-triggered TLS small-chunk cases",
        "the model merges Session::tlsMode and tlsState into one field; that they are only ever set together is pinned by the translator facts tlsAssignments / tlsDefaults in gen_conforms, not proved about the C++",
        "T5's micro-step model is tied to enqueue()/process() by the lock-scope facts and by unlocked concurrent senders in the harness (per-thread order + integrity at the peer), not by exhaustive scheduling of the real code",
    ]
    ctx.assumptions += [
        "kernel TCP: bytes accepted by send() are delivered to the peer in order, or the connection ends",
        "OpenSSL record layer: SSL_write returning n>0 means n plaintext bytes will be delivered in order; OpenSSL may emit records of a refused SSL_write before answering WANT_* (that is why the retry must pass the same buffer: proved as retry_same_buffer for the model, and checked per trace: same length + content hash); SSL_read returns plaintext it has buffered before touching the socket, and that plaintext raises no epoll event",
        "epoll: an EPOLL_CTL_MOD carrying EPOLLOUT on a writable socket yields an event (ET and LT). After an injected EAGAIN / WANT_WRITE (which mean 'not writable now') the interposer re-issues the last registered mask, i.e. the edge a kernel delivers when the socket becomes writable again; after the upper-case fault kinds (short write / SSL_write WANT_READ with the socket still writable) NO edge is fabricated, so only the engine's own MOD re-arms an edge-triggered EPOLLOUT",
        "send() may return a short count while the socket stays writable (legal by POSIX; on Linux e.g. under memory pressure)",
        "one TRACED session per engine (a second live session is only monitored for cross-talk/loss); payload sizes 1 B .. 512 KiB (the (int) casts of payload sizes >= 2^31 are outside the explored range)",
    ]
    return ctx.finish(level="proof", rule="a case = one fault schedule (config corner, payload sizes, sender threads, write/read/handshake fault lists, delays) run once against the real engine; "
                      "distinct = distinct schedule lines; non-trivial = the real I/O thread saw at least one short write or one EAGAIN/WANT_* on the session")
