"""C18 — WebSocket framing round-trips and reassembles under any segmentation (DESIGN §7 C18)."""
import os, json
from vlib.core import Ctx, hexs, unhex, ddmin

ID = "C18"
MODULES = ["IoraModel.Props.C18"]
OBLIGATIONS = [
    {"id": "C18_W1", "theorem": "Iora.C18.W1_roundtrip", "kind": "proved",
     "statement": "parse (serialize f ++ x) = frame f |serialize f| for every well-formed frame, every payload length < 2^64, masked or not"},
    {"id": "C18_W2", "theorem": "Iora.C18.W2_prefix_incomplete", "kind": "proved",
     "statement": "every strict prefix of a serialised frame parses as incomplete"},
    {"id": "C18_W3_stable", "theorem": "Iora.C18.W3_stable", "kind": "proved",
     "statement": "a non-incomplete answer never changes when more bytes arrive (RSV-free buffers)"},
    {"id": "C18_W3_generic", "theorem": "Iora.Framing.segmentation_independent", "kind": "proved",
     "statement": "greedy framing with a stable parser yields the same frames for every segmentation of a good stream"},
    {"id": "C18_W3_frames", "theorem": "Iora.C18.W3_frames", "kind": "proved",
     "statement": "every segmentation of a stream of valid frames yields exactly the serialised frames, nothing left over"},
    {"id": "C18_W3_server", "theorem": "Iora.C18.W3_server_segmentation_independent", "kind": "proved",
     "statement": "server events are the same for any two segmentations of a valid close-last stream"},
    {"id": "C18_W3_server_fn", "theorem": "Iora.C18.W3_server_events_of_frames", "kind": "proved",
     "statement": "server events are a function of the frame list (handler folded over frames)"},
    {"id": "C18_W4_reassembly", "theorem": "Iora.C18.W4_reassembly", "kind": "proved",
     "statement": "fragments joined in order, controls between fragments harmless, ping->pong same payload, text only if UTF-8, delivered once"},
    {"id": "C18_W4_utf8", "theorem": "Iora.C18.W4_utf8", "kind": "proved",
     "statement": "isValidUtf8 accepts exactly Unicode Table 3-7 well-formed UTF-8"},
    {"id": "C18_W5", "theorem": "Iora.C18.W5_no_data_after_close", "kind": "proved",
     "statement": "for every history of app sends and reads, no data frame is sent after a close frame (server)"},
    {"id": "C18_W6c", "theorem": "Iora.C18.W6_server_buffer_bounded", "kind": "proved",
     "statement": "for every history and arbitrary bytes the session retains < 14 + max unparsed bytes"},
    {"id": "C18_W3_client", "theorem": "Iora.C18.W3_client_segmentation_independent", "kind": "proved",
     "statement": "client events are the same for any two segmentations of any valid stream"},
    {"id": "C18_W4_client", "theorem": "Iora.C18.W4_client_reassembly", "kind": "proved",
     "statement": "client reassembly: pongs for pings, one in-order delivery, text only if UTF-8"},
    {"id": "C18_W5_client", "theorem": "Iora.C18.W5_client_no_data_after_close", "kind": "proved",
     "statement": "client: for every history no data frame follows a close frame"},
    {"id": "C18_W6c_client", "theorem": "Iora.C18.W6_client_buffer_bounded", "kind": "proved",
     "statement": "client: retained buffer < 14 + kMaxFramePayload for every history and arbitrary bytes"},
    {"id": "C18_W6a", "theorem": "Iora.C18.W6_frame_bounds", "kind": "proved",
     "statement": "arbitrary bytes: consumed <= size, allocation <= available and <= max"},
    {"id": "C18_W6b", "theorem": "Iora.C18.W6_incomplete_short", "kind": "proved",
     "statement": "an incomplete buffer is shorter than 14 + max (bounded buffering)"},
]
ANCHOR_FILES = ["include/iora/network/websocket_frame.hpp", "include/iora/network/websocket_server.hpp",
                "include/iora/network/websocket_client.hpp"]

CONTROL = (8, 9, 10)
DATA = (0, 1, 2)
BOUNDARY_LENS = [0, 1, 2, 124, 125, 126, 127, 128, 255, 256, 65534, 65535, 65536, 65537, 70001]


# ------------------------------------------------------------------ independent reference encoder (generator side)
def ws_ser(fin, op, masked, key, payload):
    b0 = (op & 15) | (0x80 if fin else 0)
    n = len(payload)
    m = 0x80 if masked else 0
    if n <= 125:
        h = bytes([b0, m | n])
    elif n <= 0xFFFF:
        h = bytes([b0, m | 126]) + n.to_bytes(2, "big")
    else:
        h = bytes([b0, m | 127]) + n.to_bytes(8, "big")
    if masked:
        return h + key + bytes(payload[i] ^ key[i % 4] for i in range(n))
    return h + payload


def frame_line(fin, op, masked, key, payload, consumed):
    return "frame %d %d %d %s %s %d" % (fin, op, masked, hexs(key if masked else b"\0\0\0\0"), hexs(payload), consumed)


def rand_utf8(rng, n):
    out = []
    for _ in range(n):
        k = rng.below(10)
        if k < 5:
            cp = rng.range(0x20, 0x7E)
        elif k < 7:
            cp = rng.range(0x80, 0x7FF)
        elif k < 9:
            cp = rng.choice([rng.range(0x800, 0xD7FF), rng.range(0xE000, 0xFFFF)])
        else:
            cp = rng.range(0x10000, 0x10FFFF)
        out.append(chr(cp))
    return "".join(out).encode("utf-8")


UTF8_EDGE = [b"", b"\x7f", b"\x80", b"\xc0\x80", b"\xc1\xbf", b"\xc2\x80", b"\xdf\xbf", b"\xe0\x80\x80", b"\xe0\x9f\xbf", b"\xe0\xa0\x80",
             b"\xed\x9f\xbf", b"\xed\xa0\x80", b"\xed\xbf\xbf", b"\xee\x80\x80", b"\xef\xbf\xbf", b"\xf0\x80\x80\x80", b"\xf0\x8f\xbf\xbf",
             b"\xf0\x90\x80\x80", b"\xf4\x8f\xbf\xbf", b"\xf4\x90\x80\x80", b"\xf5\x80\x80\x80", b"\xf8\x88\x80\x80\x80", b"\xff", b"\xfe",
             b"\xe2\x82", b"\xe2", b"\xf0\x9f\x98", b"\xc2", b"a\xc2", b"\xe2\x82\xac", b"\xf0\x9f\x98\x80", b"\xe2\x28\xa1", b"\xc3\x28",
             b"\xf0\x28\x8c\xbc", b"\xf0\x90\x28\xbc", b"\xf0\x28\x8c\x28", b"\xe0\xa0", b"\xf4\x8f\xbf", b"\xf1\x80\x80\x80", b"\xf3\xbf\xbf\xbf"]


def py_utf8_ok(b):
    try:
        b.decode("utf-8", "strict")
        return True
    except UnicodeDecodeError:
        return False


def rand_payload(rng, n):
    k = rng.below(4)
    if k == 0:
        return bytes([rng.below(256)]) * n
    if k == 1:
        return bytes((i * 7 + 3) & 0xFF for i in range(n))
    return rng.bytes(n)


def rand_frame(rng, big_ok=True):
    op = rng.choice([0, 1, 2, 1, 2, 8, 9, 10, 3, 7, 11, 15]) if rng.chance(1, 4) else rng.choice([0, 1, 2, 8, 9, 10])
    ctl = op in CONTROL
    fin = True if ctl else rng.chance(2, 3)
    masked = rng.chance(1, 2)
    key = rng.bytes(4) if masked else b"\0\0\0\0"
    if ctl:
        n = rng.choice([0, 1, 2, 125, 124, rng.range(0, 125)])
    else:
        n = rng.choice(BOUNDARY_LENS) if (big_ok and rng.chance(1, 3)) else rng.range(0, 300)
    return fin, op, masked, key, rand_payload(rng, n)


# ------------------------------------------------------------------ case generation
def gen_codec_cases(ctx, rng, scale):
    cases = []
    # (a) round trip with trailing bytes
    for i in range(400 * scale):
        fin, op, masked, key, pl = rand_frame(rng)
        wire = ws_ser(fin, op, masked, key, pl)
        trail = rng.bytes(rng.choice([0, 0, 1, 2, 5, 17]))
        mx = rng.choice([len(pl), len(pl) + 1, 2 ** 64 - 1, 16777216 if len(pl) <= 16777216 else len(pl)])
        cases.append({"cat": "roundtrip", "ops": ["parse %d %s" % (mx, hexs(wire + trail))],
                      "expect": [frame_line(fin, op, masked, key, pl, len(wire))]})
        if i % 4 == 0:
            cases.append({"cat": "ser", "ops": ["ser %d %d %d %s %s" % (fin, op, masked, hexs(key), hexs(pl))], "expect": [hexs(wire)]})
    # (b) strict prefixes (every cut of small frames, header cuts of large ones)
    for i in range(60 * scale):
        fin, op, masked, key, pl = rand_frame(rng, big_ok=(i % 5 == 0))
        wire = ws_ser(fin, op, masked, key, pl)
        cuts = list(range(len(wire))) if len(wire) <= 64 else list(range(0, 16)) + [len(wire) - 1, len(wire) // 2]
        mx = rng.choice([len(pl), 2 ** 64 - 1])
        cases.append({"cat": "prefix", "ops": ["parse %d %s" % (mx, hexs(wire[:c])) for c in cuts], "expect": ["incomplete"] * len(cuts)})
    # (c) boundary stream: declared lengths near every width limit, few bytes available
    decl = [125, 126, 127, 128, 65535, 65536, 65537, 2 ** 31 - 1, 2 ** 31, 2 ** 32 - 1, 2 ** 32, 2 ** 32 + 1, 2 ** 63 - 1, 2 ** 63, 2 ** 63 + 1] + \
           [2 ** 64 - k for k in range(1, 21)]
    for d in decl:
        for op in (1, 2, 0, 9, 8, 5):
            for masked in (0, 1):
                for form in (126, 127):
                    if form == 126 and d > 0xFFFF:
                        continue
                    hdr = bytes([0x80 | op, (0x80 if masked else 0) | form]) + d.to_bytes(2 if form == 126 else 8, "big")
                    avail = rng.choice([0, 1, 4, 5, 14, 40])
                    data = hdr + rng.bytes(avail)
                    for mx in (2 ** 64 - 1, 16777216, d, d - 1 if d else 0):
                        cases.append({"cat": "boundary", "ops": ["parse %d %s" % (mx, hexs(data))], "declared": d})
    # control-frame protocol errors (F10 witnesses): length code 126/127 or FIN=0 on a control opcode
    for op in CONTROL:
        for b1 in (126, 127, 126 | 0x80, 127 | 0x80):
            cases.append({"cat": "control-error", "ops": ["parse 16777216 %s" % hexs(bytes([0x80 | op, b1]) + rng.bytes(10))],
                          "expect": ["protocolError"]})
        cases.append({"cat": "control-error", "ops": ["parse 16777216 %s" % hexs(bytes([op, 0]))], "expect": ["protocolError"]})
    # (d) mutated and arbitrary bytes
    for i in range(500 * scale):
        if i % 3 == 0:
            data = rng.bytes(rng.range(0, 40))
        else:
            fin, op, masked, key, pl = rand_frame(rng, big_ok=False)
            w = bytearray(ws_ser(fin, op, masked, key, pl))
            for _ in range(rng.range(1, 3)):
                k = rng.below(4)
                if k == 0 and w:
                    w[rng.below(min(len(w), 14))] ^= 1 << rng.below(8)
                elif k == 1 and w:
                    del w[rng.below(len(w)):]
                elif k == 2:
                    w[rng.below(len(w) + 1):0] = rng.bytes(rng.range(1, 3))
                elif w:
                    w[rng.below(min(len(w), 14))] = rng.below(256)
            data = bytes(w)
        mx = rng.choice([2 ** 64 - 1, 16777216, 100, 10])
        cases.append({"cat": "mutated", "ops": ["parse %d %s" % (mx, hexs(data))], "avail": len(data), "max": mx})
    # (f) utf-8: python's strict decoder is the independent reference
    for e in UTF8_EDGE:
        cases.append({"cat": "utf8", "ops": ["utf8 %s" % hexs(e)], "expect": ["1" if py_utf8_ok(e) else "0"]})
        cases.append({"cat": "utf8", "ops": ["utf8 %s" % hexs(b"ab" + e + b"c")], "expect": ["1" if py_utf8_ok(b"ab" + e + b"c") else "0"]})
    for i in range(300 * scale):
        s = bytearray(rand_utf8(rng, rng.range(0, 12)))
        if i % 2 and s:
            k = rng.below(3)
            if k == 0:
                s[rng.below(len(s))] ^= 1 << rng.below(8)
            elif k == 1:
                del s[rng.below(len(s))]
            else:
                s.insert(rng.below(len(s) + 1), rng.choice([0x80, 0xBF, 0xC0, 0xC1, 0xE0, 0xED, 0xF0, 0xF4, 0xF5, 0xFF]))
        s = bytes(s)
        cases.append({"cat": "utf8", "ops": ["utf8 %s" % hexs(s)], "expect": ["1" if py_utf8_ok(s) else "0"]})
    return cases


def gen_stream(rng, maxframe):
    """A protocol-valid client->server frame stream + what the server must deliver for it."""
    frames = []
    expect = []      # ("T", bytes) | ("B", bytes) | ("PONG", bytes) | ("CLOSE1007",) | ("TOOBIG",) | ("CLOSE", code, reason)
    nmsg = rng.range(1, 5)
    for _ in range(nmsg):
        kind = rng.below(10)
        if kind < 4:
            pl = rand_utf8(rng, rng.range(0, 30))
            op = 1
        elif kind < 5:
            pl = rng.choice(UTF8_EDGE) + rand_utf8(rng, rng.range(0, 3))
            op = 1
        elif kind < 9:
            pl = rand_payload(rng, rng.choice([0, 1, 125, 126, 127, 300, rng.range(0, 200)]))
            op = 2
        else:
            pl = rand_payload(rng, maxframe + rng.range(-2, 3)) if maxframe < 5000 else rand_payload(rng, 70000)
            op = 2
        nfrag = rng.choice([1, 1, 2, 3, 4])
        cuts = sorted(rng.below(len(pl) + 1) for _ in range(nfrag - 1))
        parts = [pl[a:b] for a, b in zip([0] + cuts, cuts + [len(pl)])]
        toobig = False
        acc = 0
        for i, part in enumerate(parts):
            # control frames may be injected between fragments
            if rng.chance(1, 4):
                cp = rng.bytes(rng.choice([0, 1, 8, min(125, maxframe)]))   # a control payload above the limit is (rightly) tooLarge
                cop = rng.choice([9, 10])
                k = rng.bytes(4)
                frames.append(ws_ser(True, cop, True, k, cp))
                if cop == 9:
                    expect.append(("PONG", cp))
            masked = rng.chance(3, 4)
            k = rng.bytes(4) if masked else b"\0\0\0\0"
            frames.append(ws_ser(i == len(parts) - 1, op if i == 0 else 0, masked, k, part))
            acc += len(part)
            if acc > maxframe:
                expect.append(("TOOBIG",))
                toobig = True
                break
        if toobig:
            # the real server keeps the oversize fragment buffer; what follows is implementation-defined for the monitor
            return frames, expect, True
        if op == 1:
            expect.append(("T", pl) if py_utf8_ok(pl) else ("CLOSE1007",))
        else:
            expect.append(("B", pl))
    if rng.chance(1, 2):
        code = rng.choice([1000, 1001, 3000])
        reason = rand_utf8(rng, rng.range(0, 5))
        body = rng.choice([b"", code.to_bytes(2, "big") + reason])
        frames.append(ws_ser(True, 8, True, rng.bytes(4), body))
        expect.append(("CLOSE", body))
    return frames, expect, False


def segmentations(rng, stream, quick):
    n = len(stream)
    segs = [[stream]]
    cuts = list(range(1, n)) if (n <= 40 or not quick) and n <= 400 else sorted(set(rng.below(max(n - 1, 1)) + 1 for _ in range(24)) | set(range(1, min(n, 16))))
    for c in cuts:
        if 0 < c < n:
            segs.append([stream[:c], stream[c:]])
    for _ in range(3):
        k = rng.range(2, 6)
        cs = sorted(set(rng.below(n + 1) for _ in range(k)))
        parts = [stream[a:b] for a, b in zip([0] + cs, cs + [n])]
        segs.append(parts)     # may contain empty reads
    if n <= 120:
        segs.append([stream[i:i + 1] for i in range(n)])
    return segs


def gen_server_cases(ctx, rng, scale, quick):
    cases = []
    for sidx in range(50 * scale):
        maxframe = rng.choice([16777216, 16777216, 300, 64, 200])
        frames, expect, unsure = gen_stream(rng, maxframe)
        stream = b"".join(frames)
        app = []
        if rng.chance(1, 3):
            app = [rng.choice(["srv sendText %s" % hexs(rand_utf8(rng, 3)), "srv sendBinary %s" % hexs(rng.bytes(4)),
                               "srv sendPing %s" % hexs(rng.bytes(2)), "srv sendClose 1000 %s" % hexs(b"bye")]) for _ in range(rng.range(1, 4))]
        for gi, segs in enumerate(segmentations(rng, stream, quick)):
            ops = ["srv reset %d" % maxframe] + ["srv data %s" % hexs(s) for s in segs]
            # application sends after the stream (same for every segmentation, so events stay comparable)
            ops += app
            cases.append({"cat": "server-stream", "ops": ops, "stream_id": sidx, "expect_msgs": expect, "unsure": unsure,
                          "maxframe": maxframe, "stream_len": len(stream), "nseg": len(segs)})
    # robustness: protocol-invalid / mutated streams through the server
    for i in range(120 * scale):
        maxframe = rng.choice([16777216, 100, 64])
        frames, _, _ = gen_stream(rng, maxframe)
        w = bytearray(b"".join(frames))
        k = rng.below(6)
        if k == 0:
            w[0:0] = bytes([0x80 | rng.choice(CONTROL), rng.choice([126, 127, 254, 255])]) + rng.bytes(4)
        elif k == 1:
            w[0:0] = bytes([0x82, 127]) + (2 ** 64 - rng.range(1, 20)).to_bytes(8, "big")
        elif k == 2:
            w[0:0] = bytes([0x82, 127]) + (maxframe + rng.range(1, 3)).to_bytes(8, "big") + rng.bytes(30)
        elif k == 3 and w:
            for _ in range(3):
                w[rng.below(len(w))] ^= 1 << rng.below(8)
        elif k == 4:
            w[0:0] = bytes([rng.choice(CONTROL), 0])      # control frame without FIN
        else:
            w = bytearray(rng.bytes(rng.range(1, 60)))
        w = bytes(w)
        n = len(w)
        cs = sorted(set(rng.below(n + 1) for _ in range(rng.range(0, 4))))
        parts = [w[a:b] for a, b in zip([0] + cs, cs + [n])]
        ops = ["srv reset %d" % maxframe] + ["srv data %s" % hexs(p) for p in parts]
        # keep feeding: an endpoint that stalls on a protocol error would buffer this without bound
        ops += ["srv data %s" % hexs(rng.bytes(200)) for _ in range(3)]
        ops += ["srv sendText %s" % hexs(b"late")]
        cases.append({"cat": "server-robust", "ops": ops, "maxframe": maxframe})
    # application sends racing the close handshake (single-threaded orders; the locked sections make these the atomic steps)
    for i in range(60 * scale):
        ops = ["srv reset 16777216"]
        for _ in range(rng.range(2, 8)):
            k = rng.below(7)
            if k == 0:
                ops.append("srv sendText %s" % hexs(rand_utf8(rng, 4)))
            elif k == 1:
                ops.append("srv sendBinary %s" % hexs(rng.bytes(3)))
            elif k == 2:
                ops.append("srv sendClose %d %s" % (rng.choice([1000, 1001]), hexs(b"x")))
            elif k == 3:
                ops.append("srv data %s" % hexs(ws_ser(True, 8, True, rng.bytes(4), (1000).to_bytes(2, "big"))))
            elif k == 4:
                ops.append("srv data %s" % hexs(ws_ser(True, 1, True, rng.bytes(4), b"hi")))
            elif k == 5:
                ops.append("srv sendPing %s" % hexs(rng.bytes(2)))
            else:
                ops.append("srv data %s" % hexs(ws_ser(True, 9, True, rng.bytes(4), b"p")))
        cases.append({"cat": "server-close-race", "ops": ops, "maxframe": 16777216})
    return cases




def gen_client_cases(ctx, rng, scale, quick):
    """Server->client streams through the real WebSocketClient::handleData (post-upgrade), every segmentation; app sends around."""
    cases = []
    for sidx in range(40 * scale):
        frames, expect, unsure = gen_stream(rng, 16777216)
        stream = b"".join(frames)
        app = []
        if rng.chance(1, 3):
            app = [rng.choice(["cli sendText %s" % hexs(rand_utf8(rng, 3)), "cli sendBinary %s" % hexs(rng.bytes(4)),
                               "cli sendPing %s" % hexs(rng.bytes(2)), "cli sendClose 1000 %s" % hexs(b"bye")]) for _ in range(rng.range(1, 4))]
        for segs in segmentations(rng, stream, quick):
            ops = ["cli reset"] + ["cli data %s" % hexs(x) for x in segs] + app
            cases.append({"cat": "client-stream", "ops": ops, "stream_id": "c%d" % sidx, "expect_msgs": expect, "unsure": unsure,
                          "stream_len": len(stream), "nseg": len(segs)})
    for i in range(80 * scale):
        frames, _, _ = gen_stream(rng, 16777216)
        w = bytearray(b"".join(frames))
        k = rng.below(6)
        if k == 0:
            w[0:0] = bytes([0x80 | rng.choice(CONTROL), rng.choice([126, 127, 254, 255])]) + rng.bytes(4)
        elif k == 1:
            w[0:0] = bytes([0x82, 127]) + (2 ** 64 - rng.range(1, 20)).to_bytes(8, "big")
        elif k == 2:
            w[0:0] = bytes([0x82, 127]) + (16777216 + rng.range(1, 3)).to_bytes(8, "big") + rng.bytes(30)
        elif k == 3 and w:
            for _ in range(3):
                w[rng.below(len(w))] ^= 1 << rng.below(8)
        elif k == 4:
            w[0:0] = bytes([rng.choice(CONTROL), 0])
        else:
            w = bytearray(rng.bytes(rng.range(1, 60)))
        w = bytes(w)
        n = len(w)
        cs = sorted(set(rng.below(n + 1) for _ in range(rng.range(0, 4))))
        parts = [w[a:b] for a, b in zip([0] + cs, cs + [n])]
        ops = ["cli reset"] + ["cli data %s" % hexs(x) for x in parts]
        ops += ["cli data %s" % hexs(rng.bytes(200)) for _ in range(3)] + ["cli sendText %s" % hexs(b"late")]
        cases.append({"cat": "client-robust", "ops": ops})
    for i in range(60 * scale):
        ops = ["cli reset"]
        for _ in range(rng.range(2, 8)):
            k = rng.below(7)
            if k == 0:
                ops.append("cli sendText %s" % hexs(rand_utf8(rng, 4)))
            elif k == 1:
                ops.append("cli sendBinary %s" % hexs(rng.bytes(3)))
            elif k == 2:
                ops.append("cli sendClose %d %s" % (rng.choice([1000, 1001]), hexs(b"x")))
            elif k == 3:
                ops.append("cli data %s" % hexs(ws_ser(True, 8, False, b"", (1000).to_bytes(2, "big"))))
            elif k == 4:
                ops.append("cli data %s" % hexs(ws_ser(True, 1, False, b"", b"hi")))
            elif k == 5:
                ops.append("cli sendPing %s" % hexs(rng.bytes(2)))
            else:
                ops.append("cli data %s" % hexs(ws_ser(True, 9, False, b"", b"p")))
        cases.append({"cat": "client-close-race", "ops": ops})
    return cases

# ------------------------------------------------------------------ property monitors (implementation output only)
def events_of(lines):
    evs = []
    for l in lines:
        if " | " not in l:
            continue
        e = l.split(" | ")[0]
        if e != "-":
            evs += e.split(";")
    return evs


def sent_opcode(ev):
    if ev.startswith("S:"):
        parts = ev.split(":")
        if len(parts) == 4:            # client form S:<op>:<fin>:<payload>
            return int(parts[1]) if parts[1].isdigit() else -1
        if len(ev) >= 4:
            return int(ev[2:4], 16) & 15
    return None


def monitor_case(c, impl):
    """Returns a list of property failures visible in the implementation's own output for this case."""
    bad = []
    for op, l in zip(c["ops"], impl):
        if l.startswith("throw") or l.startswith("crash:"):
            bad.append("W6: input makes the endpoint throw/crash: %s -> %s" % (op[:80], l))
    cat = c["cat"]
    if cat in ("roundtrip", "ser", "prefix", "utf8", "control-error") and "expect" in c:
        for op, l, e in zip(c["ops"], impl, c["expect"]):
            if l != e:
                tag = {"roundtrip": "W1", "ser": "W1", "prefix": "W2", "utf8": "W4(utf8)", "control-error": "W6"}[cat]
                bad.append("%s: %s -> got %s, reference says %s" % (tag, op[:100], l[:100], e[:100]))
    if cat in ("mutated", "boundary"):
        for op, l in zip(c["ops"], impl):
            t = l.split()
            if t and t[0] == "frame":
                avail = (len(op.split()[2]) // 2) if op.split()[2] != "-" else 0
                mx = int(op.split()[1])
                plen = 0 if t[5] == "-" else len(t[5]) // 2
                if int(t[6]) > avail or plen > avail or plen > mx:
                    bad.append("W6: frame exceeds the buffer or the limit: %s -> %s" % (op[:80], l[:80]))
            elif t and t[0] not in ("incomplete", "protocolError", "tooLarge"):
                if not (l.startswith("throw") or l.startswith("crash:")):
                    bad.append("W6: unexpected parse outcome %s" % l[:60])
    if cat.startswith("server") or cat.startswith("client"):
        evs = events_of(impl)
        seen_close = False
        for e in evs:
            so = sent_opcode(e)
            if so == 8:
                seen_close = True
            elif so in DATA and seen_close:
                bad.append("W5: data frame sent after a close frame: %s" % e[:40])
        for e in evs:
            if e.startswith("S:undecodable"):
                bad.append("W1: the client sent bytes that do not parse as one masked frame: %s" % e[:60])
        mf = c.get("maxframe", 16777216)
        for l in impl:
            if "buf=" in l:
                b = int(l.split("buf=")[1].split()[0])
                if b > mf + 13:
                    bad.append("W6: retained buffer %d exceeds maxFrameSize+13 (%d)" % (b, mf + 13))
    if cat == "client-stream" and not c.get("unsure"):
        evs = events_of(impl)
        got = []
        for e in evs:
            if e.startswith("T:"):
                got.append(("T", unhex(e[2:])))
            elif e.startswith("B:"):
                got.append(("B", unhex(e[2:])))
            elif e.startswith("S:"):
                pr = e.split(":")
                if len(pr) == 4 and pr[1] == "10":
                    got.append(("PONG", unhex(pr[3])))
                elif len(pr) == 4 and pr[1] == "8" and unhex(pr[3])[:2] == (1007).to_bytes(2, "big"):
                    got.append(("CLOSE1007",))
        want = [e for e in c["expect_msgs"] if e[0] in ("T", "B", "PONG", "CLOSE1007")]
        if got != want:
            bad.append("W3/W4: client delivered messages differ from the messages encoded: got %s want %s" % (str(got)[:200], str(want)[:200]))
    if cat == "server-stream" and not c.get("unsure"):
        evs = events_of(impl)
        got = []
        for e in evs:
            if e.startswith("T:"):
                got.append(("T", unhex(e[2:])))
            elif e.startswith("B:"):
                got.append(("B", unhex(e[2:])))
            elif e.startswith("S:"):
                w = unhex(e[2:])
                if w[0] & 15 == 10:
                    got.append(("PONG", w[2:]))
                elif w[0] & 15 == 8 and w[2:4] == (1007).to_bytes(2, "big"):
                    got.append(("CLOSE1007",))
        want = [e for e in c["expect_msgs"] if e[0] in ("T", "B", "PONG", "CLOSE1007")]
        # sends made by the appended application ops are not part of `want`; they are never pongs/1007
        if got != want:
            bad.append("W3/W4: delivered messages differ from the messages encoded: got %s want %s" % (str(got)[:200], str(want)[:200]))
    return bad


def replay(ctx):
    """Re-run the op list of a replay file on the real code and the model; exit 1 if the failure is still there."""
    obj = json.load(open(ctx.replay))
    ops = obj.get("ops") or []
    ctx.translate(["ws"])
    ctx.lake_build(MODULES + ["iora_model"])
    hb = ctx.build_harness("harness/c18_ws.cpp", sanitize=True)
    if not hb or not ops:
        print("replay: nothing to run (kind=%s)" % obj.get("kind"))
        return 1 if ctx.violations else 0
    c = {"cat": obj.get("category", "corpus"), "ops": ops, "unsure": True}
    (c, impl, model), = ctx.lockstep("ws", hb, [c])
    for o, a, b in zip(ops, impl, model):
        print("op    %s\n impl  %s\n model %s" % (o[:200], a[:200], b[:200]))
    fails = monitor_case(c, impl)
    for f in fails:
        print("PROPERTY FAILS:", f[:300])
    still = bool(fails) or impl != model
    print("replay: %s" % ("still failing" if still else "no longer failing"))
    import shutil
    shutil.rmtree(ctx.work, ignore_errors=True)
    return 1 if still else 0


def run(ctx: Ctx):
    if ctx.replay:
        return replay(ctx)
    quick = ctx.tier == "quick"
    scale = 1 if quick else 20
    rng = ctx.rng
    ok_tr = ctx.translate(["ws"])
    ok_build = ctx.lake_build(MODULES + ["iora_model"])
    if ok_build:
        ctx.audit(MODULES, OBLIGATIONS)
        if not quick:
            ctx.leanchecker(MODULES + ["IoraModel.Lemmas.WsFrame", "IoraModel.Lemmas.WsServer", "IoraModel.Lemmas.WsStream", "IoraModel.Lemmas.WsClient", "IoraModel.Model.WsClient", "IoraModel.Lemmas.Utf8", "IoraModel.Model.WsFrame", "IoraModel.Model.WsServer", "IoraModel.Common.Framing"])
    else:
        ctx.cov["obligations"] = len(OBLIGATIONS)
    hb = ctx.build_harness("harness/c18_ws.cpp", sanitize=True)
    dist = {}
    if hb:
        corpus = load_corpus()
        cases = corpus + gen_codec_cases(ctx, rng.fork("codec"), scale) + gen_server_cases(ctx, rng.fork("srv"), scale, quick) + \
            gen_client_cases(ctx, rng.fork("cli"), scale, quick)
        res = ctx.lockstep("ws", hb, cases)
        by_stream = {}
        n_mismatch = 0
        for c, impl, model in res:
            dist[c["cat"]] = dist.get(c["cat"], 0) + 1
            ctx.count_case("\n".join(c["ops"]), nontrivial=any(not l.startswith("incomplete") for l in impl))
            if c["cat"] in ("roundtrip", "server-stream", "boundary", "server-robust") and len(ctx.cov["samples"]) < 6 and ctx.rng.chance(1, 50):
                ctx.sample({"cat": c["cat"], "ops": [o[:160] for o in c["ops"][:6]], "impl": [l[:160] for l in impl[:6]]})
            fails = monitor_case(c, impl)
            mism = [(i, a, b) for i, (a, b) in enumerate(zip(impl, model)) if a != b]
            if c["cat"] in ("server-stream", "client-stream"):
                by_stream.setdefault(c["stream_id"], []).append((c, impl))
            if fails:
                report_property(ctx, hb, c, impl, model, fails)
            elif mism:
                n_mismatch += 1
                if n_mismatch <= 3:
                    i, a, b = mism[0]
                    ctx.violation("correspondence", "model and implementation disagree (no property monitor fails on this case): op `%s` impl=`%s` model=`%s`"
                                  % (c["ops"][i][:120], a[:120], b[:120]),
                                  {"broken": {"correspondence": "ws lockstep (harness/c18_ws.cpp vs Model/WsFrame.lean, Model/WsServer.lean)",
                                              "detail": "first differing op index %d" % i},
                                   "ops": c["ops"], "observed": impl, "expected_by_model": model}, found_input=False)
        # W3: every segmentation of one stream must give the same concatenated events (implementation only)
        nseg = 0
        for sid, lst in by_stream.items():
            base = events_of(lst[0][1])
            for c, impl in lst[1:]:
                nseg += 1
                if events_of(impl) != base:
                    report_property(ctx, hb, c, impl, None, ["W3: events depend on the segmentation: whole=%s cut=%s" % (str(base)[:200], str(events_of(impl))[:200])],
                                    extra={"whole_ops": lst[0][0]["ops"]})
                    break
        ctx.extra["segmentations_compared"] = nseg
    ctx.extra["input_distribution"] = dist
    ctx.extra["repo_tree_sha"] = ctx.repo_tree_sha(ANCHOR_FILES)
    ctx.extra["not_proved"] = ["client: the HTTP upgrade handshake part of handleData (before _upgradeComplete) is not modelled; post-upgrade data path is",
                               "W5 under true concurrency: the theorem is over sequences of the _wsMutex critical sections (sendClose sets the flag inside and sends outside the lock; modelled as one step, see assumptions)"]
    ctx.assumptions += ["single I/O thread per session (the server's per-session state is only touched under _wsMutex; concurrent interleavings of application sends are modelled as sequences of the locked sections)",
                        "the fake engine records bytes handed to Transport::sendAsync; delivery of those bytes is C01"]
    return ctx.finish(level="proof", rule="a case = one op list (codec op, or one segmentation of one generated frame stream fed to a fresh real WebSocketServer session); "
                      "distinct = distinct op lists; non-trivial = at least one answer other than `incomplete`")


def report_property(ctx, hb, c, impl, model, fails, extra=None):
    ops = c["ops"]
    if not ctx.violation_budget("property", fails[0]):
        ctx.violation("property", fails[0])
        return
    if len(ops) > 2:
        def still(sub):
            out, rc, err = ctx.run_lines([hb], sub, timeout=60)
            out = out + ["crash:" + str(rc)] * (len(sub) - len(out))
            cc = dict(c)
            cc["ops"] = sub
            cc["unsure"] = True      # the message oracle is tied to the full stream
            return bool([f for f in monitor_case(cc, out) if f.split(":")[0] == fails[0].split(":")[0]])
        try:
            if not fails[0].startswith("W3") and still(ops):
                ops = ddmin(ops, still, max_tests=60)
        except Exception:
            pass
    obj = {"ops": ops, "observed": impl if ops is c["ops"] else None, "expected_by_model": model, "failures": fails[:5], "category": c["cat"]}
    if extra:
        obj.update(extra)
    ctx.violation("property", fails[0], obj, found_input=True)


def load_corpus():
    d = os.path.join(os.path.dirname(os.path.dirname(os.path.abspath(__file__))), "corpus", "C18")
    out = []
    if os.path.isdir(d):
        for fn in sorted(os.listdir(d)):
            if fn.endswith(".json"):
                c = json.load(open(os.path.join(d, fn)))
                c.setdefault("cat", "corpus")
                if "expect_msgs" in c:
                    c["expect_msgs"] = [tuple(unhex(x) if i and isinstance(x, str) else x for i, x in enumerate(e)) for e in c["expect_msgs"]]
                out.append(c)
    return out
