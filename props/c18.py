"""C18 — WebSocket framing round-trips and reassembles under any segmentation (DESIGN §7 C18)."""
import os, json, hashlib, base64, itertools, threading
from vlib.core import Ctx, hexs, unhex, ddmin

ID = "C18"
MODULES = ["IoraModel.Props.C18"]
OBLIGATIONS = [
    {"id": "C18_W1", "theorem": "Iora.C18.W1_roundtrip", "kind": "proved",
     "statement": "parse (serialize f ++ x) = frame f |serialize f| for every well-formed frame, every payload length < 2^64, masked or not"},
    {"id": "C18_W1_necessary", "theorem": "Iora.C18.W1_control_bound_necessary", "kind": "proved",
     "statement": "the well-formedness hypothesis of W1 is necessary: every 126-byte ping serialises to bytes that parse as protocolError"},
    {"id": "C18_W1_endpoint", "theorem": "Iora.C18.W1_endpoint_frames_wellformed", "kind": "proved",
     "statement": "every frame a server session hands to the transport, in every history incl. sends from callbacks, is the serialisation of a well-formed frame (sendPing > 125 dropped, close reason cut to 123: FC18c)"},
    {"id": "C18_W1_endpoint_client", "theorem": "Iora.C18.W1_client_frames_wellformed", "kind": "proved",
     "statement": "client: every frame sent in every history is well-formed under any 4-byte mask key"},
    {"id": "C18_W2", "theorem": "Iora.C18.W2_prefix_incomplete", "kind": "proved",
     "statement": "every strict prefix of a serialised frame parses as incomplete"},
    {"id": "C18_W3_stable", "theorem": "Iora.C18.W3_stable", "kind": "proved",
     "statement": "a non-incomplete answer never changes when more bytes arrive (RSV-free buffers)"},
    {"id": "C18_W3_generic", "theorem": "Iora.Framing.segmentation_independent", "kind": "proved",
     "statement": "greedy framing with a stable parser yields the same frames for every segmentation of a good stream"},
    {"id": "C18_W3_frames", "theorem": "Iora.C18.W3_frames", "kind": "proved",
     "statement": "every segmentation of a stream of valid frames yields exactly the serialised frames, nothing left over"},
    {"id": "C18_W3_server_general", "theorem": "Iora.C18.W3_server_events_general", "kind": "proved",
     "statement": "server events = per-frame handler folded over the frames, for every segmentation and every callback behaviour, whenever every frame reaches a session that still exists"},
    {"id": "C18_W3_server", "theorem": "Iora.C18.W3_server_segmentation_independent", "kind": "proved",
     "statement": "server events are the same for any two segmentations of a valid close-last stream whose messages fit the limit"},
    {"id": "C18_W3_server_fn", "theorem": "Iora.C18.W3_server_events_of_frames", "kind": "proved",
     "statement": "server events are a function of the frame list (handler folded over frames)"},
    {"id": "C18_W3_server_msgs", "theorem": "Iora.C18.W3_server_messages_segmentation_independent", "kind": "proved",
     "statement": "delivered messages are the same for any two segmentations of ANY stream of valid frames (no CloseOnlyLast, no size condition)"},
    {"id": "C18_W4_reassembly", "theorem": "Iora.C18.W4_reassembly", "kind": "proved",
     "statement": "fragments joined in order, controls between fragments harmless, ping->pong same payload, text only if UTF-8, delivered once, fragment buffer empty afterwards"},
    {"id": "C18_W4_messages", "theorem": "Iora.C18.W4_messages_exact", "kind": "proved",
     "statement": "message-level exactness: any segmentation of the frames of a list of messages (unfragmented/fragmented, pings anywhere, optional final close) delivers exactly those messages in order"},
    {"id": "C18_W4_utf8", "theorem": "Iora.C18.W4_utf8", "kind": "proved",
     "statement": "isValidUtf8 accepts exactly Unicode Table 3-7 well-formed UTF-8"},
    {"id": "C18_W5", "theorem": "Iora.C18.W5_no_data_after_close", "kind": "proved",
     "statement": "for every history of app sends, reads and re-entrant sends from callbacks, no data frame is sent after a close frame (server)"},
    {"id": "C18_W5_locks", "theorem": "Iora.C18.W5_lock_discipline", "kind": "proved",
     "statement": "the lock/flag skeleton extracted from the source satisfies the discipline the models assume (check+send one critical section; flag set before every close send; callbacks unlocked), both endpoints"},
    {"id": "C18_W5_programs", "theorem": "Iora.C18.W5_programs_disciplined", "kind": "proved",
     "statement": "every send-path function of the regenerated skeleton, compiled to lock/flag/send actions, is a disciplined program of the small-step model (decide)"},
    {"id": "C18_W5_concurrent", "theorem": "Iora.C18.W5_concurrent", "kind": "proved",
     "statement": "any number of threads making any sequence of calls of those programs under ANY schedule: no data frame is handed over after a close frame (small-step mutex/flag/wire model)"},
    {"id": "C18_W6c", "theorem": "Iora.C18.W6_server_buffer_bounded", "kind": "proved",
     "statement": "for every history and arbitrary bytes the session retains < 14 + max unparsed bytes"},
    {"id": "C18_W6d", "theorem": "Iora.C18.W6_server_fragment_bounded", "kind": "proved",
     "statement": "for every history and arbitrary bytes the fragment buffer holds at most max bytes (FC18a)"},
    {"id": "C18_W6_upgrade", "theorem": "Iora.C18.W6_server_upgrade_boundary", "kind": "proved",
     "statement": "the buffer bounds hold for every continuation of a session created with trailing bytes behind the upgrade request"},
    {"id": "C18_W6e", "theorem": "Iora.C18.W6_transport_close_frees", "kind": "proved",
     "statement": "after the transport has closed the connection the session entry is gone and nothing done later under that id retains a byte (FC18g: bounded buffering across connections)"},
    {"id": "C18_W6_defaults", "theorem": "Iora.C18.W6_default_limits", "kind": "proved",
     "statement": "the regenerated default limits are 16 MiB (server and client frame/message limit), 64 KiB (pending upgrade response), 1 MiB (bytes held back during a server upgrade)"},
    {"id": "C18_handover_pinned", "theorem": "Iora.C18.C18_handover_pinned", "kind": "proved",
     "statement": "the six shape facts of the HTTP->WebSocket hand-over and the order of the pool thread's steps, regenerated from http_server.hpp / websocket_server.hpp, are what the step model assumes (decide)"},
    {"id": "C18_upgrade_handover", "theorem": "Iora.C18.C18_upgrade_handover", "kind": "proved",
     "statement": "pool thread || I/O thread, EVERY schedule: events = connect, 101, then onUpgradedData over a segmentation of a prefix of trailing++reads; the rest waits in order; nothing waits once the pool thread is done (FC18f)"},
    {"id": "C18_upgrade_sched", "theorem": "Iora.C18.C18_upgrade_schedule_independent", "kind": "proved",
     "statement": "any two finished hand-over runs of the same valid frame stream (any cut into trailing/reads, any interleaving) deliver the same messages"},
    {"id": "C18_old_handover", "theorem": "Iora.C18.C18_old_handover_refuted", "kind": "proved",
     "statement": "the unrepaired hand-over (route by _upgradedSessions alone, single drain) is NOT schedule independent: a read between mark and drain is delivered first"},
    {"id": "C18_upgrade_iff", "theorem": "Iora.C18.C18_upgrade_accepted_iff", "kind": "proved",
     "statement": "onUpgradeRequest (tokens and statuses regenerated from the source) accepts exactly: Upgrade = websocket (any case), Connection contains upgrade (any case), key present, version 13"},
    {"id": "C18_reconnect", "theorem": "Iora.C18.C18_reconnect_fresh", "kind": "proved",
     "statement": "doConnect (model defined from the regenerated list of resets) leaves exactly the fresh pre-upgrade client whatever the previous connection left"},
    {"id": "C18_W3_client", "theorem": "Iora.C18.W3_client_segmentation_independent", "kind": "proved",
     "statement": "client events are the same for any two segmentations of any valid stream, any callback behaviour"},
    {"id": "C18_W3_client_upgrade", "theorem": "Iora.C18.W3_client_upgrade_boundary", "kind": "proved",
     "statement": "client across the upgrade boundary: an accepted 101 response followed by any valid frame stream, cut anywhere (inside the response, at its end, inside a frame): one connect event, then the per-frame handler folded over the frames"},
    {"id": "C18_W4_client", "theorem": "Iora.C18.W4_client_reassembly", "kind": "proved",
     "statement": "client reassembly: pongs for pings, one in-order delivery, text only if UTF-8"},
    {"id": "C18_W4_client_messages", "theorem": "Iora.C18.W4_client_messages_exact", "kind": "proved",
     "statement": "client message-level exactness for every segmentation"},
    {"id": "C18_W5_client", "theorem": "Iora.C18.W5_client_no_data_after_close", "kind": "proved",
     "statement": "client: for every history (incl. the upgrade response, sends from callbacks and disconnect()'s courtesy CLOSE: FC18e) no data frame follows a close frame"},
    {"id": "C18_W6c_client", "theorem": "Iora.C18.W6_client_buffer_bounded", "kind": "proved",
     "statement": "client: retained buffer < 14 + max and fragment buffer <= max for every history and arbitrary bytes (FC18b)"},
    {"id": "C18_W6_client_upgrade", "theorem": "Iora.C18.W6_client_upgrade_bounded", "kind": "proved",
     "statement": "client waiting for the upgrade response retains at most kMaxUpgradeResponse bytes (FC18d); afterwards the frame bounds"},
    {"id": "C18_W6a", "theorem": "Iora.C18.W6_frame_bounds", "kind": "proved",
     "statement": "arbitrary bytes: consumed <= size, allocation <= available and <= max"},
    {"id": "C18_W6b", "theorem": "Iora.C18.W6_incomplete_short", "kind": "proved",
     "statement": "an incomplete buffer is shorter than 14 + max, for arbitrary bytes (bounded buffering)"},
    {"id": "C18_W1_opcodes", "theorem": "Iora.C18.W1_opcode_table", "kind": "proved",
     "statement": "the opcode numbers both models dispatch on are the regenerated enumerators of WsOpcode; the control set is isControlFrame's"},
    {"id": "C18_W4_same", "theorem": "Iora.C18.W4_server_client_same_messages", "kind": "proved",
     "statement": "server fed any segmentation and client fed any other segmentation of the frames of a message list (close last) deliver the same (opcode, payload) sequence"},
    {"id": "C18_W4_after_close_obs", "theorem": "Iora.C18.W4_data_after_peer_close_observation", "kind": "proved",
     "statement": "observation: on binary, CLOSE, binary (a stream RFC 6455 5.5.1 forbids) the server delivers one message, the client both"},
    {"id": "C18_RSV", "theorem": "Iora.C18.W6_rsv_observation", "kind": "proved",
     "statement": "observation: a first byte with an RSV bit yields an empty frame that is handled as real and is not extension-stable"},
]
ANCHOR_FILES = ["include/iora/network/websocket_frame.hpp", "include/iora/network/websocket_server.hpp",
                "include/iora/network/websocket_client.hpp", "include/iora/network/http_server.hpp"]
VERIF = os.path.dirname(os.path.dirname(os.path.abspath(__file__)))
DETSCHED = os.path.join(VERIF, "harness", "detsched", "detsched.cpp")
LEAN_MODULES_ALL = ["IoraModel.Lemmas.WsFrame", "IoraModel.Lemmas.WsServer", "IoraModel.Lemmas.WsStream", "IoraModel.Lemmas.WsClient",
                    "IoraModel.Lemmas.WsEndpoint", "IoraModel.Lemmas.WsUpgrade", "IoraModel.Model.WsClient", "IoraModel.Lemmas.Utf8", "IoraModel.Model.WsFrame",
                    "IoraModel.Model.WsServer", "IoraModel.Model.WsSkel", "IoraModel.Model.WsConc", "IoraModel.Lemmas.WsConc", "IoraModel.Common.Framing",
                    "IoraModel.Model.WsHandover", "IoraModel.Lemmas.WsHandover"]

CONTROL = (8, 9, 10)
DATA = (0, 1, 2)
BOUNDARY_LENS = [0, 1, 2, 124, 125, 126, 127, 128, 255, 256, 65534, 65535, 65536, 65537, 70001]


# ------------------------------------------------------------------ independent reference encoder (generator side)
def ws_ser(fin, op, masked, key, payload):
    b0 = (op & 15) | (0x80 if fin else 0)
    n = len(payload)
    m = 0x80 if masked else 0
    if n <= 125:
        h = bytes([b0, m | n])
    elif n <= 0xFFFF:
        h = bytes([b0, m | 126]) + n.to_bytes(2, "big")
    else:
        h = bytes([b0, m | 127]) + n.to_bytes(8, "big")
    if masked:
        return h + key + bytes(payload[i] ^ key[i % 4] for i in range(n))
    return h + payload


def frame_line(fin, op, masked, key, payload, consumed):
    return "frame %d %d %d %s %s %d" % (fin, op, masked, hexs(key if masked else b"\0\0\0\0"), hexs(payload), consumed)


def rand_utf8(rng, n):
    out = []
    for _ in range(n):
        k = rng.below(10)
        if k < 5:
            cp = rng.range(0x20, 0x7E)
        elif k < 7:
            cp = rng.range(0x80, 0x7FF)
        elif k < 9:
            cp = rng.choice([rng.range(0x800, 0xD7FF), rng.range(0xE000, 0xFFFF)])
        else:
            cp = rng.range(0x10000, 0x10FFFF)
        out.append(chr(cp))
    return "".join(out).encode("utf-8")


UTF8_EDGE = [b"", b"\x7f", b"\x80", b"\xc0\x80", b"\xc1\xbf", b"\xc2\x80", b"\xdf\xbf", b"\xe0\x80\x80", b"\xe0\x9f\xbf", b"\xe0\xa0\x80",
             b"\xed\x9f\xbf", b"\xed\xa0\x80", b"\xed\xbf\xbf", b"\xee\x80\x80", b"\xef\xbf\xbf", b"\xf0\x80\x80\x80", b"\xf0\x8f\xbf\xbf",
             b"\xf0\x90\x80\x80", b"\xf4\x8f\xbf\xbf", b"\xf4\x90\x80\x80", b"\xf5\x80\x80\x80", b"\xf8\x88\x80\x80\x80", b"\xff", b"\xfe",
             b"\xe2\x82", b"\xe2", b"\xf0\x9f\x98", b"\xc2", b"a\xc2", b"\xe2\x82\xac", b"\xf0\x9f\x98\x80", b"\xe2\x28\xa1", b"\xc3\x28",
             b"\xf0\x28\x8c\xbc", b"\xf0\x90\x28\xbc", b"\xf0\x28\x8c\x28", b"\xe0\xa0", b"\xf4\x8f\xbf", b"\xf1\x80\x80\x80", b"\xf3\xbf\xbf\xbf"]


def py_utf8_ok(b):
    try:
        b.decode("utf-8", "strict")
        return True
    except UnicodeDecodeError:
        return False


def rand_payload(rng, n):
    k = rng.below(4)
    if k == 0:
        return bytes([rng.below(256)]) * n
    if k == 1:
        return bytes((i * 7 + 3) & 0xFF for i in range(n))
    return rng.bytes(n)


def rand_frame(rng, big_ok=True):
    op = rng.choice([0, 1, 2, 1, 2, 8, 9, 10, 3, 7, 11, 15]) if rng.chance(1, 4) else rng.choice([0, 1, 2, 8, 9, 10])
    ctl = op in CONTROL
    fin = True if ctl else rng.chance(2, 3)
    masked = rng.chance(1, 2)
    key = rng.bytes(4) if masked else b"\0\0\0\0"
    if ctl:
        n = rng.choice([0, 1, 2, 125, 124, rng.range(0, 125)])
    else:
        n = rng.choice(BOUNDARY_LENS) if (big_ok and rng.chance(1, 3)) else rng.range(0, 300)
    return fin, op, masked, key, rand_payload(rng, n)


# ------------------------------------------------------------------ case generation
def gen_codec_cases(ctx, rng, scale):
    cases = []
    # (a) round trip with trailing bytes
    for i in range(400 * scale):
        fin, op, masked, key, pl = rand_frame(rng)
        wire = ws_ser(fin, op, masked, key, pl)
        trail = rng.bytes(rng.choice([0, 0, 1, 2, 5, 17]))
        mx = rng.choice([len(pl), len(pl) + 1, 2 ** 64 - 1, 16777216 if len(pl) <= 16777216 else len(pl)])
        cases.append({"cat": "roundtrip", "ops": ["parse %d %s" % (mx, hexs(wire + trail))],
                      "expect": [frame_line(fin, op, masked, key, pl, len(wire))]})
        if i % 4 == 0:
            cases.append({"cat": "ser", "ops": ["ser %d %d %d %s %s" % (fin, op, masked, hexs(key), hexs(pl))], "expect": [hexs(wire)]})
    # (b) strict prefixes (every cut of small frames, header cuts of large ones)
    for i in range(60 * scale):
        fin, op, masked, key, pl = rand_frame(rng, big_ok=(i % 5 == 0))
        wire = ws_ser(fin, op, masked, key, pl)
        cuts = list(range(len(wire))) if len(wire) <= 64 else list(range(0, 16)) + [len(wire) - 1, len(wire) // 2]
        mx = rng.choice([len(pl), 2 ** 64 - 1])
        cases.append({"cat": "prefix", "ops": ["parse %d %s" % (mx, hexs(wire[:c])) for c in cuts], "expect": ["incomplete"] * len(cuts)})
    # (c) boundary stream: declared lengths near every width limit, few bytes available
    decl = [125, 126, 127, 128, 65535, 65536, 65537, 2 ** 31 - 1, 2 ** 31, 2 ** 32 - 1, 2 ** 32, 2 ** 32 + 1, 2 ** 63 - 1, 2 ** 63, 2 ** 63 + 1] + \
           [2 ** 64 - k for k in range(1, 21)]
    for d in decl:
        for op in (1, 2, 0, 9, 8, 5):
            for masked in (0, 1):
                for form in (126, 127):
                    if form == 126 and d > 0xFFFF:
                        continue
                    hdr = bytes([0x80 | op, (0x80 if masked else 0) | form]) + d.to_bytes(2 if form == 126 else 8, "big")
                    avail = rng.choice([0, 1, 4, 5, 14, 40])
                    data = hdr + rng.bytes(avail)
                    for mx in (2 ** 64 - 1, 16777216, d, d - 1 if d else 0):
                        cases.append({"cat": "boundary", "ops": ["parse %d %s" % (mx, hexs(data))], "declared": d})
    # control-frame protocol errors (F10 witnesses): length code 126/127 or FIN=0 on a control opcode
    for op in CONTROL:
        for b1 in (126, 127, 126 | 0x80, 127 | 0x80):
            cases.append({"cat": "control-error", "ops": ["parse 16777216 %s" % hexs(bytes([0x80 | op, b1]) + rng.bytes(10))],
                          "expect": ["protocolError"]})
        cases.append({"cat": "control-error", "ops": ["parse 16777216 %s" % hexs(bytes([op, 0]))], "expect": ["protocolError"]})
    # (d) mutated and arbitrary bytes
    for i in range(500 * scale):
        if i % 3 == 0:
            data = rng.bytes(rng.range(0, 40))
        else:
            fin, op, masked, key, pl = rand_frame(rng, big_ok=False)
            w = bytearray(ws_ser(fin, op, masked, key, pl))
            for _ in range(rng.range(1, 3)):
                k = rng.below(4)
                if k == 0 and w:
                    w[rng.below(min(len(w), 14))] ^= 1 << rng.below(8)
                elif k == 1 and w:
                    del w[rng.below(len(w)):]
                elif k == 2:
                    w[rng.below(len(w) + 1):0] = rng.bytes(rng.range(1, 3))
                elif w:
                    w[rng.below(min(len(w), 14))] = rng.below(256)
            data = bytes(w)
        mx = rng.choice([2 ** 64 - 1, 16777216, 100, 10])
        cases.append({"cat": "mutated", "ops": ["parse %d %s" % (mx, hexs(data))], "avail": len(data), "max": mx})
    # (f) utf-8: python's strict decoder is the independent reference
    for e in UTF8_EDGE:
        cases.append({"cat": "utf8", "ops": ["utf8 %s" % hexs(e)], "expect": ["1" if py_utf8_ok(e) else "0"]})
        cases.append({"cat": "utf8", "ops": ["utf8 %s" % hexs(b"ab" + e + b"c")], "expect": ["1" if py_utf8_ok(b"ab" + e + b"c") else "0"]})
    for i in range(300 * scale):
        s = bytearray(rand_utf8(rng, rng.range(0, 12)))
        if i % 2 and s:
            k = rng.below(3)
            if k == 0:
                s[rng.below(len(s))] ^= 1 << rng.below(8)
            elif k == 1:
                del s[rng.below(len(s))]
            else:
                s.insert(rng.below(len(s) + 1), rng.choice([0x80, 0xBF, 0xC0, 0xC1, 0xE0, 0xED, 0xF0, 0xF4, 0xF5, 0xFF]))
        s = bytes(s)
        cases.append({"cat": "utf8", "ops": ["utf8 %s" % hexs(s)], "expect": ["1" if py_utf8_ok(s) else "0"]})
    # (g) makeClose boundary (FC18c): reason lengths around 123, UTF-8 sequences straddling the cut
    for n in (0, 1, 122, 123, 124, 125, 126, 200):
        for fill in (b"a", "\u00e9".encode(), "\u20ac".encode(), "\U0001f600".encode()):
            for shift in (0, 1, 2, 3):
                r = (b"x" * shift + fill * (n // len(fill) + 1))[:n + shift] if n else b""
                cases.append({"cat": "mkclose", "ops": ["mkclose %d %s" % (rng.choice([1000, 1001, 3000, 4999]), hexs(r))], "reason": r})
    cases.append({"cat": "mkclose", "ops": ["mkclose 1000 %s" % hexs(b"\x80" * 130)], "reason": b"\x80" * 130})
    return cases


def gen_stream(rng, maxframe, close_mid=False, ep="srv"):
    """A protocol-valid peer frame stream + what the endpoint must deliver for it.
    Returns dict(frames, expect, ends_early): `expect` lists ("T"|"B", bytes) | ("PONG", bytes) | ("CLOSE1007",) | ("TOOBIG",) |
    ("CLOSE", body) up to the frame that ends the session (a message over the limit; for the server also a CLOSE);
    frames keep coming after it (`ends_early` = at least one frame follows the end) - nothing more may be delivered."""
    st = {"frames": [], "expect": [], "ended": False, "ends_early": False}
    frames, expect = st["frames"], st["expect"]

    def push(fr):
        if st["ended"]:
            st["ends_early"] = True
        frames.append(fr)

    def ctl():
        cp = rng.bytes(rng.choice([0, 1, 8, min(125, maxframe)]))   # a control payload above the limit is (rightly) tooLarge
        cop = rng.choice([9, 10])
        push(ws_ser(True, cop, True, rng.bytes(4), cp))
        if cop == 9 and not st["ended"]:
            expect.append(("PONG", cp))

    def close(body):
        push(ws_ser(True, 8, True, rng.bytes(4), body))
        if not st["ended"]:
            expect.append(("CLOSE", body))
        if ep == "srv":          # the server erases the session; the client only changes state and keeps parsing
            st["ended"] = True

    nmsg = rng.range(1, 5)
    close_at = rng.below(nmsg) if close_mid else -1
    for mi in range(nmsg):
        if mi == close_at:
            close((1000).to_bytes(2, "big") + b"mid")
        kind = rng.below(10)
        if kind < 4:
            pl = rand_utf8(rng, rng.range(0, 30))
            op = 1
        elif kind < 5:
            pl = rng.choice(UTF8_EDGE) + rand_utf8(rng, rng.range(0, 3))
            op = 1
        elif kind < 8:
            pl = rand_payload(rng, rng.choice([0, 1, 125, 126, 127, 300, rng.range(0, 200)]))
            op = 2
        else:
            pl = rand_payload(rng, maxframe + rng.range(-2, 3)) if maxframe < 5000 else rand_payload(rng, 70000)
            op = 2
        nfrag = rng.choice([1, 1, 2, 3, 4])
        cuts = sorted(rng.below(len(pl) + 1) for _ in range(nfrag - 1))
        parts = [pl[a:b] for a, b in zip([0] + cuts, cuts + [len(pl)])]
        acc = 0
        toobig = False
        for i, part in enumerate(parts):
            if rng.chance(1, 4):
                ctl()
            masked = rng.chance(3, 4)
            k = rng.bytes(4) if masked else b"\0\0\0\0"
            push(ws_ser(i == len(parts) - 1, op if i == 0 else 0, masked, k, part))
            acc += len(part)
            if acc > maxframe and not toobig:
                toobig = True
                if not st["ended"]:
                    expect.append(("TOOBIG",))
                    st["ended"] = True      # both endpoints fail the connection; the generator keeps going
        if toobig:
            continue
        if not st["ended"]:
            if op == 1:
                expect.append(("T", pl) if py_utf8_ok(pl) else ("CLOSE1007",))
            else:
                expect.append(("B", pl))
        if rng.chance(1, 5):
            ctl()
    if rng.chance(1, 2):
        code = rng.choice([1000, 1001, 3000])
        reason = rand_utf8(rng, rng.range(0, 5))
        close(rng.choice([b"", code.to_bytes(2, "big") + reason]))
    return {"frames": frames, "expect": expect, "ends_early": st["ends_early"]}


def segmentations(rng, stream, quick, few=False):
    n = len(stream)
    segs = [[stream]]
    if few:
        cuts = sorted(set(rng.below(max(n - 1, 1)) + 1 for _ in range(6)))
    else:
        cuts = list(range(1, n)) if (n <= 40 or not quick) and n <= 400 else sorted(set(rng.below(max(n - 1, 1)) + 1 for _ in range(24)) | set(range(1, min(n, 16))))
    for c in cuts:
        if 0 < c < n:
            segs.append([stream[:c], stream[c:]])
    for _ in range(3):
        k = rng.range(2, 6)
        cs = sorted(set(rng.below(n + 1) for _ in range(k)))
        parts = [stream[a:b] for a, b in zip([0] + cs, cs + [n])]
        segs.append(parts)     # may contain empty reads
    if n <= 120 and not few:
        segs.append([stream[i:i + 1] for i in range(n)])
    return segs


def rand_send_item(rng, limit_hint=100):
    k = rng.below(8)
    if k < 3:
        return "t:%s" % hexs(rand_utf8(rng, rng.range(0, 4)))
    if k < 5:
        return "b:%s" % hexs(rng.bytes(rng.range(0, 5)))
    if k < 6:
        return "p:%s" % hexs(rng.bytes(rng.choice([0, 2, 125, 126])))
    return "c:%d:%s" % (rng.choice([1000, 1001, 4000]), hexs(rng.choice([b"", b"bye", b"r" * 130])))


def rand_script(rng):
    """what the application sends from inside onText / onBinary / onClose / onError"""
    def one():
        if rng.chance(1, 2):
            return "-"
        return ",".join(rand_send_item(rng) for _ in range(rng.range(1, 3)))
    return "%s %s %s %s" % (one(), one(), one(), one())


def app_op(rng, ep):
    k = rng.below(6)
    if k == 0:
        return "%s sendText %s" % (ep, hexs(rand_utf8(rng, 3)))
    if k == 1:
        return "%s sendBinary %s" % (ep, hexs(rng.bytes(4)))
    if k == 2:
        return "%s sendPing %s" % (ep, hexs(rng.bytes(rng.choice([2, 0, 125, 126, 200]))))
    if k == 3:
        return "%s sendClose 1000 %s" % (ep, hexs(b"bye"))
    if k == 4:
        return "%s sendClose %d %s" % (ep, rng.choice([1001, 4000]), hexs(rng.choice([b"r" * 123, b"r" * 124, "€".encode() * 50, b""])))
    return "%s sendText %s" % (ep, hexs(rand_utf8(rng, 1)))


CRLF2 = b"\r\n\r\n"
SAMPLE_KEY = b"dGhlIHNhbXBsZSBub25jZQ=="
SAMPLE_ACCEPT = base64.b64encode(hashlib.sha1(SAMPLE_KEY + b"258EAFA5-E914-47DA-95CA-C5AB0DC85B11").digest())


def upgrade_response(rng, kind="ok"):
    """An HTTP upgrade response for the harness's fixed key; `kind` selects a well-formed or a defective one."""
    acc = SAMPLE_ACCEPT
    status = b"HTTP/1.1 101 Switching Protocols"
    ws = rng.choice([b" ", b"", b"  ", b"\t", b" \t "])
    ws2 = rng.choice([b"", b" ", b"\t"])
    hdrs = [b"Upgrade: websocket", b"Connection: Upgrade"]
    acc_line = b"Sec-WebSocket-Accept:" + ws + acc + ws2
    if kind == "badstatus":
        status = rng.choice([b"HTTP/1.1 200 OK", b"HTTP/1.0 101 Switching Protocols", b" HTTP/1.1 101 x", b"HTTP/1.1 404 Not Found"])
    elif kind == "badaccept":
        acc_line = b"Sec-WebSocket-Accept:" + ws + rng.choice([acc[:-1], acc + b"x", b"", acc.lower(), b"x" + acc])
    elif kind == "noaccept":
        acc_line = b"X-Other: 1"
    elif kind == "lateaccept":
        acc_line = b"X-Other: 2"
    if rng.chance(1, 3):
        hdrs.append(b"Sec-WebSocket-Protocol: chat")
    hdrs.insert(rng.below(len(hdrs) + 1), acc_line)
    out = status + b"\r\n" + b"\r\n".join(hdrs) + CRLF2
    if kind == "lateaccept":
        out += b"Sec-WebSocket-Accept: " + acc + CRLF2      # after the header section: must not count
    return out


def gen_server_cases(ctx, rng, scale, quick):
    cases = []
    for sidx in range(44 * scale):
        maxframe = rng.choice([16777216, 16777216, 300, 64, 200])
        st = gen_stream(rng, maxframe, close_mid=(sidx % 9 == 8))
        stream = b"".join(st["frames"])
        script = rand_script(rng) if sidx % 3 == 1 else None
        app = [app_op(rng, "srv") for _ in range(rng.range(1, 4))] if rng.chance(1, 3) else []
        for gi, segs in enumerate(segmentations(rng, stream, quick, few=quick and len(stream) > 20000)):
            ops = ["srv reset %d" % maxframe] + (["srv script " + script] if script else []) + ["srv data %s" % hexs(s) for s in segs]
            ops += app    # application sends after the stream (same for every segmentation, so events stay comparable)
            cases.append({"cat": "server-stream", "ops": ops, "stream_id": sidx, "expect_msgs": st["expect"], "ends_early": st["ends_early"],
                          "maxframe": maxframe, "stream_len": len(stream), "nseg": len(segs)})
    # control frames between the fragments of a message that uses the WHOLE budget: controls do not count against the message
    for bi, M in enumerate([64, 200, 300, 64, 125, 126] * scale):
        pl = rand_payload(rng, M - rng.below(2))
        a = rng.range(1, len(pl) - 1)
        ping, pong = rng.bytes(min(125, M)), rng.bytes(min(125, M))
        frames = [ws_ser(False, 2, True, rng.bytes(4), pl[:a]), ws_ser(True, 9, True, rng.bytes(4), ping),
                  ws_ser(True, 10, True, rng.bytes(4), pong), ws_ser(True, 0, True, rng.bytes(4), pl[a:])]
        stream = b"".join(frames)
        for segs in segmentations(rng, stream, quick, few=True):
            cases.append({"cat": "server-stream", "ops": ["srv reset %d" % M] + ["srv data %s" % hexs(x) for x in segs], "stream_id": "budget%d" % bi,
                          "expect_msgs": [("PONG", ping), ("B", pl)], "ends_early": False, "maxframe": M, "stream_len": len(stream), "nseg": len(segs)})
    # the REAL upgrade boundary: the first `c` bytes of the stream arrive in the same read as the upgrade request
    # (HttpServer::handleIncomingData -> thread pool -> onUpgradeRequest -> 101 -> buffer drain -> onUpgradedData)
    for sidx in range(14 * scale):
        maxframe = rng.choice([16777216, 300, 64])
        st = gen_stream(rng, maxframe)
        stream = b"".join(st["frames"])
        if len(stream) > 60000:
            continue
        script = rand_script(rng) if sidx % 3 == 1 else None
        n = len(stream)
        cuts = sorted(set([0, n, min(n, 1), min(n, 2), n // 2, max(n - 1, 0)] + [rng.below(n + 1) for _ in range(3)]))
        for c in cuts:
            ops = ["srv reset %d" % maxframe] + (["srv script " + script] if script else []) + ["srv upgrade %s" % hexs(stream[:c])]
            rest = stream[c:]
            if rest:
                k = rng.below(len(rest) + 1)
                ops += ["srv data %s" % hexs(x) for x in (rest[:k], rest[k:]) if x or rng.chance(1, 4)]
            cases.append({"cat": "server-upgrade", "ops": ops, "stream_id": "u%d" % sidx, "expect_msgs": st["expect"], "ends_early": st["ends_early"],
                          "maxframe": maxframe, "stream_len": n, "cut": c})
    # CR LF CR LF INSIDE WebSocket bytes that trail the upgrade request (FC18f): the HTTP request loop must not look at them
    for sidx in range(6 * scale):
        inner = rng.choice([b"a\r\n\r\nb", b"\r\n\r\n", b"GET /x HTTP/1.1\r\nHost: h\r\n\r\n", b"x\r\nContent-Length: 5\r\n\r\nhello"])
        frames = [ws_ser(True, 1, True, b"\0\0\0\0", inner), ws_ser(True, 1, True, rng.bytes(4), b"two"),
                  ws_ser(True, 2, rng.chance(1, 2), b"\0\0\0\0", b"\r\n\r\n" + rng.bytes(3))]
        expect = [("T", inner), ("T", b"two"), ("B", frames[2][-7:])]
        stream = b"".join(frames)
        n = len(stream)
        for c in sorted(set([n, len(frames[0]), 3, len(frames[0]) + 2, rng.below(n + 1)])):
            ops = ["srv reset 16777216", "srv upgrade %s" % hexs(stream[:c])] + (["srv data %s" % hexs(stream[c:])] if c < n else [])
            cases.append({"cat": "server-upgrade", "ops": ops, "stream_id": "r%d" % sidx, "expect_msgs": expect, "ends_early": False,
                          "maxframe": 16777216, "stream_len": n, "cut": c, "crlf": True})
    # the hand-over under concurrency (FC18f): one read delivered while the pool thread is inside the origin callback (before the
    # mark), inside _onConnect (after mark and session creation, before the 101) or inside the first message callback of the drain
    for sidx in range(16 * scale):
        maxframe = rng.choice([16777216, 300, 64])
        st = gen_stream(rng, maxframe)
        stream = b"".join(st["frames"])
        if len(stream) > 60000:
            continue
        script = rand_script(rng) if sidx % 4 == 1 else None
        n = len(stream)
        for point in ("origin", "connect", "msg"):
            for _ in range(2):
                c1 = rng.choice([0, rng.below(n + 1), len(st["frames"][0]), min(n, 1)])
                c1 = min(c1, n)
                c2 = rng.choice([n, rng.range(c1, n), min(n, c1 + 1)])
                ops = ["srv reset %d" % maxframe] + (["srv script " + script] if script else [])
                ops.append("srv upgrade2 %s %s %s" % (hexs(stream[:c1]), point, hexs(stream[c1:c2])))
                if c2 < n:
                    ops.append("srv data %s" % hexs(stream[c2:]))
                cases.append({"cat": "server-upgrade2", "ops": ops, "stream_id": "v%d" % sidx, "expect_msgs": st["expect"], "ends_early": st["ends_early"],
                              "maxframe": maxframe, "stream_len": n, "cut": c1, "point": point})
    # onUpgradeRequest variants: header values in any case / with extra tokens / absent / wrong; accepted ones carry trailing frames
    U = [b"websocket", b"WebSocket", b"WEBSOCKET", b"websocket2", b"h2c", b"", b"web socket"]
    Cn = [b"Upgrade", b"upgrade", b"keep-alive, Upgrade", b"UPGRADE", b"keep-alive", b"", b"close", b"xupgradex"]
    Ky = [SAMPLE_KEY, SAMPLE_KEY, b"abc", b""]
    Vs = [b"13", b"13", b"12", b"8", b"", b"130"]
    for i in range(36 * scale):
        if i % 3 == 0:
            u, cn, ky, vs = rng.choice(U[:3]), rng.choice(Cn[:4]), rng.choice(Ky[:3]), b"13"
        else:
            u, cn, ky, vs = rng.choice(U), rng.choice(Cn), rng.choice(Ky), rng.choice(Vs)
        ok = u.lower() == b"websocket" and b"upgrade" in cn.lower() and ky != b"" and vs == b"13"
        tr = b""
        if ok and rng.chance(1, 2):
            tr = ws_ser(True, 1, True, rng.bytes(4), b"hi") + ws_ser(True, 9, True, rng.bytes(4), b"p")
        ops = ["srv reset 16777216", "srv upgradeh %s %s %s %s %s" % (hexs(u), hexs(cn), hexs(ky), hexs(vs), hexs(tr))]
        if ok:
            ops.append("srv data %s" % hexs(ws_ser(True, 2, True, rng.bytes(4), b"later")))
        cases.append({"cat": "server-upgradeh", "ops": ops, "maxframe": 16777216, "accepted": ok})
    # the transport closes the connection (peer drops TCP) while the session holds state (FC18g): nothing may stay behind
    for i in range(24 * scale):
        maxframe = rng.choice([16777216, 300, 64])
        k = i % 6
        pre = []
        if k == 0:      # half a fragmented message
            pre = [ws_ser(False, rng.choice([1, 2]), True, rng.bytes(4), rng.bytes(rng.range(1, min(maxframe, 200))))]
        elif k == 1:    # a partial frame
            w = ws_ser(True, 2, True, rng.bytes(4), rng.bytes(40))
            pre = [w[:rng.range(1, len(w) - 1)]]
        elif k == 2:    # after a 1007 close (the server sent CLOSE, the peer never answers)
            pre = [ws_ser(True, 1, True, rng.bytes(4), b"\xff"), ws_ser(False, 2, True, rng.bytes(4), b"abc")]
        elif k == 3:    # after an unknown opcode (1002 sent, session kept)
            pre = [ws_ser(True, rng.choice([3, 7, 11]), True, rng.bytes(4), b""), ws_ser(False, 1, True, rng.bytes(4), b"x")]
        elif k == 4:    # idle session
            pre = []
        else:           # after the close handshake (entry already erased)
            pre = [ws_ser(True, 8, True, rng.bytes(4), (1000).to_bytes(2, "big"))]
        ops = ["srv reset %d" % maxframe] + ["srv data %s" % hexs(x) for x in pre] + ["srv tclose"]
        ops += [rng.choice(["srv sendText 6869", "srv sendClose 1000 -", "srv data %s" % hexs(ws_ser(True, 2, True, rng.bytes(4), b"late")), "srv sendPing 70"])
                for _ in range(rng.range(0, 2))]
        cases.append({"cat": "server-tclose", "ops": ops, "maxframe": maxframe, "shape": k})
    # limits: maxFrameSize 0, and the constructor default (never calling setMaxFrameSize) at its real 16 MiB boundary
    for pl in (b"", b"x"):
        for op in (1, 2, 9):
            cases.append({"cat": "server-limit", "ops": ["srv reset 0", "srv data %s" % hexs(ws_ser(True, op, True, rng.bytes(4), pl)), "srv sendText 6869"], "maxframe": 0})
    for declared in (16777215, 16777216, 16777217, 2 ** 32):
        hdr = bytes([0x82, 0x80 | 127]) + declared.to_bytes(8, "big") + rng.bytes(4) + rng.bytes(20)
        cases.append({"cat": "server-limit", "ops": ["srv reset default", "srv data %s" % hexs(hdr), "srv data %s" % hexs(rng.bytes(30))], "maxframe": 16777216,
                      "declared": declared})
    # endpoint sends with 16- and 64-bit length encodings
    for ln in (125, 126, 127, 65535, 65536, 70001):
        pl = rand_payload(rng, ln)
        cases.append({"cat": "server-bigsend", "ops": ["srv reset 16777216", "srv sendBinary %s" % hexs(pl), "srv sendText %s" % hexs(b"a" * ln)], "maxframe": 16777216})
        cases.append({"cat": "client-bigsend", "ops": ["cli reset", "cli sendBinary %s" % hexs(pl), "cli sendText %s" % hexs(b"a" * ln)], "maxframe": 16777216})
    # shapes the mutation family reaches only by luck: a start frame while a fragmented message is in progress, an orphan
    # continuation, a 1-byte close body, an application send between the two halves of a frame
    for i in range(30 * scale):
        ep = "srv" if i % 2 == 0 else "cli"
        mk = (lambda fin, op, pl: ws_ser(fin, op, True, rng.bytes(4), pl)) if ep == "srv" else (lambda fin, op, pl: ws_ser(fin, op, False, b"", pl))
        k = (i // 2) % 5
        if k == 0:
            w = [mk(False, 1, b"ab"), mk(False, 2, b"\1\2"), mk(True, 0, b"\3")]
        elif k == 1:
            w = [mk(True, 0, b"orphan"), mk(True, 1, b"ok")]
        elif k == 2:
            w = [mk(False, 0, b"orphan"), mk(True, 0, b"end"), mk(True, 2, b"z")]
        elif k == 3:
            w = [mk(True, 1, b"hi"), mk(True, 8, b"\x03")]
        else:
            w = [mk(False, 1, b"ab"), mk(True, 1, b"cd"), mk(True, 0, b"ef")]
        wire = b"".join(w)
        c = rng.below(len(wire) + 1)
        ops = ["%s reset%s" % (ep, " 16777216" if ep == "srv" else "")] + (["%s script %s" % (ep, rand_script(rng))] if i % 3 == 0 else [])
        ops += ["%s data %s" % (ep, hexs(wire[:c])), app_op(rng, ep), "%s data %s" % (ep, hexs(wire[c:])), app_op(rng, ep)]
        cases.append({"cat": "%s-shapes" % ("server" if ep == "srv" else "client"), "ops": ops, "maxframe": 16777216, "shape": k})
    # robustness: protocol-invalid / mutated streams through the server
    for i in range(110 * scale):
        maxframe = rng.choice([16777216, 100, 64])
        st = gen_stream(rng, maxframe)
        w = bytearray(b"".join(st["frames"]))
        k = rng.below(7)
        if k == 0:
            w[0:0] = bytes([0x80 | rng.choice(CONTROL), rng.choice([126, 127, 254, 255])]) + rng.bytes(4)
        elif k == 1:
            w[0:0] = bytes([0x82, 127]) + (2 ** 64 - rng.range(1, 20)).to_bytes(8, "big")
        elif k == 2:
            w[0:0] = bytes([0x82, 127]) + (maxframe + rng.range(1, 3)).to_bytes(8, "big") + rng.bytes(30)
        elif k == 3 and w:
            for _ in range(3):
                w[rng.below(len(w))] ^= 1 << rng.below(8)
        elif k == 4:
            w[0:0] = bytes([rng.choice(CONTROL), 0])      # control frame without FIN
        elif k == 5:
            w = bytearray(rng.bytes(rng.range(1, 60)))
        else:
            # a message that never ends: non-final fragments for ever (the fragment buffer must stay bounded)
            w = bytearray(ws_ser(False, rng.choice([1, 2]), True, rng.bytes(4), rng.bytes(rng.range(0, 8))))
            for _ in range(rng.range(10, 30)):
                w += ws_ser(False, 0, rng.chance(1, 2), rng.bytes(4), rng.bytes(rng.range(1, max(2, min(maxframe, 40)))))
        w = bytes(w)
        n = len(w)
        cs = sorted(set(rng.below(n + 1) for _ in range(rng.range(0, 4))))
        parts = [w[a:b] for a, b in zip([0] + cs, cs + [n])]
        ops = ["srv reset %d" % maxframe] + (["srv script " + rand_script(rng)] if i % 4 == 0 else []) + ["srv data %s" % hexs(p) for p in parts]
        # keep feeding: an endpoint that stalls on a protocol error would buffer this without bound
        ops += ["srv data %s" % hexs(rng.bytes(200)) for _ in range(3)]
        ops += ["srv sendText %s" % hexs(b"late")]
        cases.append({"cat": "server-robust", "ops": ops, "maxframe": maxframe})
    # application sends racing the close handshake (single-threaded orders; the locked sections make these the atomic steps),
    # with RE-ENTRANT sends from inside the callbacks
    for i in range(80 * scale):
        ops = ["srv reset 16777216"]
        if i % 2 == 0:
            ops.append("srv script " + rand_script(rng))
        for _ in range(rng.range(2, 8)):
            k = rng.below(8)
            if k <= 2:
                ops.append(app_op(rng, "srv"))
            elif k == 3:
                ops.append("srv data %s" % hexs(ws_ser(True, 8, True, rng.bytes(4), (1000).to_bytes(2, "big"))))
            elif k == 4:
                ops.append("srv data %s" % hexs(ws_ser(True, rng.choice([1, 2]), True, rng.bytes(4), b"hi")))
            elif k == 5:
                ops.append("srv data %s" % hexs(ws_ser(True, 1, True, rng.bytes(4), b"\xff")))      # invalid UTF-8 -> close 1007
            elif k == 6:
                ops.append("srv data %s" % hexs(ws_ser(True, rng.choice([3, 7, 11]), True, rng.bytes(4), b"")))   # reserved opcode -> 1002 + onError
            else:
                ops.append("srv data %s" % hexs(ws_ser(True, 9, True, rng.bytes(4), b"p")))
        cases.append({"cat": "server-close-race", "ops": ops, "maxframe": 16777216})
    return cases


def gen_client_cases(ctx, rng, scale, quick):
    """Server->client streams through the real WebSocketClient::handleData, every segmentation; app sends around."""
    cases = []
    for sidx in range(34 * scale):
        maxframe = rng.choice([16777216, 16777216, 300, 64])
        st = gen_stream(rng, maxframe, close_mid=(sidx % 9 == 8), ep="cli")
        stream = b"".join(st["frames"])
        script = rand_script(rng) if sidx % 3 == 1 else None
        app = [app_op(rng, "cli") for _ in range(rng.range(1, 4))] if rng.chance(1, 3) else []
        for segs in segmentations(rng, stream, quick, few=quick and len(stream) > 20000):
            ops = ["cli reset %d" % maxframe] + (["cli script " + script] if script else []) + ["cli data %s" % hexs(x) for x in segs] + app
            cases.append({"cat": "client-stream", "ops": ops, "stream_id": "c%d" % sidx, "expect_msgs": st["expect"], "ends_early": st["ends_early"],
                          "maxframe": maxframe, "stream_len": len(stream), "nseg": len(segs)})
    for bi, M in enumerate([64, 200, 300, 125] * scale):
        pl = rand_payload(rng, M - rng.below(2))
        a = rng.range(1, len(pl) - 1)
        ping, pong = rng.bytes(min(125, M)), rng.bytes(min(125, M))
        frames = [ws_ser(False, 2, False, b"", pl[:a]), ws_ser(True, 9, False, b"", ping), ws_ser(True, 10, False, b"", pong), ws_ser(True, 0, False, b"", pl[a:])]
        stream = b"".join(frames)
        for segs in segmentations(rng, stream, quick, few=True):
            cases.append({"cat": "client-stream", "ops": ["cli reset %d" % M] + ["cli data %s" % hexs(x) for x in segs], "stream_id": "cbudget%d" % bi,
                          "expect_msgs": [("PONG", ping), ("B", pl)], "ends_early": False, "maxframe": M, "stream_len": len(stream), "nseg": len(segs)})
    # the upgrade boundary: the 101 response and the first frames in any segmentation (cuts inside the response, at its end, inside frames)
    for sidx in range(14 * scale):
        st = gen_stream(rng, 16777216)
        stream = b"".join(st["frames"])
        if len(stream) > 3000:
            stream = stream[:0]
            st = {"frames": [], "expect": [], "ends_early": False}
        resp = upgrade_response(rng)
        whole = resp + stream
        script = rand_script(rng) if sidx % 3 == 1 else None
        n = len(whole)
        cutsets = [[], [len(resp)], [len(resp) - 1], [len(resp) + 1], [len(resp) - 4], [1], [rng.below(len(resp))], [len(resp) - 2, len(resp) + 2]]
        cutsets += [sorted(set(rng.below(n + 1) for _ in range(rng.range(1, 4)))) for _ in range(3)]
        for cs in cutsets:
            cs = [c for c in cs if 0 <= c <= n]
            parts = [whole[a:b] for a, b in zip([0] + cs, cs + [n])]
            ops = ["cli hs"] + (["cli script " + script] if script else []) + ["cli data %s" % hexs(x) for x in parts]
            cases.append({"cat": "client-upgrade", "ops": ops, "stream_id": "h%d" % sidx, "expect_msgs": st["expect"], "ends_early": st["ends_early"],
                          "maxframe": 16777216})
    for i in range(40 * scale):
        kind = rng.choice(["badstatus", "badaccept", "noaccept", "lateaccept", "huge", "ok"])
        if kind == "huge":
            chunks = [b"HTTP/1.1 101 x\r\nX: " + b"a" * 30000] + [b"b" * 30000] * 3 + [CRLF2]
        else:
            resp = upgrade_response(rng, kind) + ws_ser(True, 1, False, b"", b"hi")
            cs = sorted(set(rng.below(len(resp) + 1) for _ in range(rng.range(0, 3))))
            chunks = [resp[a:b] for a, b in zip([0] + cs, cs + [len(resp)])]
        ops = ["cli hs"] + ["cli data %s" % hexs(x) for x in chunks] + ["cli sendText %s" % hexs(b"x")]
        cases.append({"cat": "client-upgrade-robust", "ops": ops, "maxframe": 16777216, "kind": kind})
    for i in range(70 * scale):
        maxframe = rng.choice([16777216, 100, 64])
        st = gen_stream(rng, maxframe)
        w = bytearray(b"".join(st["frames"]))
        k = rng.below(7)
        if k == 0:
            w[0:0] = bytes([0x80 | rng.choice(CONTROL), rng.choice([126, 127, 254, 255])]) + rng.bytes(4)
        elif k == 1:
            w[0:0] = bytes([0x82, 127]) + (2 ** 64 - rng.range(1, 20)).to_bytes(8, "big")
        elif k == 2:
            w[0:0] = bytes([0x82, 127]) + (maxframe + rng.range(1, 3)).to_bytes(8, "big") + rng.bytes(30)
        elif k == 3 and w:
            for _ in range(3):
                w[rng.below(len(w))] ^= 1 << rng.below(8)
        elif k == 4:
            w[0:0] = bytes([rng.choice(CONTROL), 0])
        elif k == 5:
            w = bytearray(rng.bytes(rng.range(1, 60)))
        else:
            w = bytearray(ws_ser(False, rng.choice([1, 2]), False, b"", rng.bytes(rng.range(0, 8))))
            for _ in range(rng.range(10, 30)):
                w += ws_ser(False, 0, False, b"", rng.bytes(rng.range(1, max(2, min(maxframe, 40)))))
        w = bytes(w)
        n = len(w)
        cs = sorted(set(rng.below(n + 1) for _ in range(rng.range(0, 4))))
        parts = [w[a:b] for a, b in zip([0] + cs, cs + [n])]
        ops = ["cli reset %d" % maxframe] + (["cli script " + rand_script(rng)] if i % 4 == 0 else []) + ["cli data %s" % hexs(x) for x in parts]
        ops += ["cli data %s" % hexs(rng.bytes(200)) for _ in range(3)] + ["cli sendText %s" % hexs(b"late")]
        cases.append({"cat": "client-robust", "ops": ops, "maxframe": maxframe})
    for i in range(70 * scale):
        ops = ["cli reset"]
        if i % 2 == 0:
            ops.append("cli script " + rand_script(rng))
        for _ in range(rng.range(2, 8)):
            k = rng.below(8)
            if k <= 2:
                ops.append(app_op(rng, "cli"))
            elif k == 3:
                ops.append("cli data %s" % hexs(ws_ser(True, 8, False, b"", (1000).to_bytes(2, "big"))))
            elif k == 4:
                ops.append("cli data %s" % hexs(ws_ser(True, rng.choice([1, 2]), False, b"", b"hi")))
            elif k == 5:
                ops.append("cli data %s" % hexs(ws_ser(True, 1, False, b"", b"\xff")))
            elif k == 6:
                ops.append("cli data %s" % hexs(bytes([0x80 | 9, 126, 0, 126]) + b"p" * 126))      # oversize ping -> protocol failure, onError
            else:
                ops.append("cli data %s" % hexs(ws_ser(True, 9, False, b"", b"p")))
        if i % 3 == 0:
            # disconnect(): courtesy CLOSE (if still connected), transport gone; only sends can follow (they must all drop).
            # A sendClose after it reaches no transport in the real client: not generated (the model has no transport object).
            ops.append("cli disconnect %d %s" % (rng.choice([1000, 1001, 4000]), hexs(rng.choice([b"", b"bye", b"r" * 130]))))
            ops += [o for o in (app_op(rng, "cli") for _ in range(rng.range(0, 3))) if " sendClose " not in o]
        cases.append({"cat": "client-close-race", "ops": ops, "maxframe": 16777216})
    return cases


# ------------------------------------------------------------------ two threads under DetSched (harness only + model interleavings)
RACE_PROGRAMS = {
    "srv": ["t:6869/c:1000:-", "b:0102/d:CLOSE", "t:6869,b:01/c:1001:6279", "t:61/c:1000:-/d:CLOSE", "p:70/c:1000:-", "t:61/d:TEXTBAD",
            "c:1000:-/d:CLOSE", "t:61,t:62/d:CLOSE"],
    "cli": ["t:6869/c:1000:-", "b:0102/d:CLOSE", "t:6869,b:01/c:1001:6279", "t:61/c:1000:-/d:CLOSE", "p:70/c:1000:-", "t:61/d:TEXTBAD",
            "c:1000:-/d:CLOSE", "b:0102/x:1000:-", "t:61,b:01/x:1001:6279"],
}


def race_program(ep, prog):
    masked = ep == "srv"
    key = b"\1\2\3\4" if masked else b""
    close = ws_ser(True, 8, masked, key, (1000).to_bytes(2, "big"))
    bad = ws_ser(True, 1, masked, key, b"\xff")
    return prog.replace("d:CLOSE", "d:" + hexs(close)).replace("d:TEXTBAD", "d:" + hexs(bad))


def item_to_op(ep, it):
    p = it.split(":")
    if p[0] == "t":
        return "%s sendText %s" % (ep, p[1])
    if p[0] == "b":
        return "%s sendBinary %s" % (ep, p[1])
    if p[0] == "p":
        return "%s sendPing %s" % (ep, p[1])
    if p[0] == "c":
        return "%s sendClose %s %s" % (ep, p[1], p[2])
    if p[0] == "x":
        return "%s disconnect %s %s" % (ep, p[1], p[2])
    return "%s data %s" % (ep, p[1])


def interleavings(threads):
    """all merges of the threads' op lists that keep each thread's order"""
    if all(not t for t in threads):
        return [[]]
    out = []
    for i, t in enumerate(threads):
        if t:
            rest = [list(x) for x in threads]
            rest[i] = rest[i][1:]
            out += [[t[0]] + tail for tail in interleavings(rest)]
    return out


def sends_only(evs):
    return [e for e in evs if e.startswith("S:")]


def run_races(ctx, hb, quick):
    """Each program = 2-3 application threads (sends, and reads fed by an 'I/O thread') against one real session under DetSched.
    Property monitor: W5 on the wire order of every schedule. Tie to the model: the frames on the wire of every schedule
    must be the frames of SOME interleaving of the model's atomic steps (the locked sections)."""
    n_sched = 0
    n_out = 0
    lines = []
    meta = []
    for ep, progs in RACE_PROGRAMS.items():
        for p in progs:
            prog = race_program(ep, p)
            nthreads = prog.count("/") + 1
            how = "explore %d" % (1200 if quick else 60000) if nthreads == 2 else "random %d %d" % (ctx.seed, 250 if quick else 8000)
            lines.append("%s race %s %s" % (ep, prog, how))
            meta.append((ep, prog))
    out, rc, err = ctx.run_lines([hb], lines, timeout=900)
    out = out + ["crash:%s" % rc] * (len(lines) - len(out))
    # what the model allows: the wire of every interleaving of the atomic steps
    mlines = []
    spans = []
    for ep, prog in meta:
        threads = [[item_to_op(ep, it) for it in th.split(",")] for th in prog.split("/")]
        ils = interleavings(threads)
        a = len(mlines)
        for il in ils:
            mlines += ["%s reset%s" % (ep, " 16777216" if ep == "srv" else "")] + il
        spans.append((a, len(mlines), [len(il) + 1 for il in ils]))
    mout, mrc, merr = ctx.run_lines(ctx.model_argv("ws"), mlines, timeout=300)
    for (ep, prog), line, (a, b, lens) in zip(meta, out, spans):
        allowed = set()
        pos = a
        for ln in lens:
            allowed.add(tuple(sends_only(events_of(mout[pos:pos + ln]))))
            pos += ln
        ctx.count_case("race " + ep + prog)
        if not line.startswith("race "):
            ctx.violation("property", "W6: the race harness died or threw on `%s race %s`: %s" % (ep, prog, line[:120]),
                          {"ops": ["%s race %s explore 200" % (ep, prog)], "category": "race", "stderr": err[-1500:]}, found_input=True)
            continue
        toks = line.split()
        n_sched += int(toks[1].split("=")[1])
        for o in toks[4:]:
            status, choices, evs = o.split("@", 2)
            n_out += 1
            evl = [] if evs == "-" else evs.split(";")
            fails = []
            if status != "ok":
                fails.append("W5(concurrent): schedule ends in %s" % status)
            seen_close = False
            for e in evl:
                so = sent_opcode(e)
                if so == 8:
                    seen_close = True
                elif so in DATA and seen_close:
                    fails.append("W5: data frame sent after a close frame under a concurrent schedule: %s" % e[:40])
            if not fails and tuple(sends_only(evl)) not in allowed:
                ctx.violation("correspondence", "a concurrent schedule puts frames on the wire that no interleaving of the model's atomic steps produces: %s (allowed: %s)"
                              % (sends_only(evl), sorted(allowed)[:4]),
                              {"broken": {"correspondence": "race linearisation (harness/c18_ws.cpp + detsched vs Model/WsServer.lean, WsClient.lean)",
                                          "detail": "program %s, schedule %s" % (prog, choices)},
                               "ops": ["%s race %s replay %s" % (ep, prog, choices)]}, found_input=False)
            if fails:
                ctx.violation("property", fails[0] + " [program %s]" % prog,
                              {"ops": ["%s race %s replay %s" % (ep, prog, choices)], "observed": evl, "failures": fails, "category": "race",
                               "schedule": choices}, found_input=True)
    ctx.extra["race_schedules_run"] = n_sched
    ctx.extra["race_distinct_outcomes"] = n_out
    return n_sched


def run_xrace(ctx, hb, quick, corpus):
    """REAL threads (no DetSched: the window lies between two calls DetSched cannot separate): sendBinary of a large payload
    against disconnect(), the disconnect starting once the sender is inside its _sendMutex section (FC18e). Monitor: W5 on the
    order in which frames were handed to the transport."""
    sizes = [16 << 20, 24 << 20] if quick else [16 << 20, 24 << 20, 32 << 20, 48 << 20, 8 << 20, 64 << 20]
    lines = [o for c in corpus for o in c["ops"]] + ["cli xrace %d" % n for n in sizes]
    out, rc, err = ctx.run_lines([hb], lines, timeout=600)
    out = out + ["crash:%s" % rc] * (len(lines) - len(out))
    seen = {}
    for op, l in zip(lines, out):
        ctx.count_case("xrace " + op + str(len(seen)))
        evl = events_of([l])
        key = ";".join(e.split(":")[0] + ":" + e.split(":")[1] for e in evl if e.startswith("S:"))
        seen[key] = seen.get(key, 0) + 1
        if " | " not in l:
            ctx.violation("property", "W6: the real-thread disconnect race died or threw: %s -> %s" % (op, l[:120]),
                          {"ops": [op], "category": "xrace", "stderr": err[-1500:]}, found_input=True)
            continue
        closed = False
        for e in evl:
            so = sent_opcode(e)
            if so == 8:
                closed = True
            elif so in DATA and closed:
                ctx.violation("property", "W5: data frame handed to the transport after the CLOSE frame of disconnect() (sender inside its _sendMutex section while "
                              "teardownTransport sends the CLOSE without it): %s" % ";".join(x[:24] for x in evl),
                              {"ops": [op], "observed": [l], "category": "xrace"}, found_input=True)
                break
    ctx.extra["xrace_outcomes"] = seen


def branch_counters(res):
    """which branches the correspondence run reached, MEASURED from the implementation's own answers"""
    bc = {}

    def inc(k, n=1):
        bc[k] = bc.get(k, 0) + n
    for c, impl, model in res:
        for op, l in zip(c["ops"], impl):
            t = op.split()
            if t[0] == "parse":
                a = l.split()
                if a and a[0] == "frame":
                    n = 0 if a[5] == "-" else len(a[5]) // 2
                    hdr = int(a[6]) - n - (4 if a[3] == "1" else 0)
                    inc("parse.frame.len%s" % {2: "7", 4: "16", 10: "64"}.get(hdr, "other(rsv-empty)"))
                    inc("parse.frame.masked" if a[3] == "1" else "parse.frame.unmasked")
                else:
                    inc("parse." + (a[0] if a else "none"))
                continue
            if " | " not in l:
                continue
            ep = t[0]
            evs = events_of([l])
            prev = None
            for e in evs:
                so = sent_opcode(e)
                k = e.split(":")[0]
                if k in ("T", "B"):
                    inc("%s.deliver.%s" % (ep, "text" if k == "T" else "binary"))
                elif k == "C":
                    inc("%s.close.%s" % (ep, "echoed" if prev is not None and sent_opcode(prev) == 8 else "not-echoed"))
                elif k == "E":
                    inc("%s.onError" % ep)
                elif k == "X":
                    inc("%s.closeSession" % ep)
                elif so == 10:
                    inc("%s.pong" % ep)
                elif so == 8:
                    code = None
                    if ep == "srv":
                        w = unhex(e[2:])
                        code = int.from_bytes(w[2:4], "big") if len(w) >= 4 else 0
                    else:
                        b = unhex(e.split(":")[3]) if e.split(":")[3] != "-" else b""
                        code = int.from_bytes(b[:2], "big") if len(b) >= 2 else 0
                    inc("%s.sendClose.%s" % (ep, code if code in (1002, 1007, 1009) else "app"))
                elif so in DATA or so == 9:
                    if prev is not None and prev.split(":")[0] in ("T", "B", "C", "E") and t[1] in ("data", "upgrade", "upgrade2"):
                        inc("%s.reentrant-send" % ep)
                    if ep == "srv":
                        w = unhex(e[2:])
                        inc("srv.sent.len%s" % ("7" if w[1] & 127 < 126 else "16" if w[1] & 127 == 126 else "64"))
                    else:
                        pl = e.split(":")[3]
                        n = 0 if pl == "-" else len(pl) // 2
                        inc("cli.sent.len%s" % ("7" if n < 126 else "16" if n < 65536 else "64"))
                prev = e
            if t[1] in ("sendText", "sendBinary", "sendPing") and not evs:
                inc("%s.send-dropped" % ep)
            if t[1] == "upgrade2":
                inc("srv.upgrade2.%s" % t[3])
            if t[1] == "upgrade":
                inc("srv.upgrade.trailing" if t[2] != "-" else "srv.upgrade.empty")
            if t[1] == "tclose":
                inc("srv.tclose")
            if t[1] == "upgradeh":
                inc("srv.upgradeh.%s" % ("accept" if "O" in evs else next((e for e in evs if e.startswith("H:")), "none")))
            if t[1] == "disconnect":
                inc("cli.disconnect.%s" % ("close-sent" if evs else "no-close"))
            if "frag=" in l and int(l.split("frag=")[1].split()[0]) > 0:
                inc("%s.fragment-in-progress" % ep)
            if "buf=" in l and int(l.split("buf=")[1].split()[0]) > 0:
                inc("%s.partial-frame-buffered" % ep)
    return dict(sorted(bc.items()))


# ------------------------------------------------------------------ property monitors (implementation output only)
def events_of(lines):
    evs = []
    for l in lines:
        if " | " not in l:
            continue
        e = l.split(" | ")[0]
        if e != "-":
            evs += e.split(";")
    return evs


def sent_opcode(ev):
    """opcode of a frame-send event (server form S:<wire hex>, client form S:<op>:<fin>:<payload>); -1 = a send that is not one
    decodable frame; None = not a send"""
    if ev.startswith("S:"):
        parts = ev.split(":")
        if len(parts) == 4:            # client form S:<op>:<fin>:<payload>
            return int(parts[1]) if parts[1].isdigit() else -1
        if len(parts) == 2 and len(ev) >= 4:
            try:
                return int(ev[2:4], 16) & 15
            except ValueError:
                return -1
        return -1
    return None


def ref_parse_one(w):
    """reference decoder for ONE unmasked server frame: (fin, op, payload) or None if `w` is not exactly one acceptable frame"""
    if len(w) < 2 or (w[0] & 0x70) or (w[1] & 0x80):
        return None
    fin, op, l7 = w[0] >> 7, w[0] & 15, w[1] & 127
    pos = 2
    if op in CONTROL and (l7 > 125 or not fin):
        return None
    if l7 == 126:
        if len(w) < 4:
            return None
        n = int.from_bytes(w[2:4], "big")
        pos = 4
    elif l7 == 127:
        if len(w) < 10:
            return None
        n = int.from_bytes(w[2:10], "big")
        pos = 10
    else:
        n = l7
    if len(w) != pos + n:
        return None
    return fin, op, w[pos:]


def ref_close_reason(r):
    """what makeClose may keep of a reason: everything up to 123 bytes, else cut to <= 123 on a UTF-8 character boundary"""
    if len(r) <= 123:
        return r
    n = 123
    while n > 0 and (r[n] & 0xC0) == 0x80:
        n -= 1
    return r[:n]


def delivered(evs, ep):
    got = []
    for e in evs:
        if e.startswith("T:"):
            got.append(("T", unhex(e[2:])))
        elif e.startswith("B:"):
            got.append(("B", unhex(e[2:])))
        elif e.startswith("S:") and ep == "cli":
            pr = e.split(":")
            if len(pr) == 4 and pr[1] == "10":
                got.append(("PONG", unhex(pr[3])))
            elif len(pr) == 4 and pr[1] == "8" and unhex(pr[3])[:2] == (1007).to_bytes(2, "big"):
                got.append(("CLOSE1007",))
        elif e.startswith("S:") and ep == "srv":
            w = unhex(e[2:])
            if w and w[0] & 15 == 10:
                got.append(("PONG", w[2:]))
            elif w and w[0] & 15 == 8 and w[2:4] == (1007).to_bytes(2, "big"):
                got.append(("CLOSE1007",))
    return got


def monitor_case(c, impl):
    """Returns a list of property failures visible in the implementation's own output for this case."""
    bad = []
    for op, l in zip(c["ops"], impl):
        if l.startswith("throw") or l.startswith("crash:"):
            bad.append("W6: input makes the endpoint throw/crash: %s -> %s" % (op[:80], l))
    cat = c["cat"]
    if cat in ("roundtrip", "ser", "prefix", "utf8", "control-error") and "expect" in c:
        for op, l, e in zip(c["ops"], impl, c["expect"]):
            if l != e:
                tag = {"roundtrip": "W1", "ser": "W1", "prefix": "W2", "utf8": "W4(utf8)", "control-error": "W6"}[cat]
                bad.append("%s: %s -> got %s, reference says %s" % (tag, op[:100], l[:100], e[:100]))
    if cat == "mkclose":
        for op, l in zip(c["ops"], impl):
            try:
                w = unhex(l)
            except Exception:
                continue
            f = ref_parse_one(w)
            code = int(op.split()[1])
            want = (code & 0xFFFF).to_bytes(2, "big") + ref_close_reason(c["reason"])
            if f is None:
                bad.append("W1: makeClose serialises a frame the parser rejects (payload %d bytes): %s" % (len(w) - 2, op[:60]))
            elif f[1] != 8 or f[2] != want:
                bad.append("W1: makeClose payload is not code + reason (cut to 123 on a character boundary): %s -> %s" % (op[:60], l[:80]))
    if cat in ("mutated", "boundary"):
        for op, l in zip(c["ops"], impl):
            t = l.split()
            if t and t[0] == "frame":
                avail = (len(op.split()[2]) // 2) if op.split()[2] != "-" else 0
                mx = int(op.split()[1])
                plen = 0 if t[5] == "-" else len(t[5]) // 2
                if int(t[6]) > avail or plen > avail or plen > mx:
                    bad.append("W6: frame exceeds the buffer or the limit: %s -> %s" % (op[:80], l[:80]))
            elif t and t[0] not in ("incomplete", "protocolError", "tooLarge"):
                if not (l.startswith("throw") or l.startswith("crash:")):
                    bad.append("W6: unexpected parse outcome %s" % l[:60])
    if cat.startswith("server") or cat.startswith("client") or cat == "corpus":
        ep = "cli" if (cat.startswith("client") or any(o.startswith("cli ") for o in c["ops"])) else "srv"
        evs = events_of(impl)
        seen_close = False
        for e in evs:
            so = sent_opcode(e)
            if so == 8:
                seen_close = True
            elif so in DATA and seen_close:
                bad.append("W5: data frame sent after a close frame: %s" % e[:40])
            if so == -1:
                bad.append("W1: the endpoint sent bytes that do not parse as one frame: %s" % e[:60])
            elif so is not None and ep == "srv" and ref_parse_one(unhex(e[2:])) is None:
                bad.append("W1: the server sent a frame its own parser (and any conforming peer) rejects: %s" % e[:40])
        mf = c.get("maxframe", 16777216)
        for l in impl:
            if "buf=" in l:
                b = int(l.split("buf=")[1].split()[0])
                lim = 65536 if "upgraded=0" in l else mf + 13
                if b > lim:
                    bad.append("W6: retained buffer %d exceeds the bound %d (%s)" % (b, lim, "64 KiB while the upgrade response is pending" if "upgraded=0" in l else "maxFrameSize+13"))
            if "frag=" in l:
                fr = int(l.split("frag=")[1].split()[0])
                if fr > mf:
                    bad.append("W6: fragment buffer holds %d bytes, limit %d: reassembly buffers without bound" % (fr, mf))
    if cat == "server-upgradeh":
        l = impl[1] if len(impl) > 1 else ""
        if "held=1" in l:
            bad.append("W3: the reads of the session are still held back after the upgrade request was decided (connection stuck): %s" % l[:120])
        if " | " in l and (("O" in events_of([l])) != c["accepted"] or ("upgraded=1" in l) != c["accepted"]):
            bad.append("W3: upgrade %s although the request %s the conditions of RFC 6455 4.2.1: %s" % (
                "accepted" if "upgraded=1" in l else "not accepted", "meets" if c["accepted"] else "does not meet", l[:100]))
    if cat == "server-tclose" or (cat == "corpus" and any(o == "srv tclose" for o in c["ops"])):
        closed = False
        for op, l in zip(c["ops"], impl):
            closed = closed or op == "srv tclose"
            if closed and " | " in l and ("alive=0" not in l or "buf=0 " not in l or "frag=0 " not in l):
                bad.append("W6: session state retained after the transport closed the connection (unbounded across connections): %s -> %s" % (op[:40], l.split(" | ")[1]))
                break
    if cat in ("client-stream", "server-stream", "server-upgrade", "server-upgrade2", "client-upgrade") and "expect_msgs" in c:
        ep = "cli" if cat.startswith("client") else "srv"
        got = delivered(events_of(impl), ep)
        want = [e for e in c["expect_msgs"] if e[0] in ("T", "B", "PONG", "CLOSE1007")]
        if c.get("ends_early") and ep == "srv":
            # frames that follow the end of the session in the same read may still be answered (pong): only DELIVERIES are fixed
            got = [g for g in got if g[0] in ("T", "B")]
            want = [g for g in want if g[0] in ("T", "B")]
        # sends made by scripts / appended application ops are never pongs or 1007 closes
        if got != want:
            bad.append("W3/W4: delivered messages differ from the messages encoded: got %s want %s" % (str(got)[:200], str(want)[:200]))
    return bad


def replay(ctx):
    """Re-run the op list of a replay file on the real code and the model; exit 1 if the failure is still there."""
    obj = json.load(open(ctx.replay))
    ops = obj.get("ops") or []
    ctx.translate(["ws"])
    ctx.lake_build(MODULES)
    hb = build_harness(ctx)
    if not hb or not ops:
        print("replay: nothing to run (kind=%s)" % obj.get("kind"))
        return 1 if ctx.violations else 0
    if any(" race " in o or " xrace " in o for o in ops):
        out, rc, err = ctx.run_lines([hb], ops, timeout=300)
        still = False
        for o, l in zip(ops, out):
            print("op    %s\n impl  %s" % (o[:200], l[:300]))
            if " xrace " in o:
                seen = False
                for e in events_of([l]):
                    so = sent_opcode(e)
                    if so == 8:
                        seen = True
                    elif so in DATA and seen:
                        still = True
                        print("PROPERTY FAILS: W5: data frame after close frame: %s" % e[:60])
                if " | " not in l:
                    still = True
                continue
            for part in l.split()[4:]:
                status, choices, evs = part.split("@", 2)
                seen = False
                for e in ([] if evs == "-" else evs.split(";")):
                    so = sent_opcode(e)
                    if so == 8:
                        seen = True
                    elif so in DATA and seen:
                        still = True
                        print("PROPERTY FAILS: W5: data frame after close frame: %s" % e[:60])
                if status != "ok":
                    still = True
        print("replay: %s" % ("still failing" if still else "no longer failing"))
        return 1 if still else 0
    c = {"cat": obj.get("category", "corpus"), "ops": ops, "maxframe": obj.get("maxframe", 16777216)}
    if "reason" in obj:
        c["reason"] = unhex(obj["reason"]) if isinstance(obj["reason"], str) else obj["reason"]
    (c, impl, model), = ctx.lockstep("ws", hb, [c])
    for o, a, b in zip(ops, impl, model):
        print("op    %s\n impl  %s\n model %s" % (o[:200], a[:200], b[:200]))
    fails = monitor_case(c, impl)
    for f in fails:
        print("PROPERTY FAILS:", f[:300])
    still = bool(fails) or impl != model
    print("replay: %s" % ("still failing" if still else "no longer failing"))
    import shutil
    shutil.rmtree(ctx.work, ignore_errors=True)
    return 1 if still else 0


def build_harness(ctx):
    """DetSched is compiled on a second core while the (much larger) harness translation unit compiles."""
    obj = os.path.join(ctx.work, "detsched.o")
    res = {}

    def side():
        res["rc"], res["out"] = ctx.sh(["g++", "-std=c++17", "-O1", "-g1", "-w", "-I", os.path.join(VERIF, "harness"),
                                        "-fsanitize=address,undefined", "-fno-sanitize-recover=all", "-fno-omit-frame-pointer",
                                        "-c", DETSCHED, "-o", obj], timeout=900)
    th = threading.Thread(target=side)
    th.start()
    # compile only (-c) first, then link with the DetSched object
    hobj = ctx.build_harness("harness/c18_ws.cpp", name="c18_ws.o", sanitize=True, flags=["-g1", "-c"])
    th.join()
    if not hobj:
        return None
    if res.get("rc") != 0:
        ctx.violation("harness-build", "harness/detsched/detsched.cpp does not compile: %s" % res.get("out", "")[-300:], {})
        return None
    out = os.path.join(ctx.work, "c18_ws")
    rc, o = ctx.sh(["g++", "-fsanitize=address,undefined", "-fno-sanitize-recover=all", hobj, obj, "-o", out, "-lssl", "-lcrypto", "-lpthread", "-ldl"], timeout=600)
    if rc != 0:
        ctx.violation("harness-build", "harness link failed: %s" % o[-400:], {"broken": {"correspondence": "harness/c18_ws.cpp", "detail": o[-1500:]}})
        return None
    return out


def run(ctx: Ctx):
    if ctx.replay:
        return replay(ctx)
    quick = ctx.tier == "quick"
    scale = 1 if quick else 20
    rng = ctx.rng
    ok_tr = ctx.translate(["ws"])
    # the harness (g++, ~30 s) is built while Lean checks the proofs
    hres = {}
    hth = threading.Thread(target=lambda: hres.update(hb=build_harness(ctx)))
    hth.start()
    ok_build = ctx.lake_build(MODULES)
    if ok_build:
        ctx.audit(MODULES, OBLIGATIONS)
        if not quick:
            ctx.leanchecker(MODULES + LEAN_MODULES_ALL)
    else:
        ctx.cov["obligations"] = len(OBLIGATIONS)
    hth.join()
    hb = hres.get("hb")
    dist = {}
    if hb:
        corpus = load_corpus()
        xr_corpus = [c for c in corpus if c.get("cat") == "xrace"]
        corpus = [c for c in corpus if c.get("cat") != "xrace"]
        cases = corpus + gen_codec_cases(ctx, rng.fork("codec"), scale) + gen_server_cases(ctx, rng.fork("srv"), scale, quick) + \
            gen_client_cases(ctx, rng.fork("cli"), scale, quick)
        # bounded memory: one lockstep round per 3000 cases (the thorough tier has ~140 000 cases; a single round peaked at 17 GB RSS)
        res = []
        for _i in range(0, len(cases), 3000):
            res += ctx.lockstep("ws", hb, cases[_i:_i + 3000])
        by_stream = {}
        n_mismatch = 0
        for c, impl, model in res:
            dist[c["cat"]] = dist.get(c["cat"], 0) + 1
            ctx.count_case("\n".join(c["ops"]), nontrivial=any(not l.startswith("incomplete") for l in impl))
            if c["cat"] in ("roundtrip", "server-stream", "boundary", "server-robust", "client-upgrade", "server-upgrade") and len(ctx.cov["samples"]) < 6 and ctx.rng.chance(1, 50):
                ctx.sample({"cat": c["cat"], "ops": [o[:160] for o in c["ops"][:6]], "impl": [l[:160] for l in impl[:6]]})
            fails = monitor_case(c, impl)
            mism = [(i, a, b) for i, (a, b) in enumerate(zip(impl, model)) if a != b]
            if c["cat"] in ("server-stream", "client-stream", "server-upgrade", "server-upgrade2", "client-upgrade"):
                by_stream.setdefault(c["stream_id"], []).append((c, impl))
            if fails:
                report_property(ctx, hb, c, impl, model, fails)
            elif mism:
                n_mismatch += 1
                if n_mismatch <= 3:
                    i, a, b = mism[0]
                    ctx.violation("correspondence", "model and implementation disagree (no property monitor fails on this case): op `%s` impl=`%s` model=`%s`"
                                  % (c["ops"][i][:120], a[:120], b[:120]),
                                  {"broken": {"correspondence": "ws lockstep (harness/c18_ws.cpp vs Model/WsFrame.lean, Model/WsServer.lean, Model/WsClient.lean)",
                                              "detail": "first differing op index %d" % i},
                                   "ops": c["ops"], "observed": impl, "expected_by_model": model}, found_input=False)
        # W3: every segmentation of one stream must give the same concatenated events (implementation only). Where the stream itself
        # ends the server session before its last frame only the DELIVERIES are segmentation independent (theorem W3_server_msgs).
        nseg = 0
        for sid, lst in by_stream.items():
            c0 = lst[0][0]
            ep = "cli" if c0["cat"].startswith("client") else "srv"

            def view(c, impl):
                evs = events_of(impl)
                evs = [e for e in evs if e not in ("O", "H101")]      # the upgrade ops add the connect/101 events
                if c0.get("ends_early") and ep == "srv":
                    return [e for e in evs if e[:2] in ("T:", "B:")]
                return evs
            base = view(*lst[0])
            for c, impl in lst[1:]:
                nseg += 1
                if view(c, impl) != base:
                    report_property(ctx, hb, c, impl, None, ["W3: events depend on the segmentation: whole=%s cut=%s" % (str(base)[:200], str(view(c, impl))[:200])],
                                    extra={"whole_ops": lst[0][0]["ops"]})
                    break
        ctx.extra["segmentations_compared"] = nseg
        ctx.extra["branch_counters"] = branch_counters(res)
        try:
            run_xrace(ctx, hb, quick, xr_corpus)
            run_races(ctx, hb, quick)
        except Exception as e:     # a harness that cannot run the races is a broken tie, not a pass
            ctx.violation("correspondence", "race driver failed: %s" % str(e)[:300], {"broken": {"correspondence": "race runs", "detail": str(e)}})
    ctx.extra["input_distribution"] = dist
    ctx.extra["repo_tree_sha"] = ctx.repo_tree_sha(ANCHOR_FILES)
    ctx.extra["not_proved"] = [
        "\"cannot throw\" has no theorem: the Lean model is total by construction, so exceptions are only OBSERVED (every harness op runs under catch + ASan/UBSan; a `throw`/`crash:` answer is a W6 violation)",
        "W5 under true concurrency is proved for the small-step model over the COMPILED SKELETON (W5_concurrent: any threads, any schedule); what that rests on is the translator's abstraction (textual order of lock/flag/send events per function, RAII release on return, frames reach the wire in hand-over order because sendRaw/sendRawBytes serialise under the transport mutex) - tied by the decide obligations on the regenerated skeleton and by DetSched enumeration of 2-3 thread programs against the real code, not by a proof about C++",
        "server: full events after the session has ended inside a read depend on the segmentation (a ping in the same read as a preceding CLOSE is answered, in a later read it is not): W3_server needs CloseOnlyLast + fitting messages; only deliveries (W3_server_msgs) are unconditional",
        "client upgrade response: the SHA-1/base64 value of Sec-WebSocket-Accept enters the model as a constant (the expected value), and only accepted/rejected responses are distinguished (negotiated sub-protocol not modelled); rejected responses are checked in lockstep, not characterised by a theorem",
        "HttpServer::handleIncomingData's HTTP request framing BEFORE the upgrade request is C15; the hand-over model starts where the request loop has extracted the Upgrade request (hold set, rest stored, loop left: pinned by C18_handover_pinned); a DECLINED upgrade (onUpgradeRequest returns false / answers 4xx) is not modelled: the hold is released by the scope guard and bytes that arrived meanwhile are parsed as HTTP at the next read",
        "the hand-over theorem is about the step model (each step = one _sessionMutex critical section or one call made with no lock held); the tie to the C++ is the six regenerated shape facts + lockstep runs with a read injected inside the origin callback, inside _onConnect and inside the first message callback of the drain; a read between markSessionUpgraded and the creation of _sessions[sid] needs a second real thread and is covered by the model only",
        "client disconnect(): the ordering CLOSE-before-close(sid) and the transport teardown itself are C02/C05; here only the frame discipline (flag + CLOSE under _sendMutex) is modelled; doConnect is not executed by the harness (it builds a real TCP transport): its resets are tied by the translator fact the model is defined from (C18_reconnect_fresh)",
        "server and client treat frames AFTER a peer CLOSE differently (the server has erased the session, the client keeps parsing; W4_data_after_peer_close_observation): RFC 6455 5.5.1 forbids such streams, so this is outside the clause; agreement is proved for close-last streams (W4_server_client_same_messages) and the generator encodes the difference for close_mid streams"]
    ctx.assumptions += ["one I/O thread per session delivers its reads in order; during the upgrade a pool thread runs concurrently with it (modelled: C18_upgrade_handover); application threads interleave at the locked sections pinned by W5_lock_discipline",
                        "the fake engine records bytes handed to Transport::sendAsync; delivery of those bytes is C01",
                        "callbacks are modelled as scripts of sends; other re-entrant calls (stop(), disconnect() from inside a callback) are C02/C05"]
    return ctx.finish(level="proof", rule="a case = one op list (codec op; one segmentation of one generated frame stream fed to a fresh real session, via onUpgradedData/handleData or through the real upgrade path; a robustness or close-race history; one race program); "
                      "distinct = distinct op lists; non-trivial = at least one answer other than `incomplete`")


def report_property(ctx, hb, c, impl, model, fails, extra=None):
    ops = c["ops"]
    if not ctx.violation_budget("property", fails[0]):
        ctx.violation("property", fails[0])
        return
    if len(ops) > 2:
        def still(sub):
            out, rc, err = ctx.run_lines([hb], sub, timeout=60)
            out = out + ["crash:" + str(rc)] * (len(sub) - len(out))
            cc = dict(c)
            cc["ops"] = sub
            cc.pop("expect_msgs", None)      # the message oracle is tied to the full stream
            return bool([f for f in monitor_case(cc, out) if f.split(":")[0] == fails[0].split(":")[0]])
        try:
            if not fails[0].startswith("W3") and still(ops):
                # the configuration prefix (reset with its limit, handshake state, callback scripts) is part of the input: keep it
                k = 0
                while k < len(ops) and (ops[k].split()[1] in ("reset", "hs", "script")):
                    k += 1
                pre, rest = ops[:k], ops[k:]
                if len(rest) > 1:
                    rest = ddmin(rest, lambda sub: still(pre + sub), max_tests=60)
                ops = pre + rest
        except Exception:
            pass
    obj = {"ops": ops, "observed": impl if ops is c["ops"] else None, "expected_by_model": model, "failures": fails[:5], "category": c["cat"],
           "maxframe": c.get("maxframe", 16777216)}
    if "reason" in c:
        obj["reason"] = hexs(c["reason"])
    if extra:
        obj.update(extra)
    ctx.violation("property", fails[0], obj, found_input=True)


def load_corpus():
    d = os.path.join(os.path.dirname(os.path.dirname(os.path.abspath(__file__))), "corpus", "C18")
    out = []
    if os.path.isdir(d):
        for fn in sorted(os.listdir(d)):
            if fn.endswith(".json"):
                c = json.load(open(os.path.join(d, fn)))
                c.setdefault("cat", "corpus")
                if "expect_msgs" in c:
                    c["expect_msgs"] = [tuple(unhex(x) if i and isinstance(x, str) else x for i, x in enumerate(e)) for e in c["expect_msgs"]]
                if "reason" in c and isinstance(c["reason"], str):
                    c["reason"] = unhex(c["reason"])
                out.append(c)
    return out
