"""C18 — WebSocket framing round-trips and reassembles under any segmentation (DESIGN §7 C18)."""
import os, json, hashlib, base64, itertools, threading
from vlib.core import Ctx, hexs, unhex, ddmin

ID = "C18"
MODULES = ["IoraModel.Props.C18"]
OBLIGATIONS = [
    {"id": "C18_W1", "theorem": "Iora.C18.W1_roundtrip", "kind": "proved",
     "statement": "parse (serialize f ++ x) = frame f |serialize f| for every well-formed frame, every payload length < 2^64, masked or not"},
    {"id": "C18_W1_necessary", "theorem": "Iora.C18.W1_control_bound_necessary", "kind": "proved",
     "statement": "the well-formedness hypothesis of W1 is necessary: every 126-byte ping serialises to bytes that parse as protocolError"},
    {"id": "C18_W1_endpoint", "theorem": "Iora.C18.W1_endpoint_frames_wellformed", "kind": "proved",
     "statement": "every frame a server session hands to the transport, in every history incl. sends from callbacks, is the serialisation of a well-formed frame (sendPing > 125 dropped, close reason cut to 123: FC18c)"},
    {"id": "C18_W1_endpoint_client", "theorem": "Iora.C18.W1_client_frames_wellformed", "kind": "proved",
     "statement": "client: every frame sent in every history is well-formed under any 4-byte mask key"},
    {"id": "C18_W2", "theorem": "Iora.C18.W2_prefix_incomplete", "kind": "proved",
     "statement": "every strict prefix of a serialised frame parses as incomplete"},
    {"id": "C18_W3_stable", "theorem": "Iora.C18.W3_stable", "kind": "proved",
     "statement": "a non-incomplete answer never changes when more bytes arrive (RSV-free buffers)"},
    {"id": "C18_W3_generic", "theorem": "Iora.Framing.segmentation_independent", "kind": "proved",
     "statement": "greedy framing with a stable parser yields the same frames for every segmentation of a good stream"},
    {"id": "C18_W3_frames", "theorem": "Iora.C18.W3_frames", "kind": "proved",
     "statement": "every segmentation of a stream of valid frames yields exactly the serialised frames, nothing left over"},
    {"id": "C18_W3_server_general", "theorem": "Iora.C18.W3_server_events_general", "kind": "proved",
     "statement": "server events = per-frame handler folded over the frames, for every segmentation and every callback behaviour, whenever every frame reaches a session that still exists"},
    {"id": "C18_W3_server", "theorem": "Iora.C18.W3_server_segmentation_independent", "kind": "proved",
     "statement": "server events are the same for any two segmentations of a valid close-last stream whose messages fit the limit"},
    {"id": "C18_W3_server_fn", "theorem": "Iora.C18.W3_server_events_of_frames", "kind": "proved",
     "statement": "server events are a function of the frame list (handler folded over frames)"},
    {"id": "C18_W3_server_msgs", "theorem": "Iora.C18.W3_server_messages_segmentation_independent", "kind": "proved",
     "statement": "delivered messages are the same for any two segmentations of ANY stream of valid frames (no CloseOnlyLast, no size condition)"},
    {"id": "C18_W4_reassembly", "theorem": "Iora.C18.W4_reassembly", "kind": "proved",
     "statement": "fragments joined in order, controls between fragments harmless, ping->pong same payload, text only if UTF-8, delivered once, fragment buffer empty afterwards"},
    {"id": "C18_W4_messages", "theorem": "Iora.C18.W4_messages_exact", "kind": "proved",
     "statement": "message-level exactness: any segmentation of the frames of a list of messages (unfragmented/fragmented, pings anywhere, optional final close) delivers exactly those messages in order"},
    {"id": "C18_W4_utf8", "theorem": "Iora.C18.W4_utf8", "kind": "proved",
     "statement": "isValidUtf8 accepts exactly Unicode Table 3-7 well-formed UTF-8"},
    {"id": "C18_W5", "theorem": "Iora.C18.W5_no_data_after_close", "kind": "proved",
     "statement": "for every history of app sends, reads and re-entrant sends from callbacks, no data frame is sent after a close frame (server)"},
    {"id": "C18_W5_locks", "theorem": "Iora.C18.W5_lock_discipline", "kind": "proved",
     "statement": "the lock/flag skeleton extracted from the source satisfies the discipline the models assume (check+send one critical section; flag set before every close send; callbacks unlocked), both endpoints"},
    {"id": "C18_W5_programs", "theorem": "Iora.C18.W5_programs_disciplined", "kind": "proved",
     "statement": "every send-path function of the regenerated skeleton, compiled to lock/flag/send actions, is a disciplined program of the small-step model (decide)"},
    {"id": "C18_W5_concurrent", "theorem": "Iora.C18.W5_concurrent", "kind": "proved",
     "statement": "any number of threads making any sequence of calls of those programs under ANY schedule: no data frame is handed over after a close frame (small-step mutex/flag/wire model)"},
    {"id": "C18_W6c", "theorem": "Iora.C18.W6_server_buffer_bounded", "kind": "proved",
     "statement": "for every history and arbitrary bytes the session retains < 14 + max unparsed bytes"},
    {"id": "C18_W6d", "theorem": "Iora.C18.W6_server_fragment_bounded", "kind": "proved",
     "statement": "for every history and arbitrary bytes the fragment buffer holds at most max bytes (FC18a)"},
    {"id": "C18_W6_upgrade", "theorem": "Iora.C18.W6_server_upgrade_boundary", "kind": "proved",
     "statement": "bytes received with the upgrade request are handled exactly like a first read; the bounds hold for every continuation"},
    {"id": "C18_W3_client", "theorem": "Iora.C18.W3_client_segmentation_independent", "kind": "proved",
     "statement": "client events are the same for any two segmentations of any valid stream, any callback behaviour"},
    {"id": "C18_W3_client_upgrade", "theorem": "Iora.C18.W3_client_upgrade_boundary", "kind": "proved",
     "statement": "client across the upgrade boundary: an accepted 101 response followed by any valid frame stream, cut anywhere (inside the response, at its end, inside a frame): one connect event, then the per-frame handler folded over the frames"},
    {"id": "C18_W4_client", "theorem": "Iora.C18.W4_client_reassembly", "kind": "proved",
     "statement": "client reassembly: pongs for pings, one in-order delivery, text only if UTF-8"},
    {"id": "C18_W4_client_messages", "theorem": "Iora.C18.W4_client_messages_exact", "kind": "proved",
     "statement": "client message-level exactness for every segmentation"},
    {"id": "C18_W5_client", "theorem": "Iora.C18.W5_client_no_data_after_close", "kind": "proved",
     "statement": "client: for every history (incl. the upgrade response and sends from callbacks) no data frame follows a close frame"},
    {"id": "C18_W6c_client", "theorem": "Iora.C18.W6_client_buffer_bounded", "kind": "proved",
     "statement": "client: retained buffer < 14 + max and fragment buffer <= max for every history and arbitrary bytes (FC18b)"},
    {"id": "C18_W6_client_upgrade", "theorem": "Iora.C18.W6_client_upgrade_bounded", "kind": "proved",
     "statement": "client waiting for the upgrade response retains at most kMaxUpgradeResponse bytes (FC18d); afterwards the frame bounds"},
    {"id": "C18_W6a", "theorem": "Iora.C18.W6_frame_bounds", "kind": "proved",
     "statement": "arbitrary bytes: consumed <= size, allocation <= available and <= max"},
    {"id": "C18_W6b", "theorem": "Iora.C18.W6_incomplete_short", "kind": "proved",
     "statement": "an incomplete buffer is shorter than 14 + max, for arbitrary bytes (bounded buffering)"},
    {"id": "C18_RSV", "theorem": "Iora.C18.W6_rsv_observation", "kind": "proved",
     "statement": "observation: a first byte with an RSV bit yields an empty frame that is handled as real and is not extension-stable"},
]
ANCHOR_FILES = ["include/iora/network/websocket_frame.hpp", "include/iora/network/websocket_server.hpp",
                "include/iora/network/websocket_client.hpp", "include/iora/network/http_server.hpp"]
VERIF = os.path.dirname(os.path.dirname(os.path.abspath(__file__)))
DETSCHED = os.path.join(VERIF, "harness", "detsched", "detsched.cpp")
LEAN_MODULES_ALL = ["IoraModel.Lemmas.WsFrame", "IoraModel.Lemmas.WsServer", "IoraModel.Lemmas.WsStream", "IoraModel.Lemmas.WsClient",
                    "IoraModel.Lemmas.WsEndpoint", "IoraModel.Lemmas.WsUpgrade", "IoraModel.Model.WsClient", "IoraModel.Lemmas.Utf8", "IoraModel.Model.WsFrame",
                    "IoraModel.Model.WsServer", "IoraModel.Model.WsSkel", "IoraModel.Model.WsConc", "IoraModel.Lemmas.WsConc", "IoraModel.Common.Framing"]

CONTROL = (8, 9, 10)
DATA = (0, 1, 2)
BOUNDARY_LENS = [0, 1, 2, 124, 125, 126, 127, 128, 255, 256, 65534, 65535, 65536, 65537, 70001]


# ------------------------------------------------------------------ independent reference encoder (generator side)
def ws_ser(fin, op, masked, key, payload):
    b0 = (op & 15) | (0x80 if fin else 0)
    n = len(payload)
    m = 0x80 if masked else 0
    if n <= 125:
        h = bytes([b0, m | n])
    elif n <= 0xFFFF:
        h = bytes([b0, m | 126]) + n.to_bytes(2, "big")
    else:
        h = bytes([b0, m | 127]) + n.to_bytes(8, "big")
    if masked:
        return h + key + bytes(payload[i] ^ key[i % 4] for i in range(n))
    return h + payload


def frame_line(fin, op, masked, key, payload, consumed):
    return "frame %d %d %d %s %s %d" % (fin, op, masked, hexs(key if masked else b"\0\0\0\0"), hexs(payload), consumed)


def rand_utf8(rng, n):
    out = []
    for _ in range(n):
        k = rng.below(10)
        if k < 5:
            cp = rng.range(0x20, 0x7E)
        elif k < 7:
            cp = rng.range(0x80, 0x7FF)
        elif k < 9:
            cp = rng.choice([rng.range(0x800, 0xD7FF), rng.range(0xE000, 0xFFFF)])
        else:
            cp = rng.range(0x10000, 0x10FFFF)
        out.append(chr(cp))
    return "".join(out).encode("utf-8")


UTF8_EDGE = [b"", b"\x7f", b"\x80", b"\xc0\x80", b"\xc1\xbf", b"\xc2\x80", b"\xdf\xbf", b"\xe0\x80\x80", b"\xe0\x9f\xbf", b"\xe0\xa0\x80",
             b"\xed\x9f\xbf", b"\xed\xa0\x80", b"\xed\xbf\xbf", b"\xee\x80\x80", b"\xef\xbf\xbf", b"\xf0\x80\x80\x80", b"\xf0\x8f\xbf\xbf",
             b"\xf0\x90\x80\x80", b"\xf4\x8f\xbf\xbf", b"\xf4\x90\x80\x80", b"\xf5\x80\x80\x80", b"\xf8\x88\x80\x80\x80", b"\xff", b"\xfe",
             b"\xe2\x82", b"\xe2", b"\xf0\x9f\x98", b"\xc2", b"a\xc2", b"\xe2\x82\xac", b"\xf0\x9f\x98\x80", b"\xe2\x28\xa1", b"\xc3\x28",
             b"\xf0\x28\x8c\xbc", b"\xf0\x90\x28\xbc", b"\xf0\x28\x8c\x28", b"\xe0\xa0", b"\xf4\x8f\xbf", b"\xf1\x80\x80\x80", b"\xf3\xbf\xbf\xbf"]


def py_utf8_ok(b):
    try:
        b.decode("utf-8", "strict")
        return True
    except UnicodeDecodeError:
        return False


def rand_payload(rng, n):
    k = rng.below(4)
    if k == 0:
        return bytes([rng.below(256)]) * n
    if k == 1:
        return bytes((i * 7 + 3) & 0xFF for i in range(n))
    return rng.bytes(n)


def rand_frame(rng, big_ok=True):
    op = rng.choice([0, 1, 2, 1, 2, 8, 9, 10, 3, 7, 11, 15]) if rng.chance(1, 4) else rng.choice([0, 1, 2, 8, 9, 10])
    ctl = op in CONTROL
    fin = True if ctl else rng.chance(2, 3)
    masked = rng.chance(1, 2)
    key = rng.bytes(4) if masked else b"\0\0\0\0"
    if ctl:
        n = rng.choice([0, 1, 2, 125, 124, rng.range(0, 125)])
    else:
        n = rng.choice(BOUNDARY_LENS) if (big_ok and rng.chance(1, 3)) else rng.range(0, 300)
    return fin, op, masked, key, rand_payload(rng, n)


# ------------------------------------------------------------------ case generation
def gen_codec_cases(ctx, rng, scale):
    cases = []
    # (a) round trip with trailing bytes
    for i in range(400 * scale):
        fin, op, masked, key, pl = rand_frame(rng)
        wire = ws_ser(fin, op, masked, key, pl)
        trail = rng.bytes(rng.choice([0, 0, 1, 2, 5, 17]))
        mx = rng.choice([len(pl), len(pl) + 1, 2 ** 64 - 1, 16777216 if len(pl) <= 16777216 else len(pl)])
        cases.append({"cat": "roundtrip", "ops": ["parse %d %s" % (mx, hexs(wire + trail))],
                      "expect": [frame_line(fin, op, masked, key, pl, len(wire))]})
        if i % 4 == 0:
            cases.append({"cat": "ser", "ops": ["ser %d %d %d %s %s" % (fin, op, masked, hexs(key), hexs(pl))], "expect": [hexs(wire)]})
    # (b) strict prefixes (every cut of small frames, header cuts of large ones)
    for i in range(60 * scale):
        fin, op, masked, key, pl = rand_frame(rng, big_ok=(i % 5 == 0))
        wire = ws_ser(fin, op, masked, key, pl)
        cuts = list(range(len(wire))) if len(wire) <= 64 else list(range(0, 16)) + [len(wire) - 1, len(wire) // 2]
        mx = rng.choice([len(pl), 2 ** 64 - 1])
        cases.append({"cat": "prefix", "ops": ["parse %d %s" % (mx, hexs(wire[:c])) for c in cuts], "expect": ["incomplete"] * len(cuts)})
    # (c) boundary stream: declared lengths near every width limit, few bytes available
    decl = [125, 126, 127, 128, 65535, 65536, 65537, 2 ** 31 - 1, 2 ** 31, 2 ** 32 - 1, 2 ** 32, 2 ** 32 + 1, 2 ** 63 - 1, 2 ** 63, 2 ** 63 + 1] + \
           [2 ** 64 - k for k in range(1, 21)]
    for d in decl:
        for op in (1, 2, 0, 9, 8, 5):
            for masked in (0, 1):
                for form in (126, 127):
                    if form == 126 and d > 0xFFFF:
                        continue
                    hdr = bytes([0x80 | op, (0x80 if masked else 0) | form]) + d.to_bytes(2 if form == 126 else 8, "big")
                    avail = rng.choice([0, 1, 4, 5, 14, 40])
                    data = hdr + rng.bytes(avail)
                    for mx in (2 ** 64 - 1, 16777216, d, d - 1 if d else 0):
                        cases.append({"cat": "boundary", "ops": ["parse %d %s" % (mx, hexs(data))], "declared": d})
    # control-frame protocol errors (F10 witnesses): length code 126/127 or FIN=0 on a control opcode
    for op in CONTROL:
        for b1 in (126, 127, 126 | 0x80, 127 | 0x80):
            cases.append({"cat": "control-error", "ops": ["parse 16777216 %s" % hexs(bytes([0x80 | op, b1]) + rng.bytes(10))],
                          "expect": ["protocolError"]})
        cases.append({"cat": "control-error", "ops": ["parse 16777216 %s" % hexs(bytes([op, 0]))], "expect": ["protocolError"]})
    # (d) mutated and arbitrary bytes
    for i in range(500 * scale):
        if i % 3 == 0:
            data = rng.bytes(rng.range(0, 40))
        else:
            fin, op, masked, key, pl = rand_frame(rng, big_ok=False)
            w = bytearray(ws_ser(fin, op, masked, key, pl))
            for _ in range(rng.range(1, 3)):
                k = rng.below(4)
                if k == 0 and w:
                    w[rng.below(min(len(w), 14))] ^= 1 << rng.below(8)
                elif k == 1 and w:
                    del w[rng.below(len(w)):]
                elif k == 2:
                    w[rng.below(len(w) + 1):0] = rng.bytes(rng.range(1, 3))
                elif w:
                    w[rng.below(min(len(w), 14))] = rng.below(256)
            data = bytes(w)
        mx = rng.choice([2 ** 64 - 1, 16777216, 100, 10])
        cases.append({"cat": "mutated", "ops": ["parse %d %s" % (mx, hexs(data))], "avail": len(data), "max": mx})
    # (f) utf-8: python's strict decoder is the independent reference
    for e in UTF8_EDGE:
        cases.append({"cat": "utf8", "ops": ["utf8 %s" % hexs(e)], "expect": ["1" if py_utf8_ok(e) else "0"]})
        cases.append({"cat": "utf8", "ops": ["utf8 %s" % hexs(b"ab" + e + b"c")], "expect": ["1" if py_utf8_ok(b"ab" + e + b"c") else "0"]})
    for i in range(300 * scale):
        s = bytearray(rand_utf8(rng, rng.range(0, 12)))
        if i % 2 and s:
            k = rng.below(3)
            if k == 0:
                s[rng.below(len(s))] ^= 1 << rng.below(8)
            elif k == 1:
                del s[rng.below(len(s))]
            else:
                s.insert(rng.below(len(s) + 1), rng.choice([0x80, 0xBF, 0xC0, 0xC1, 0xE0, 0xED, 0xF0, 0xF4, 0xF5, 0xFF]))
        s = bytes(s)
        cases.append({"cat": "utf8", "ops": ["utf8 %s" % hexs(s)], "expect": ["1" if py_utf8_ok(s) else "0"]})
    # (g) makeClose boundary (FC18c): reason lengths around 123, UTF-8 sequences straddling the cut
    for n in (0, 1, 122, 123, 124, 125, 126, 200):
        for fill in (b"a", "\u00e9".encode(), "\u20ac".encode(), "\U0001f600".encode()):
            for shift in (0, 1, 2, 3):
                r = (b"x" * shift + fill * (n // len(fill) + 1))[:n + shift] if n else b""
                cases.append({"cat": "mkclose", "ops": ["mkclose %d %s" % (rng.choice([1000, 1001, 3000, 4999]), hexs(r))], "reason": r})
    cases.append({"cat": "mkclose", "ops": ["mkclose 1000 %s" % hexs(b"\x80" * 130)], "reason": b"\x80" * 130})
    return cases


def gen_stream(rng, maxframe, close_mid=False, ep="srv"):
    """A protocol-valid peer frame stream + what the endpoint must deliver for it.
    Returns dict(frames, expect, ends_early): `expect` lists ("T"|"B", bytes) | ("PONG", bytes) | ("CLOSE1007",) | ("TOOBIG",) |
    ("CLOSE", body) up to the frame that ends the session (a message over the limit; for the server also a CLOSE);
    frames keep coming after it (`ends_early` = at least one frame follows the end) - nothing more may be delivered."""
    st = {"frames": [], "expect": [], "ended": False, "ends_early": False}
    frames, expect = st["frames"], st["expect"]

    def push(fr):
        if st["ended"]:
            st["ends_early"] = True
        frames.append(fr)

    def ctl():
        cp = rng.bytes(rng.choice([0, 1, 8, min(125, maxframe)]))   # a control payload above the limit is (rightly) tooLarge
        cop = rng.choice([9, 10])
        push(ws_ser(True, cop, True, rng.bytes(4), cp))
        if cop == 9 and not st["ended"]:
            expect.append(("PONG", cp))

    def close(body):
        push(ws_ser(True, 8, True, rng.bytes(4), body))
        if not st["ended"]:
            expect.append(("CLOSE", body))
        if ep == "srv":          # the server erases the session; the client only changes state and keeps parsing
            st["ended"] = True

    nmsg = rng.range(1, 5)
    close_at = rng.below(nmsg) if close_mid else -1
    for mi in range(nmsg):
        if mi == close_at:
            close((1000).to_bytes(2, "big") + b"mid")
        kind = rng.below(10)
        if kind < 4:
            pl = rand_utf8(rng, rng.range(0, 30))
            op = 1
        elif kind < 5:
            pl = rng.choice(UTF8_EDGE) + rand_utf8(rng, rng.range(0, 3))
            op = 1
        elif kind < 8:
            pl = rand_payload(rng, rng.choice([0, 1, 125, 126, 127, 300, rng.range(0, 200)]))
            op = 2
        else:
            pl = rand_payload(rng, maxframe + rng.range(-2, 3)) if maxframe < 5000 else rand_payload(rng, 70000)
            op = 2
        nfrag = rng.choice([1, 1, 2, 3, 4])
        cuts = sorted(rng.below(len(pl) + 1) for _ in range(nfrag - 1))
        parts = [pl[a:b] for a, b in zip([0] + cuts, cuts + [len(pl)])]
        acc = 0
        toobig = False
        for i, part in enumerate(parts):
            if rng.chance(1, 4):
                ctl()
            masked = rng.chance(3, 4)
            k = rng.bytes(4) if masked else b"\0\0\0\0"
            push(ws_ser(i == len(parts) - 1, op if i == 0 else 0, masked, k, part))
            acc += len(part)
            if acc > maxframe and not toobig:
                toobig = True
                if not st["ended"]:
                    expect.append(("TOOBIG",))
                    st["ended"] = True      # both endpoints fail the connection; the generator keeps going
        if toobig:
            continue
        if not st["ended"]:
            if op == 1:
                expect.append(("T", pl) if py_utf8_ok(pl) else ("CLOSE1007",))
            else:
                expect.append(("B", pl))
        if rng.chance(1, 5):
            ctl()
    if rng.chance(1, 2):
        code = rng.choice([1000, 1001, 3000])
        reason = rand_utf8(rng, rng.range(0, 5))
        close(rng.choice([b"", code.to_bytes(2, "big") + reason]))
    return {"frames": frames, "expect": expect, "ends_early": st["ends_early"]}


def segmentations(rng, stream, quick, few=False):
    n = len(stream)
    segs = [[stream]]
    if few:
        cuts = sorted(set(rng.below(max(n - 1, 1)) + 1 for _ in range(6)))
    else:
        cuts = list(range(1, n)) if (n <= 40 or not quick) and n <= 400 else sorted(set(rng.below(max(n - 1, 1)) + 1 for _ in range(24)) | set(range(1, min(n, 16))))
    for c in cuts:
        if 0 < c < n:
            segs.append([stream[:c], stream[c:]])
    for _ in range(3):
        k = rng.range(2, 6)
        cs = sorted(set(rng.below(n + 1) for _ in range(k)))
        parts = [stream[a:b] for a, b in zip([0] + cs, cs + [n])]
        segs.append(parts)     # may contain empty reads
    if n <= 120 and not few:
        segs.append([stream[i:i + 1] for i in range(n)])
    return segs


def rand_send_item(rng, limit_hint=100):
    k = rng.below(8)
    if k < 3:
        return "t:%s" % hexs(rand_utf8(rng, rng.range(0, 4)))
    if k < 5:
        return "b:%s" % hexs(rng.bytes(rng.range(0, 5)))
    if k < 6:
        return "p:%s" % hexs(rng.bytes(rng.choice([0, 2, 125, 126])))
    return "c:%d:%s" % (rng.choice([1000, 1001, 4000]), hexs(rng.choice([b"", b"bye", b"r" * 130])))


def rand_script(rng):
    """what the application sends from inside onText / onBinary / onClose / onError"""
    def one():
        if rng.chance(1, 2):
            return "-"
        return ",".join(rand_send_item(rng) for _ in range(rng.range(1, 3)))
    return "%s %s %s %s" % (one(), one(), one(), one())


def app_op(rng, ep):
    k = rng.below(6)
    if k == 0:
        return "%s sendText %s" % (ep, hexs(rand_utf8(rng, 3)))
    if k == 1:
        return "%s sendBinary %s" % (ep, hexs(rng.bytes(4)))
    if k == 2:
        return "%s sendPing %s" % (ep, hexs(rng.bytes(rng.choice([2, 0, 125, 126, 200]))))
    if k == 3:
        return "%s sendClose 1000 %s" % (ep, hexs(b"bye"))
    if k == 4:
        return "%s sendClose %d %s" % (ep, rng.choice([1001, 4000]), hexs(rng.choice([b"r" * 123, b"r" * 124, "€".encode() * 50, b""])))
    return "%s sendText %s" % (ep, hexs(rand_utf8(rng, 1)))


CRLF2 = b"\r\n\r\n"
SAMPLE_KEY = b"dGhlIHNhbXBsZSBub25jZQ=="
SAMPLE_ACCEPT = base64.b64encode(hashlib.sha1(SAMPLE_KEY + b"258EAFA5-E914-47DA-95CA-C5AB0DC85B11").digest())


def upgrade_response(rng, kind="ok"):
    """An HTTP upgrade response for the harness's fixed key; `kind` selects a well-formed or a defective one."""
    acc = SAMPLE_ACCEPT
    status = b"HTTP/1.1 101 Switching Protocols"
    ws = rng.choice([b" ", b"", b"  ", b"\t", b" \t "])
    ws2 = rng.choice([b"", b" ", b"\t"])
    hdrs = [b"Upgrade: websocket", b"Connection: Upgrade"]
    acc_line = b"Sec-WebSocket-Accept:" + ws + acc + ws2
    if kind == "badstatus":
        status = rng.choice([b"HTTP/1.1 200 OK", b"HTTP/1.0 101 Switching Protocols", b" HTTP/1.1 101 x", b"HTTP/1.1 404 Not Found"])
    elif kind == "badaccept":
        acc_line = b"Sec-WebSocket-Accept:" + ws + rng.choice([acc[:-1], acc + b"x", b"", acc.lower(), b"x" + acc])
    elif kind == "noaccept":
        acc_line = b"X-Other: 1"
    elif kind == "lateaccept":
        acc_line = b"X-Other: 2"
    if rng.chance(1, 3):
        hdrs.append(b"Sec-WebSocket-Protocol: chat")
    hdrs.insert(rng.below(len(hdrs) + 1), acc_line)
    out = status + b"\r\n" + b"\r\n".join(hdrs) + CRLF2
    if kind == "lateaccept":
        out += b"Sec-WebSocket-Accept: " + acc + CRLF2      # after the header section: must not count
    return out


def gen_server_cases(ctx, rng, scale, quick):
    cases = []
    for sidx in range(44 * scale):
        maxframe = rng.choice([16777216, 16777216, 300, 64, 200])
        st = gen_stream(rng, maxframe, close_mid=(sidx % 9 == 8))
        stream = b"".join(st["frames"])
        script = rand_script(rng) if sidx % 3 == 1 else None
        app = [app_op(rng, "srv") for _ in range(rng.range(1, 4))] if rng.chance(1, 3) else []
        for gi, segs in enumerate(segmentations(rng, stream, quick, few=quick and len(stream) > 20000)):
            ops = ["srv reset %d" % maxframe] + (["srv script " + script] if script else []) + ["srv data %s" % hexs(s) for s in segs]
            ops += app    # application sends after the stream (same for every segmentation, so events stay comparable)
            cases.append({"cat": "server-stream", "ops": ops, "stream_id": sidx, "expect_msgs": st["expect"], "ends_early": st["ends_early"],
                          "maxframe": maxframe, "stream_len": len(stream), "nseg": len(segs)})
    # the REAL upgrade boundary: the first `c` bytes of the stream arrive in the same read as the upgrade request
    # (HttpServer::handleIncomingData -> thread pool -> onUpgradeRequest -> 101 -> buffer drain -> onUpgradedData)
    for sidx in range(14 * scale):
        maxframe = rng.choice([16777216, 300, 64])
        st = gen_stream(rng, maxframe)
        stream = b"".join(st["frames"])
        if CRLF2 in stream or len(stream) > 60000:
            continue        # the HTTP request loop would look for a second pipelined request in the trailing bytes
        script = rand_script(rng) if sidx % 3 == 1 else None
        n = len(stream)
        cuts = sorted(set([0, n, min(n, 1), min(n, 2), n // 2, max(n - 1, 0)] + [rng.below(n + 1) for _ in range(3)]))
        for c in cuts:
            ops = ["srv reset %d" % maxframe] + (["srv script " + script] if script else []) + ["srv upgrade %s" % hexs(stream[:c])]
            rest = stream[c:]
            if rest:
                k = rng.below(len(rest) + 1)
                ops += ["srv data %s" % hexs(x) for x in (rest[:k], rest[k:]) if x or rng.chance(1, 4)]
            cases.append({"cat": "server-upgrade", "ops": ops, "stream_id": "u%d" % sidx, "expect_msgs": st["expect"], "ends_early": st["ends_early"],
                          "maxframe": maxframe, "stream_len": n, "cut": c})
    # robustness: protocol-invalid / mutated streams through the server
    for i in range(110 * scale):
        maxframe = rng.choice([16777216, 100, 64])
        st = gen_stream(rng, maxframe)
        w = bytearray(b"".join(st["frames"]))
        k = rng.below(7)
        if k == 0:
            w[0:0] = bytes([0x80 | rng.choice(CONTROL), rng.choice([126, 127, 254, 255])]) + rng.bytes(4)
        elif k == 1:
            w[0:0] = bytes([0x82, 127]) + (2 ** 64 - rng.range(1, 20)).to_bytes(8, "big")
        elif k == 2:
            w[0:0] = bytes([0x82, 127]) + (maxframe + rng.range(1, 3)).to_bytes(8, "big") + rng.bytes(30)
        elif k == 3 and w:
            for _ in range(3):
                w[rng.below(len(w))] ^= 1 << rng.below(8)
        elif k == 4:
            w[0:0] = bytes([rng.choice(CONTROL), 0])      # control frame without FIN
        elif k == 5:
            w = bytearray(rng.bytes(rng.range(1, 60)))
        else:
            # a message that never ends: non-final fragments for ever (the fragment buffer must stay bounded)
            w = bytearray(ws_ser(False, rng.choice([1, 2]), True, rng.bytes(4), rng.bytes(rng.range(0, 8))))
            for _ in range(rng.range(10, 30)):
                w += ws_ser(False, 0, rng.chance(1, 2), rng.bytes(4), rng.bytes(rng.range(1, max(2, min(maxframe, 40)))))
        w = bytes(w)
        n = len(w)
        cs = sorted(set(rng.below(n + 1) for _ in range(rng.range(0, 4))))
        parts = [w[a:b] for a, b in zip([0] + cs, cs + [n])]
        ops = ["srv reset %d" % maxframe] + (["srv script " + rand_script(rng)] if i % 4 == 0 else []) + ["srv data %s" % hexs(p) for p in parts]
        # keep feeding: an endpoint that stalls on a protocol error would buffer this without bound
        ops += ["srv data %s" % hexs(rng.bytes(200)) for _ in range(3)]
        ops += ["srv sendText %s" % hexs(b"late")]
        cases.append({"cat": "server-robust", "ops": ops, "maxframe": maxframe})
    # application sends racing the close handshake (single-threaded orders; the locked sections make these the atomic steps),
    # with RE-ENTRANT sends from inside the callbacks
    for i in range(80 * scale):
        ops = ["srv reset 16777216"]
        if i % 2 == 0:
            ops.append("srv script " + rand_script(rng))
        for _ in range(rng.range(2, 8)):
            k = rng.below(8)
            if k <= 2:
                ops.append(app_op(rng, "srv"))
            elif k == 3:
                ops.append("srv data %s" % hexs(ws_ser(True, 8, True, rng.bytes(4), (1000).to_bytes(2, "big"))))
            elif k == 4:
                ops.append("srv data %s" % hexs(ws_ser(True, rng.choice([1, 2]), True, rng.bytes(4), b"hi")))
            elif k == 5:
                ops.append("srv data %s" % hexs(ws_ser(True, 1, True, rng.bytes(4), b"\xff")))      # invalid UTF-8 -> close 1007
            elif k == 6:
                ops.append("srv data %s" % hexs(ws_ser(True, rng.choice([3, 7, 11]), True, rng.bytes(4), b"")))   # reserved opcode -> 1002 + onError
            else:
                ops.append("srv data %s" % hexs(ws_ser(True, 9, True, rng.bytes(4), b"p")))
        cases.append({"cat": "server-close-race", "ops": ops, "maxframe": 16777216})
    return cases


def gen_client_cases(ctx, rng, scale, quick):
    """Server->client streams through the real WebSocketClient::handleData, every segmentation; app sends around."""
    cases = []
    for sidx in range(34 * scale):
        maxframe = rng.choice([16777216, 16777216, 300, 64])
        st = gen_stream(rng, maxframe, close_mid=(sidx % 9 == 8), ep="cli")
        stream = b"".join(st["frames"])
        script = rand_script(rng) if sidx % 3 == 1 else None
        app = [app_op(rng, "cli") for _ in range(rng.range(1, 4))] if rng.chance(1, 3) else []
        for segs in segmentations(rng, stream, quick, few=quick and len(stream) > 20000):
            ops = ["cli reset %d" % maxframe] + (["cli script " + script] if script else []) + ["cli data %s" % hexs(x) for x in segs] + app
            cases.append({"cat": "client-stream", "ops": ops, "stream_id": "c%d" % sidx, "expect_msgs": st["expect"], "ends_early": st["ends_early"],
                          "maxframe": maxframe, "stream_len": len(stream), "nseg": len(segs)})
    # the upgrade boundary: the 101 response and the first frames in any segmentation (cuts inside the response, at its end, inside frames)
    for sidx in range(14 * scale):
        st = gen_stream(rng, 16777216)
        stream = b"".join(st["frames"])
        if len(stream) > 3000:
            stream = stream[:0]
            st = {"frames": [], "expect": [], "ends_early": False}
        resp = upgrade_response(rng)
        whole = resp + stream
        script = rand_script(rng) if sidx % 3 == 1 else None
        n = len(whole)
        cutsets = [[], [len(resp)], [len(resp) - 1], [len(resp) + 1], [len(resp) - 4], [1], [rng.below(len(resp))], [len(resp) - 2, len(resp) + 2]]
        cutsets += [sorted(set(rng.below(n + 1) for _ in range(rng.range(1, 4)))) for _ in range(3)]
        for cs in cutsets:
            cs = [c for c in cs if 0 <= c <= n]
            parts = [whole[a:b] for a, b in zip([0] + cs, cs + [n])]
            ops = ["cli hs"] + (["cli script " + script] if script else []) + ["cli data %s" % hexs(x) for x in parts]
            cases.append({"cat": "client-upgrade", "ops": ops, "stream_id": "h%d" % sidx, "expect_msgs": st["expect"], "ends_early": st["ends_early"],
                          "maxframe": 16777216})
    for i in range(40 * scale):
        kind = rng.choice(["badstatus", "badaccept", "noaccept", "lateaccept", "huge", "ok"])
        if kind == "huge":
            chunks = [b"HTTP/1.1 101 x\r\nX: " + b"a" * 30000] + [b"b" * 30000] * 3 + [CRLF2]
        else:
            resp = upgrade_response(rng, kind) + ws_ser(True, 1, False, b"", b"hi")
            cs = sorted(set(rng.below(len(resp) + 1) for _ in range(rng.range(0, 3))))
            chunks = [resp[a:b] for a, b in zip([0] + cs, cs + [len(resp)])]
        ops = ["cli hs"] + ["cli data %s" % hexs(x) for x in chunks] + ["cli sendText %s" % hexs(b"x")]
        cases.append({"cat": "client-upgrade-robust", "ops": ops, "maxframe": 16777216, "kind": kind})
    for i in range(70 * scale):
        maxframe = rng.choice([16777216, 100, 64])
        st = gen_stream(rng, maxframe)
        w = bytearray(b"".join(st["frames"]))
        k = rng.below(7)
        if k == 0:
            w[0:0] = bytes([0x80 | rng.choice(CONTROL), rng.choice([126, 127, 254, 255])]) + rng.bytes(4)
        elif k == 1:
            w[0:0] = bytes([0x82, 127]) + (2 ** 64 - rng.range(1, 20)).to_bytes(8, "big")
        elif k == 2:
            w[0:0] = bytes([0x82, 127]) + (maxframe + rng.range(1, 3)).to_bytes(8, "big") + rng.bytes(30)
        elif k == 3 and w:
            for _ in range(3):
                w[rng.below(len(w))] ^= 1 << rng.below(8)
        elif k == 4:
            w[0:0] = bytes([rng.choice(CONTROL), 0])
        elif k == 5:
            w = bytearray(rng.bytes(rng.range(1, 60)))
        else:
            w = bytearray(ws_ser(False, rng.choice([1, 2]), False, b"", rng.bytes(rng.range(0, 8))))
            for _ in range(rng.range(10, 30)):
                w += ws_ser(False, 0, False, b"", rng.bytes(rng.range(1, max(2, min(maxframe, 40)))))
        w = bytes(w)
        n = len(w)
        cs = sorted(set(rng.below(n + 1) for _ in range(rng.range(0, 4))))
        parts = [w[a:b] for a, b in zip([0] + cs, cs + [n])]
        ops = ["cli reset %d" % maxframe] + (["cli script " + rand_script(rng)] if i % 4 == 0 else []) + ["cli data %s" % hexs(x) for x in parts]
        ops += ["cli data %s" % hexs(rng.bytes(200)) for _ in range(3)] + ["cli sendText %s" % hexs(b"late")]
        cases.append({"cat": "client-robust", "ops": ops, "maxframe": maxframe})
    for i in range(70 * scale):
        ops = ["cli reset"]
        if i % 2 == 0:
            ops.append("cli script " + rand_script(rng))
        for _ in range(rng.range(2, 8)):
            k = rng.below(8)
            if k <= 2:
                ops.append(app_op(rng, "cli"))
            elif k == 3:
                ops.append("cli data %s" % hexs(ws_ser(True, 8, False, b"", (1000).to_bytes(2, "big"))))
            elif k == 4:
                ops.append("cli data %s" % hexs(ws_ser(True, rng.choice([1, 2]), False, b"", b"hi")))
            elif k == 5:
                ops.append("cli data %s" % hexs(ws_ser(True, 1, False, b"", b"\xff")))
            elif k == 6:
                ops.append("cli data %s" % hexs(bytes([0x80 | 9, 126, 0, 126]) + b"p" * 126))      # oversize ping -> protocol failure, onError
            else:
                ops.append("cli data %s" % hexs(ws_ser(True, 9, False, b"", b"p")))
        cases.append({"cat": "client-close-race", "ops": ops, "maxframe": 16777216})
    return cases


# ------------------------------------------------------------------ two threads under DetSched (harness only + model interleavings)
RACE_PROGRAMS = {
    "srv": ["t:6869/c:1000:-", "b:0102/d:CLOSE", "t:6869,b:01/c:1001:6279", "t:61/c:1000:-/d:CLOSE", "p:70/c:1000:-", "t:61/d:TEXTBAD",
            "c:1000:-/d:CLOSE", "t:61,t:62/d:CLOSE"],
    "cli": ["t:6869/c:1000:-", "b:0102/d:CLOSE", "t:6869,b:01/c:1001:6279", "t:61/c:1000:-/d:CLOSE", "p:70/c:1000:-", "t:61/d:TEXTBAD",
            "c:1000:-/d:CLOSE"],
}


def race_program(ep, prog):
    masked = ep == "srv"
    key = b"\1\2\3\4" if masked else b""
    close = ws_ser(True, 8, masked, key, (1000).to_bytes(2, "big"))
    bad = ws_ser(True, 1, masked, key, b"\xff")
    return prog.replace("d:CLOSE", "d:" + hexs(close)).replace("d:TEXTBAD", "d:" + hexs(bad))


def item_to_op(ep, it):
    p = it.split(":")
    if p[0] == "t":
        return "%s sendText %s" % (ep, p[1])
    if p[0] == "b":
        return "%s sendBinary %s" % (ep, p[1])
    if p[0] == "p":
        return "%s sendPing %s" % (ep, p[1])
    if p[0] == "c":
        return "%s sendClose %s %s" % (ep, p[1], p[2])
    return "%s data %s" % (ep, p[1])


def interleavings(threads):
    """all merges of the threads' op lists that keep each thread's order"""
    if all(not t for t in threads):
        return [[]]
    out = []
    for i, t in enumerate(threads):
        if t:
            rest = [list(x) for x in threads]
            rest[i] = rest[i][1:]
            out += [[t[0]] + tail for tail in interleavings(rest)]
    return out


def sends_only(evs):
    return [e for e in evs if e.startswith("S:")]


def run_races(ctx, hb, quick):
    """Each program = 2-3 application threads (sends, and reads fed by an 'I/O thread') against one real session under DetSched.
    Property monitor: W5 on the wire order of every schedule. Tie to the model: the frames on the wire of every schedule
    must be the frames of SOME interleaving of the model's atomic steps (the locked sections)."""
    n_sched = 0
    n_out = 0
    lines = []
    meta = []
    for ep, progs in RACE_PROGRAMS.items():
        for p in progs:
            prog = race_program(ep, p)
            nthreads = prog.count("/") + 1
            how = "explore %d" % (1200 if quick else 60000) if nthreads == 2 else "random %d %d" % (ctx.seed, 250 if quick else 8000)
            lines.append("%s race %s %s" % (ep, prog, how))
            meta.append((ep, prog))
    out, rc, err = ctx.run_lines([hb], lines, timeout=900)
    out = out + ["crash:%s" % rc] * (len(lines) - len(out))
    # what the model allows: the wire of every interleaving of the atomic steps
    mlines = []
    spans = []
    for ep, prog in meta:
        threads = [[item_to_op(ep, it) for it in th.split(",")] for th in prog.split("/")]
        ils = interleavings(threads)
        a = len(mlines)
        for il in ils:
            mlines += ["%s reset%s" % (ep, " 16777216" if ep == "srv" else "")] + il
        spans.append((a, len(mlines), [len(il) + 1 for il in ils]))
    mout, mrc, merr = ctx.run_lines(ctx.model_argv("ws"), mlines, timeout=300)
    for (ep, prog), line, (a, b, lens) in zip(meta, out, spans):
        allowed = set()
        pos = a
        for ln in lens:
            allowed.add(tuple(sends_only(events_of(mout[pos:pos + ln]))))
            pos += ln
        ctx.count_case("race " + ep + prog)
        if not line.startswith("race "):
            ctx.violation("property", "W6: the race harness died or threw on `%s race %s`: %s" % (ep, prog, line[:120]),
                          {"ops": ["%s race %s explore 200" % (ep, prog)], "category": "race", "stderr": err[-1500:]}, found_input=True)
            continue
        toks = line.split()
        n_sched += int(toks[1].split("=")[1])
        for o in toks[4:]:
            status, choices, evs = o.split("@", 2)
            n_out += 1
            evl = [] if evs == "-" else evs.split(";")
            fails = []
            if status != "ok":
                fails.append("W5(concurrent): schedule ends in %s" % status)
            seen_close = False
            for e in evl:
                so = sent_opcode(e)
                if so == 8:
                    seen_close = True
                elif so in DATA and seen_close:
                    fails.append("W5: data frame sent after a close frame under a concurrent schedule: %s" % e[:40])
            if not fails and tuple(sends_only(evl)) not in allowed:
                ctx.violation("correspondence", "a concurrent schedule puts frames on the wire that no interleaving of the model's atomic steps produces: %s (allowed: %s)"
                              % (sends_only(evl), sorted(allowed)[:4]),
                              {"broken": {"correspondence": "race linearisation (harness/c18_ws.cpp + detsched vs Model/WsServer.lean, WsClient.lean)",
                                          "detail": "program %s, schedule %s" % (prog, choices)},
                               "ops": ["%s race %s replay %s" % (ep, prog, choices)]}, found_input=False)
            if fails:
                ctx.violation("property", fails[0] + " [program %s]" % prog,
                              {"ops": ["%s race %s replay %s" % (ep, prog, choices)], "observed": evl, "failures": fails, "category": "race",
                               "schedule": choices}, found_input=True)
    ctx.extra["race_schedules_run"] = n_sched
    ctx.extra["race_distinct_outcomes"] = n_out
    return n_sched


# ------------------------------------------------------------------ property monitors (implementation output only)
def events_of(lines):
    evs = []
    for l in lines:
        if " | " not in l:
            continue
        e = l.split(" | ")[0]
        if e != "-":
            evs += e.split(";")
    return evs


def sent_opcode(ev):
    """opcode of a frame-send event (server form S:<wire hex>, client form S:<op>:<fin>:<payload>); -1 = a send that is not one
    decodable frame; None = not a send"""
    if ev.startswith("S:"):
        parts = ev.split(":")
        if len(parts) == 4:            # client form S:<op>:<fin>:<payload>
            return int(parts[1]) if parts[1].isdigit() else -1
        if len(parts) == 2 and len(ev) >= 4:
            try:
                return int(ev[2:4], 16) & 15
            except ValueError:
                return -1
        return -1
    return None


def ref_parse_one(w):
    """reference decoder for ONE unmasked server frame: (fin, op, payload) or None if `w` is not exactly one acceptable frame"""
    if len(w) < 2 or (w[0] & 0x70) or (w[1] & 0x80):
        return None
    fin, op, l7 = w[0] >> 7, w[0] & 15, w[1] & 127
    pos = 2
    if op in CONTROL and (l7 > 125 or not fin):
        return None
    if l7 == 126:
        if len(w) < 4:
            return None
        n = int.from_bytes(w[2:4], "big")
        pos = 4
    elif l7 == 127:
        if len(w) < 10:
            return None
        n = int.from_bytes(w[2:10], "big")
        pos = 10
    else:
        n = l7
    if len(w) != pos + n:
        return None
    return fin, op, w[pos:]


def ref_close_reason(r):
    """what makeClose may keep of a reason: everything up to 123 bytes, else cut to <= 123 on a UTF-8 character boundary"""
    if len(r) <= 123:
        return r
    n = 123
    while n > 0 and (r[n] & 0xC0) == 0x80:
        n -= 1
    return r[:n]


def delivered(evs, ep):
    got = []
    for e in evs:
        if e.startswith("T:"):
            got.append(("T", unhex(e[2:])))
        elif e.startswith("B:"):
            got.append(("B", unhex(e[2:])))
        elif e.startswith("S:") and ep == "cli":
            pr = e.split(":")
            if len(pr) == 4 and pr[1] == "10":
                got.append(("PONG", unhex(pr[3])))
            elif len(pr) == 4 and pr[1] == "8" and unhex(pr[3])[:2] == (1007).to_bytes(2, "big"):
                got.append(("CLOSE1007",))
        elif e.startswith("S:") and ep == "srv":
            w = unhex(e[2:])
            if w and w[0] & 15 == 10:
                got.append(("PONG", w[2:]))
            elif w and w[0] & 15 == 8 and w[2:4] == (1007).to_bytes(2, "big"):
                got.append(("CLOSE1007",))
    return got


def monitor_case(c, impl):
    """Returns a list of property failures visible in the implementation's own output for this case."""
    bad = []
    for op, l in zip(c["ops"], impl):
        if l.startswith("throw") or l.startswith("crash:"):
            bad.append("W6: input makes the endpoint throw/crash: %s -> %s" % (op[:80], l))
    cat = c["cat"]
    if cat in ("roundtrip", "ser", "prefix", "utf8", "control-error") and "expect" in c:
        for op, l, e in zip(c["ops"], impl, c["expect"]):
            if l != e:
                tag = {"roundtrip": "W1", "ser": "W1", "prefix": "W2", "utf8": "W4(utf8)", "control-error": "W6"}[cat]
                bad.append("%s: %s -> got %s, reference says %s" % (tag, op[:100], l[:100], e[:100]))
    if cat == "mkclose":
        for op, l in zip(c["ops"], impl):
            try:
                w = unhex(l)
            except Exception:
                continue
            f = ref_parse_one(w)
            code = int(op.split()[1])
            want = (code & 0xFFFF).to_bytes(2, "big") + ref_close_reason(c["reason"])
            if f is None:
                bad.append("W1: makeClose serialises a frame the parser rejects (payload %d bytes): %s" % (len(w) - 2, op[:60]))
            elif f[1] != 8 or f[2] != want:
                bad.append("W1: makeClose payload is not code + reason (cut to 123 on a character boundary): %s -> %s" % (op[:60], l[:80]))
    if cat in ("mutated", "boundary"):
        for op, l in zip(c["ops"], impl):
            t = l.split()
            if t and t[0] == "frame":
                avail = (len(op.split()[2]) // 2) if op.split()[2] != "-" else 0
                mx = int(op.split()[1])
                plen = 0 if t[5] == "-" else len(t[5]) // 2
                if int(t[6]) > avail or plen > avail or plen > mx:
                    bad.append("W6: frame exceeds the buffer or the limit: %s -> %s" % (op[:80], l[:80]))
            elif t and t[0] not in ("incomplete", "protocolError", "tooLarge"):
                if not (l.startswith("throw") or l.startswith("crash:")):
                    bad.append("W6: unexpected parse outcome %s" % l[:60])
    if cat.startswith("server") or cat.startswith("client") or cat == "corpus":
        ep = "cli" if (cat.startswith("client") or any(o.startswith("cli ") for o in c["ops"])) else "srv"
        evs = events_of(impl)
        seen_close = False
        for e in evs:
            so = sent_opcode(e)
            if so == 8:
                seen_close = True
            elif so in DATA and seen_close:
                bad.append("W5: data frame sent after a close frame: %s" % e[:40])
            if so == -1:
                bad.append("W1: the endpoint sent bytes that do not parse as one frame: %s" % e[:60])
            elif so is not None and ep == "srv" and ref_parse_one(unhex(e[2:])) is None:
                bad.append("W1: the server sent a frame its own parser (and any conforming peer) rejects: %s" % e[:40])
        mf = c.get("maxframe", 16777216)
        for l in impl:
            if "buf=" in l:
                b = int(l.split("buf=")[1].split()[0])
                lim = 65536 if "upgraded=0" in l else mf + 13
                if b > lim:
                    bad.append("W6: retained buffer %d exceeds the bound %d (%s)" % (b, lim, "64 KiB while the upgrade response is pending" if "upgraded=0" in l else "maxFrameSize+13"))
            if "frag=" in l:
                fr = int(l.split("frag=")[1].split()[0])
                if fr > mf:
                    bad.append("W6: fragment buffer holds %d bytes, limit %d: reassembly buffers without bound" % (fr, mf))
    if cat in ("client-stream", "server-stream", "server-upgrade", "client-upgrade") and "expect_msgs" in c:
        ep = "cli" if cat.startswith("client") else "srv"
        got = delivered(events_of(impl), ep)
        want = [e for e in c["expect_msgs"] if e[0] in ("T", "B", "PONG", "CLOSE1007")]
        if c.get("ends_early") and ep == "srv":
            # frames that follow the end of the session in the same read may still be answered (pong): only DELIVERIES are fixed
            got = [g for g in got if g[0] in ("T", "B")]
            want = [g for g in want if g[0] in ("T", "B")]
        # sends made by scripts / appended application ops are never pongs or 1007 closes
        if got != want:
            bad.append("W3/W4: delivered messages differ from the messages encoded: got %s want %s" % (str(got)[:200], str(want)[:200]))
    return bad


def replay(ctx):
    """Re-run the op list of a replay file on the real code and the model; exit 1 if the failure is still there."""
    obj = json.load(open(ctx.replay))
    ops = obj.get("ops") or []
    ctx.translate(["ws"])
    ctx.lake_build(MODULES)
    hb = build_harness(ctx)
    if not hb or not ops:
        print("replay: nothing to run (kind=%s)" % obj.get("kind"))
        return 1 if ctx.violations else 0
    if any(" race " in o for o in ops):
        out, rc, err = ctx.run_lines([hb], ops, timeout=300)
        still = False
        for o, l in zip(ops, out):
            print("op    %s\n impl  %s" % (o[:200], l[:300]))
            for part in l.split()[4:]:
                status, choices, evs = part.split("@", 2)
                seen = False
                for e in ([] if evs == "-" else evs.split(";")):
                    so = sent_opcode(e)
                    if so == 8:
                        seen = True
                    elif so in DATA and seen:
                        still = True
                        print("PROPERTY FAILS: W5: data frame after close frame: %s" % e[:60])
                if status != "ok":
                    still = True
        print("replay: %s" % ("still failing" if still else "no longer failing"))
        return 1 if still else 0
    c = {"cat": obj.get("category", "corpus"), "ops": ops, "maxframe": obj.get("maxframe", 16777216)}
    if "reason" in obj:
        c["reason"] = unhex(obj["reason"]) if isinstance(obj["reason"], str) else obj["reason"]
    (c, impl, model), = ctx.lockstep("ws", hb, [c])
    for o, a, b in zip(ops, impl, model):
        print("op    %s\n impl  %s\n model %s" % (o[:200], a[:200], b[:200]))
    fails = monitor_case(c, impl)
    for f in fails:
        print("PROPERTY FAILS:", f[:300])
    still = bool(fails) or impl != model
    print("replay: %s" % ("still failing" if still else "no longer failing"))
    import shutil
    shutil.rmtree(ctx.work, ignore_errors=True)
    return 1 if still else 0


def build_harness(ctx):
    """DetSched is compiled on a second core while the (much larger) harness translation unit compiles."""
    obj = os.path.join(ctx.work, "detsched.o")
    res = {}

    def side():
        res["rc"], res["out"] = ctx.sh(["g++", "-std=c++17", "-O1", "-g1", "-w", "-I", os.path.join(VERIF, "harness"),
                                        "-fsanitize=address,undefined", "-fno-sanitize-recover=all", "-fno-omit-frame-pointer",
                                        "-c", DETSCHED, "-o", obj], timeout=900)
    th = threading.Thread(target=side)
    th.start()
    # compile only (-c) first, then link with the DetSched object
    hobj = ctx.build_harness("harness/c18_ws.cpp", name="c18_ws.o", sanitize=True, flags=["-g1", "-c"])
    th.join()
    if not hobj:
        return None
    if res.get("rc") != 0:
        ctx.violation("harness-build", "harness/detsched/detsched.cpp does not compile: %s" % res.get("out", "")[-300:], {})
        return None
    out = os.path.join(ctx.work, "c18_ws")
    rc, o = ctx.sh(["g++", "-fsanitize=address,undefined", "-fno-sanitize-recover=all", hobj, obj, "-o", out, "-lssl", "-lcrypto", "-lpthread", "-ldl"], timeout=600)
    if rc != 0:
        ctx.violation("harness-build", "harness link failed: %s" % o[-400:], {"broken": {"correspondence": "harness/c18_ws.cpp", "detail": o[-1500:]}})
        return None
    return out


def run(ctx: Ctx):
    if ctx.replay:
        return replay(ctx)
    quick = ctx.tier == "quick"
    scale = 1 if quick else 20
    rng = ctx.rng
    ok_tr = ctx.translate(["ws"])
    # the harness (g++, ~30 s) is built while Lean checks the proofs
    hres = {}
    hth = threading.Thread(target=lambda: hres.update(hb=build_harness(ctx)))
    hth.start()
    ok_build = ctx.lake_build(MODULES)
    if ok_build:
        ctx.audit(MODULES, OBLIGATIONS)
        if not quick:
            ctx.leanchecker(MODULES + LEAN_MODULES_ALL)
    else:
        ctx.cov["obligations"] = len(OBLIGATIONS)
    hth.join()
    hb = hres.get("hb")
    dist = {}
    if hb:
        corpus = load_corpus()
        cases = corpus + gen_codec_cases(ctx, rng.fork("codec"), scale) + gen_server_cases(ctx, rng.fork("srv"), scale, quick) + \
            gen_client_cases(ctx, rng.fork("cli"), scale, quick)
        res = ctx.lockstep("ws", hb, cases)
        by_stream = {}
        n_mismatch = 0
        for c, impl, model in res:
            dist[c["cat"]] = dist.get(c["cat"], 0) + 1
            ctx.count_case("\n".join(c["ops"]), nontrivial=any(not l.startswith("incomplete") for l in impl))
            if c["cat"] in ("roundtrip", "server-stream", "boundary", "server-robust", "client-upgrade", "server-upgrade") and len(ctx.cov["samples"]) < 6 and ctx.rng.chance(1, 50):
                ctx.sample({"cat": c["cat"], "ops": [o[:160] for o in c["ops"][:6]], "impl": [l[:160] for l in impl[:6]]})
            fails = monitor_case(c, impl)
            mism = [(i, a, b) for i, (a, b) in enumerate(zip(impl, model)) if a != b]
            if c["cat"] in ("server-stream", "client-stream", "server-upgrade", "client-upgrade"):
                by_stream.setdefault(c["stream_id"], []).append((c, impl))
            if fails:
                report_property(ctx, hb, c, impl, model, fails)
            elif mism:
                n_mismatch += 1
                if n_mismatch <= 3:
                    i, a, b = mism[0]
                    ctx.violation("correspondence", "model and implementation disagree (no property monitor fails on this case): op `%s` impl=`%s` model=`%s`"
                                  % (c["ops"][i][:120], a[:120], b[:120]),
                                  {"broken": {"correspondence": "ws lockstep (harness/c18_ws.cpp vs Model/WsFrame.lean, Model/WsServer.lean, Model/WsClient.lean)",
                                              "detail": "first differing op index %d" % i},
                                   "ops": c["ops"], "observed": impl, "expected_by_model": model}, found_input=False)
        # W3: every segmentation of one stream must give the same concatenated events (implementation only). Where the stream itself
        # ends the server session before its last frame only the DELIVERIES are segmentation independent (theorem W3_server_msgs).
        nseg = 0
        for sid, lst in by_stream.items():
            c0 = lst[0][0]
            ep = "cli" if c0["cat"].startswith("client") else "srv"

            def view(c, impl):
                evs = events_of(impl)
                evs = [e for e in evs if e not in ("O", "H101")]      # the upgrade ops add the connect/101 events
                if c0.get("ends_early") and ep == "srv":
                    return [e for e in evs if e[:2] in ("T:", "B:")]
                return evs
            base = view(*lst[0])
            for c, impl in lst[1:]:
                nseg += 1
                if view(c, impl) != base:
                    report_property(ctx, hb, c, impl, None, ["W3: events depend on the segmentation: whole=%s cut=%s" % (str(base)[:200], str(view(c, impl))[:200])],
                                    extra={"whole_ops": lst[0][0]["ops"]})
                    break
        ctx.extra["segmentations_compared"] = nseg
        try:
            run_races(ctx, hb, quick)
        except Exception as e:     # a harness that cannot run the races is a broken tie, not a pass
            ctx.violation("correspondence", "race driver failed: %s" % str(e)[:300], {"broken": {"correspondence": "race runs", "detail": str(e)}})
    ctx.extra["input_distribution"] = dist
    ctx.extra["repo_tree_sha"] = ctx.repo_tree_sha(ANCHOR_FILES)
    ctx.extra["not_proved"] = [
        "\"cannot throw\" has no theorem: the Lean model is total by construction, so exceptions are only OBSERVED (every harness op runs under catch + ASan/UBSan; a `throw`/`crash:` answer is a W6 violation)",
        "W5 under true concurrency is proved for the small-step model over the COMPILED SKELETON (W5_concurrent: any threads, any schedule); what that rests on is the translator's abstraction (textual order of lock/flag/send events per function, RAII release on return, frames reach the wire in hand-over order because sendRaw/sendRawBytes serialise under the transport mutex) - tied by the decide obligations on the regenerated skeleton and by DetSched enumeration of 2-3 thread programs against the real code, not by a proof about C++",
        "server: full events after the session has ended inside a read depend on the segmentation (a ping in the same read as a preceding CLOSE is answered, in a later read it is not): W3_server needs CloseOnlyLast + fitting messages; only deliveries (W3_server_msgs) are unconditional",
        "client upgrade response: the SHA-1/base64 value of Sec-WebSocket-Accept enters the model as a constant (the expected value), and only accepted/rejected responses are distinguished (negotiated sub-protocol not modelled); rejected responses are checked in lockstep, not characterised by a theorem",
        "HttpServer::handleIncomingData's HTTP request framing before the upgrade is C15; trailing bytes that contain CRLFCRLF are looked at by that request loop (excluded from the generator)"]
    ctx.assumptions += ["single I/O thread per session (the per-session receive state is only touched by it); application threads interleave at the locked sections pinned by W5_lock_discipline",
                        "the fake engine records bytes handed to Transport::sendAsync; delivery of those bytes is C01",
                        "callbacks are modelled as scripts of sends; other re-entrant calls (disconnect(), stop()) are C02/C05"]
    return ctx.finish(level="proof", rule="a case = one op list (codec op; one segmentation of one generated frame stream fed to a fresh real session, via onUpgradedData/handleData or through the real upgrade path; a robustness or close-race history; one race program); "
                      "distinct = distinct op lists; non-trivial = at least one answer other than `incomplete`")


def report_property(ctx, hb, c, impl, model, fails, extra=None):
    ops = c["ops"]
    if not ctx.violation_budget("property", fails[0]):
        ctx.violation("property", fails[0])
        return
    if len(ops) > 2:
        def still(sub):
            out, rc, err = ctx.run_lines([hb], sub, timeout=60)
            out = out + ["crash:" + str(rc)] * (len(sub) - len(out))
            cc = dict(c)
            cc["ops"] = sub
            cc.pop("expect_msgs", None)      # the message oracle is tied to the full stream
            return bool([f for f in monitor_case(cc, out) if f.split(":")[0] == fails[0].split(":")[0]])
        try:
            if not fails[0].startswith("W3") and still(ops):
                # the configuration prefix (reset with its limit, handshake state, callback scripts) is part of the input: keep it
                k = 0
                while k < len(ops) and (ops[k].split()[1] in ("reset", "hs", "script")):
                    k += 1
                pre, rest = ops[:k], ops[k:]
                if len(rest) > 1:
                    rest = ddmin(rest, lambda sub: still(pre + sub), max_tests=60)
                ops = pre + rest
        except Exception:
            pass
    obj = {"ops": ops, "observed": impl if ops is c["ops"] else None, "expected_by_model": model, "failures": fails[:5], "category": c["cat"],
           "maxframe": c.get("maxframe", 16777216)}
    if "reason" in c:
        obj["reason"] = hexs(c["reason"])
    if extra:
        obj.update(extra)
    ctx.violation("property", fails[0], obj, found_input=True)


def load_corpus():
    d = os.path.join(os.path.dirname(os.path.dirname(os.path.abspath(__file__))), "corpus", "C18")
    out = []
    if os.path.isdir(d):
        for fn in sorted(os.listdir(d)):
            if fn.endswith(".json"):
                c = json.load(open(os.path.join(d, fn)))
                c.setdefault("cat", "corpus")
                if "expect_msgs" in c:
                    c["expect_msgs"] = [tuple(unhex(x) if i and isinstance(x, str) else x for i, x in enumerate(e)) for e in c["expect_msgs"]]
                if "reason" in c and isinstance(c["reason"], str):
                    c["reason"] = unhex(c["reason"])
                out.append(c)
    return out
