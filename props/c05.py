"""C05 — Stopping or destroying a transport never strands, crashes or races (DESIGN §7 C05)  *** PARTIAL by nature ***

Decided here (proof): the LOGIC CORE of the teardown handshake over Model/Teardown.lean and Model/EngineQueue.lean — no stranded
caller, the counters gate destruction (touch-after-destroy unreachable), the entry fence, exactly-once promise fulfilment and
enqueue-after-close rejection, callback confinement / stop() returns after the I/O thread terminated.
NOT decidable by a Lean model and labelled partial: use-after-free and data races of the real object graph, wall-clock bounds.
For those the DetSched programs (ASan build, real Transport over a scripted engine whose stop() behaves like TcpEngine::stop) and,
in the thorough tier, real-TcpEngine loopback start/stop storms under ASan and TSan are the failing-input SEARCH, not the decision."""
import json, os
from vlib.core import Ctx, VERIF

ID = "C05"
MODULES = ["IoraModel.Props.C05"]
DETSCHED = os.path.join(VERIF, "harness", "detsched", "detsched.cpp")
ANCHOR_FILES = ["include/iora/network/transport_impl.hpp", "include/iora/network/detail/tcp_engine.hpp", "include/iora/network/detail/engine_base.hpp"]
OBLIGATIONS = [
    {"id": "C05_skel", "theorem": "Iora.C05.skeleton_conforms", "kind": "proved",
     "statement": "fence written and notified under syncMutex; guards are paired inc/dec + notify; every park site checks the fence and constructs its guard(s) before waiting; performTeardown order; enqueue tests _cmdsClosed under _cmdMutex; shutdownDrain closes the queue and takes the residual under one lock and fails its promises; process fulfils in both arms; addListener returns before waiting when refused; stop joins (decide over the regenerated skeletons)"},
    {"id": "C05_T1_path", "theorem": "Iora.C05.T1_finite_path", "kind": "partial",
     "statement": "every reachable state: a thread inside a sync call (parked, in the close window, anywhere in the flush loop) returns within 3 of its own steps - 'bounded time' as a step bound, not wall-clock"},
    {"id": "C05_T1_wake", "theorem": "Iora.C05.T1_no_lost_wakeup", "kind": "proved",
     "statement": "no schedule leaves a connectSync asleep once the fence is set or its completion delivered, a receiveSync asleep once its session closed or after a wait-out(true) entry, or the destructor asleep with all counters 0"},
    {"id": "C05_T1_gate", "theorem": "Iora.C05.T1_gate_opens", "kind": "proved",
     "statement": "when no thread is inside a call the gate is open: teardown completes"},
    {"id": "C05_T2", "theorem": "Iora.C05.T2_counters_gate_destruction", "kind": "partial",
     "statement": "teardownWaitOut returns only with all counters 0 and nobody inside; Impl is destroyed only then; touching Impl after destruction is unreachable in the MODEL (use-after-free of the real object graph is explored by ASan, not proved)"},
    {"id": "C05_T3", "theorem": "Iora.C05.T3_fence_rejects", "kind": "proved",
     "statement": "a call whose entry section runs after the fence returns ShuttingDown/false in that section without parking or counting"},
    {"id": "C05_T4_close", "theorem": "Iora.C05.T4_enqueue_after_close", "kind": "proved",
     "statement": "enqueue after _cmdsClosed queues nothing"},
    {"id": "C05_T4_promise", "theorem": "Iora.C05.T4_promise_exactly_once", "kind": "proved",
     "statement": "every schedule: a listener promise is fulfilled at most once, a rejected one never, and every accepted one exactly once when the I/O thread has terminated"},
    {"id": "C05_T5_conf", "theorem": "Iora.C05.T5_callbacks_confined", "kind": "proved",
     "statement": "close callbacks are emitted only by I/O-thread steps while that thread exists"},
    {"id": "C05_T5_stop", "theorem": "Iora.C05.T5_no_callback_after_stop", "kind": "proved",
     "statement": "once stop() returned to a non-callback caller the I/O thread has terminated and no later step emits a close callback"},
]


def gen_sched_case(rng):
    kind = rng.choice(["normal", "normal", "stopped", "selfdestruct", "fence", "stop-only"])
    live = sorted(set(rng.range(1, 5) for _ in range(rng.range(0, 3))))
    flush_sids = []
    apps = []
    napps = rng.choice([1, 2, 2, 3, 4, 5])
    long_to = kind in ("selfdestruct",)
    free = list(live) + [9, 10, 11, 12, 13, 14, 15, 16, 17, 18]       # one receiver per session (single-waiter contract; the tombstone is consumed by the first EOF)
    rng.shuffle(free)
    for i in range(napps):
        k = rng.below(10)
        if k < 5:
            sid = free.pop()
            apps.append(["r:%d:%d" % (sid, rng.choice([400, 800]) if long_to or rng.chance(1, 2) else rng.choice([5, 30, 60]))])
        elif k < 8:
            apps.append(["k:%d" % (rng.choice([400, 800]) if long_to or rng.chance(1, 2) else rng.choice([5, 30, 60]))])
        else:
            sid = 20 + i
            flush_sids.append(sid)
            apps.append(["m:%d" % sid])
    io = []
    for _ in range(rng.range(0, 2)):
        io.append(rng.choice(["y", "w"]))
    if live and rng.chance(1, 3) and kind != "selfdestruct":
        io.append("c:%d" % rng.choice(live))
    conn_idx = [i for i, a in enumerate(apps) if a[0].startswith("k:")]
    if conn_idx and rng.chance(1, 3):
        io.append("o:%d" % rng.choice(conn_idx))
    extra = []
    if kind == "normal":
        extra = [["D"]]
    elif kind == "stopped":
        extra = [["W", "S", "D"]] if rng.chance(1, 2) else [["S", "W", "D"]]
    elif kind == "stop-only":
        extra = [["y"] * rng.range(0, 3) + ["S"]]
    elif kind == "selfdestruct":
        if not live:
            live = [1]
        io.append("x:%d" % rng.choice(live))
    elif kind == "fence":
        extra = [["y"] * rng.range(0, 2) + ["F"]]
        # late callers arrive after the fence
        for j in range(rng.range(1, 3)):
            if rng.chance(1, 2):
                apps.append(["Z", "r:%d:%d" % (free.pop(), 50)])
            else:
                apps.append(["Z", "k:50"])
    io.append("w")
    return {"cat": "sched-" + kind, "seed": rng.below(2 ** 31), "timeoutOneIn": rng.choice([0, 0, 6, 12]), "spuriousOneIn": rng.choice([0, 0, 6]),
            "live": live, "flush": flush_sids, "cby": rng.range(0, 3), "io": io, "apps": apps + extra}


def sched_line(c, choices=None):
    first = ("c:" + ",".join(map(str, choices))) if choices is not None else ("c:" + c["choices"] if "choices" in c else str(c["seed"]))
    parts = ["sched", first, str(c["timeoutOneIn"]), str(c["spuriousOneIn"]), "live", ",".join(map(str, c["live"])) or "-",
             "flush", ",".join(map(str, c["flush"])) or "-", "cby", str(c["cby"]), "t"] + c["io"]
    for a in c["apps"]:
        parts += ["t"] + a
    return " ".join(parts)


def reset_line(c):
    kinds = []
    for a in c["apps"]:
        call = [o for o in a if o[0] in "rkm"]
        if not call:
            kinds.append("k")          # a thread that makes no synchronous call (destroyer / stopper): a placeholder that never enters
        elif call[0][0] == "r":
            kinds.append("r:" + call[0].split(":")[1])
        elif call[0][0] == "k":
            kinds.append("k")
        else:
            kinds.append("m")
    return "reset " + " ".join(kinds) + " live " + (",".join(map(str, c["live"])) or "-")


def parse_sched(line):
    if line.startswith("crash:") or " | " not in line:
        return None
    parts = line.split(" | ")
    status = parts[0].strip().rstrip("|").strip()
    steps = []
    for tok in (parts[1].split() if len(parts) > 1 else []):
        if "=>" not in tok:
            continue
        lhs, obs = tok.split("=>", 1)
        f = lhs.split(",")
        steps.append({"tid": int(f[0]), "step": " ".join(f[1:]), "obs": obs})
    return {"status": status.split()[0] if status else "?", "steps": steps, "choices": parts[2].strip() if len(parts) > 2 else "",
            "destroyed": "destroyed=1" in (parts[3] if len(parts) > 3 else ""), "report": parts[4] if len(parts) > 4 else ""}


def sched_monitor(c, res):
    bad = []
    if res is None:
        return ["X: the harness produced no trace"]
    if res["status"] != "ok":
        if res["status"] == "diverged" and "choices" in c:
            return []
        return ["T1: a blocked or in-flight call never returns / teardown never completes under this schedule (%s): %s" % (res["status"], res["report"][:400])]
    ncalls = sum(1 for a in c["apps"] for o in a if o[0] in "rkm")
    rets = {}
    fence_at = None
    stop_returned_at = None
    for k, st in enumerate(res["steps"]):
        f = st["step"].split()
        if f[0] in ("tdBegin", "ioSelfDestruct") and fence_at is None:
            fence_at = k
        for e in st["obs"].split(";"):
            if e.startswith("ret:"):
                _, i, r = e.split(":", 2)
                if int(i) in rets:
                    bad.append("T1: call of thread %s returned twice" % i)
                rets[int(i)] = (k, r)
                if r.startswith("other-"):
                    bad.append("T1: a call returned an unexpected error %s" % r)
                if f[0] == "enter" and fence_at is not None and k > fence_at and r not in ("shuttingDown", "flushed:0", "peerClosed"):
                    bad.append("T3: a call that entered after the fence returned %s instead of ShuttingDown" % r)
            elif e == "stopReturned":
                stop_returned_at = k
            elif e.startswith("gclose:") and stop_returned_at is not None:
                bad.append("T5: a close callback ran on the I/O thread after stop() had returned to its caller")
        if f[0] == "enter" and fence_at is not None and k > fence_at:
            # entered after the fence: must not park (its next own step must not be a wake)
            pass
    if len(rets) != ncalls:
        bad.append("T1: %d of %d synchronous calls returned" % (len(rets), ncalls))
    # after the fence nobody parks: a `wake` of thread i after an `enter` of i that came after the fence is a parked late caller
    entered_after = set()
    for k, st in enumerate(res["steps"]):
        f = st["step"].split()
        if f[0] == "enter" and fence_at is not None and k > fence_at:
            entered_after.add(f[1])
        elif f[0] == "wake" and f[1] in entered_after:
            bad.append("T3: a call that entered after the fence parked")
    if not res["destroyed"]:
        bad.append("T2: the transport was never destroyed (teardown did not complete)")
    return bad


def run_sched(ctx, hb, cases, dist):
    lines = [sched_line(c) for c in cases]
    outs = []
    k = 0
    while k < len(lines):
        out, rc, err = ctx.run_lines([hb], lines[k:], timeout=1500)
        outs += out[:len(lines) - k]
        k = len(outs)
        if k < len(lines):
            why = "asan:" + err.split("ERROR: AddressSanitizer: ")[1].split()[0] if "ERROR: AddressSanitizer: " in err else "rc=%s" % rc
            outs.append("crash:%s %s" % (why, err[-600:].replace("\n", " ")))
            k += 1
    model_lines = []
    spans = []
    parsed = []
    for c, l in zip(cases, outs):
        res = parse_sched(l)
        parsed.append(res)
        a = len(model_lines)
        model_lines.append(reset_line(c))
        if res:
            for st in res["steps"]:
                model_lines.append("st " + st["step"])
        spans.append((a, len(model_lines)))
    mout, mrc, merr = ctx.run_lines(ctx.model_argv("teardown"), model_lines, timeout=1200)
    if mrc != 0 or len(mout) != len(model_lines):
        raise RuntimeError("model driver failed on schedule replay rc=%s lines=%d/%d %s" % (mrc, len(mout), len(model_lines), merr[-300:]))
    n_mis = 0
    for c, l, res, (a, b) in zip(cases, outs, parsed, spans):
        dist[c["cat"]] = dist.get(c["cat"], 0) + 1
        ctx.cov["traces_validated_against_impl"] += 1
        if l.startswith("crash:"):
            ctx.violation("property", "T2: the real Transport crashes (use after free / abort) under a DetSched teardown schedule: %s" % l[:300],
                          {"ops": [sched_line(c)], "observed": [l]}, found_input=True)
            continue
        nsw = 0
        if res:
            dist["sched-status:" + res["status"]] = dist.get("sched-status:" + res["status"], 0) + 1
            nsw = sum(1 for x, y in zip(res["steps"], res["steps"][1:]) if x["tid"] != y["tid"])
            for st in res["steps"]:
                dist["step:" + st["step"].split()[0]] = dist.get("step:" + st["step"].split()[0], 0) + 1
                for e in st["obs"].split(";"):
                    if e.startswith("ret:"):
                        r = e.split(":", 2)[2]
                        dist["ret:" + r] = dist.get("ret:" + r, 0) + 1
        ctx.count_case(sched_line(c) + "|" + (res["choices"] if res else ""), nontrivial=nsw >= 2)
        if len(ctx.cov["samples"]) < 6 and ctx.rng.chance(1, 40) and res:
            ctx.sample({"cat": c["cat"], "line": sched_line(c)[:300], "steps": ["%d:%s=>%s" % (s["tid"], s["step"], s["obs"]) for s in res["steps"][:18]]})
        fails = sched_monitor(c, res)
        if fails:
            replay_line = sched_line(c, choices=[int(x) for x in res["choices"].split(",")]) if res and res["choices"] else sched_line(c)
            ctx.violation("property", fails[0], {"ops": [replay_line], "observed": [l[:4000]], "failures": fails[:5], "category": c["cat"],
                                                 "note": "replay: feed the op line to the harness; the schedule is the recorded DetSched choice list"},
                          found_input=True)
            continue
        if not res:
            continue
        for st, ml in zip(res["steps"], mout[a + 1:b]):
            ans = ml.split(" d=")[0]
            flags = ml[len(ans):]
            if " uaf=1" in flags:
                n_mis += 1
                ctx.violation("correspondence", "acceptor: the model says the recorded schedule touches Impl after its destruction at step `%s` (the harness is "
                              "meant to respect the environment contract)" % st["step"],
                              {"broken": {"correspondence": "teardown trace inclusion", "detail": st["step"]}, "ops": [sched_line(c)],
                               "observed": ["%d:%s=>%s" % (s["tid"], s["step"], s["obs"]) for s in res["steps"]], "expected_by_model": mout[a + 1:b]},
                              found_input=False)
                break
            if ans != st["obs"]:
                n_mis += 1
                if n_mis <= 3:
                    ctx.violation("correspondence", "acceptor: the model cannot explain the recorded trace of the real class (no property monitor fails): "
                                  "step `%s` observed `%s`, model `%s`" % (st["step"], st["obs"][:100], ans[:100]),
                                  {"broken": {"correspondence": "teardown trace inclusion (harness/c05_teardown.cpp under DetSched vs Model/Teardown.lean)",
                                              "detail": "step %s" % st["step"]},
                                   "ops": [sched_line(c, choices=[int(x) for x in res["choices"].split(",")])],
                                   "observed": ["%d:%s=>%s" % (s["tid"], s["step"], s["obs"]) for s in res["steps"]],
                                   "expected_by_model": mout[a + 1:b]}, found_input=False)
                break


def run(ctx: Ctx):
    quick = ctx.tier == "quick"
    scale = 1 if quick else 20
    rng = ctx.rng
    ctx.translate(["tsyncskel"])
    ok_build = ctx.lake_build(MODULES)
    if ok_build:
        ctx.audit(MODULES, OBLIGATIONS)
        if not quick:
            ctx.leanchecker(MODULES + ["IoraModel.Lemmas.Teardown", "IoraModel.Lemmas.EngineQueue", "IoraModel.Model.Teardown", "IoraModel.Model.EngineQueue", "IoraModel.Model.TsyncFacts", "IoraModel.Gen.TsyncSkel"])
    else:
        ctx.cov["obligations"] = len(OBLIGATIONS)
    hb = ctx.build_harness("harness/c05_teardown.cpp", sanitize=True, flags=[DETSCHED])
    dist = {}
    if hb:
        corpus = load_corpus()
        r2 = rng.fork("sched")
        scases = corpus + [gen_sched_case(r2) for _ in range(1000 * scale)]
        run_sched(ctx, hb, scases, dist)
        # supporting exploration on the real engine (ASan build): a short storm in quick, long storms + TSan in thorough
        # `latch`: deterministic - the I/O thread is held inside a residual connect's onClose while another thread enqueues;
        # `cstorm`: 4 threads call connect() in a tight loop racing stop(): every id returned ok must have got its onClose;
        # `storm`: mixed operations (also records ok ids and requires their onClose)
        storms = ["latch", "cstorm %d %d %d" % (rng.below(2 ** 31), 30 if quick else 300, 4),
                  "storm %d %d %d" % (rng.below(2 ** 31), 6 if quick else 150, 4)]
        out, rc, err = ctx.run_lines([hb], storms, timeout=1500)
        storm_report(ctx, "asan", storms, out, rc, err, dist)
        if not quick:
            hb2 = ctx.build_harness("harness/c05_teardown.cpp", name="c05_teardown_tsan", sanitize=False,
                                    flags=["-fsanitize=thread"], defines=["TSYNC_NO_DETSCHED"])
            if hb2:
                storms = ["cstorm %d %d %d" % (rng.below(2 ** 31), 100, 4), "storm %d %d %d" % (rng.below(2 ** 31), 100, 4)]
                out, rc, err = ctx.run_lines([hb2], storms, timeout=3000, env={"TSAN_OPTIONS": "halt_on_error=1:exitcode=97"})
                storm_report(ctx, "tsan", storms, out, rc, err, dist)
    ctx.extra["input_distribution"] = dist
    ctx.extra["repo_tree_sha"] = ctx.repo_tree_sha(ANCHOR_FILES)
    ctx.extra["partial"] = "C05 is PARTIAL: the theorems decide the logic core of the handshake; memory safety and data-race freedom of the real " \
                           "object graph and wall-clock bounds are explored (ASan under DetSched, real-engine storms under ASan/TSan), not proved"
    ctx.extra["not_proved"] = [
        "use-after-free / data races of the real C++ object graph (model: touch-after-destroy is an explicit outcome, proved unreachable under the environment contract)",
        "'within a bounded time' is wall-clock: proved as step bounds (every parked call returns within 3 of its own steps), not as time",
        "UDP engine teardown (udp_engine.hpp _qClosed/_eventFd) is not modelled; the engine-queue model mirrors tcp_engine.hpp",
        "setReadMode(Async): between its step-1 section and the FlushGuard section the thread is inside the call but not counted; a destruction that "
        "completes in that window is outside the environment contract of the model (recorded as an observation)",
    ]
    ctx.assumptions += [
        "environment contract: the application does not BEGIN a synchronous call on a Transport whose destructor's wait has completed; stop() is not "
        "concurrent with another stop()/destruction (engine lifecycle contract in tcp_engine.hpp)",
        "a receiver parked on a session the engine will not close (unknown id) is released by the ALREADY-STOPPED / self-destruct paths' notify, and on the "
        "NORMAL path only by its own timeout (by design: performTeardown does not notify the receive CVs before engine->stop())",
    ]
    return ctx.finish(level="proof", rule="a case = one DetSched schedule of a 3-8 thread teardown program over the real Transport and a scripted engine (trace "
                      "inclusion) or one real-engine storm; distinct = distinct (program, choice list); non-trivial = at least 2 context switches between model steps")


def storm_report(ctx, tag, storms, out, rc, err, dist):
    for op, l in zip(storms, out):
        kind = op.split()[0]
        dist[kind + "-" + tag] = dist.get(kind + "-" + tag, 0) + 1
        ctx.count_case(tag + l, nontrivial=True)
        ctx.cov["traces_validated_against_impl"] += 1
        f = dict(kv.split("=") for kv in l.split() if "=" in kv)
        if f.get("stranded", "0") != "0":
            ctx.violation("property", "T4: real TcpEngine (%s build): connect() returned ok for an id that never got its onClose - a command was accepted "
                          "into the queue after the shutdown drain had taken the residual commands (`%s` -> %s)" % (tag, op, l),
                          {"ops": [op], "observed": [l], "note": "replay: feed the op line to the harness (real engine on loopback; the latch variant is deterministic)"},
                          found_input=True)
        elif kind == "latch" and (f.get("connectAccepted", "0") != "0" or f.get("sendAccepted", "0") != "0"):
            ctx.violation("property", "T4: real TcpEngine (%s build): an enqueue issued while the shutdown drain was reporting its residual commands was "
                          "accepted (%s)" % (tag, l), {"ops": [op], "observed": [l]}, found_input=True)
        elif f.get("bad", "0") != "0" or f.get("late", "0") != "0" or f.get("stuck", "0") != "0":
            ctx.violation("property", "T4/T5: real-engine storm (%s build): %s" % (tag, l), {"ops": [op], "observed": [l]}, found_input=True)
        if kind == "latch" and f.get("window", "1") != "1":
            ctx.notes.append("latch scenario did not reach its window (setup): %s" % l)
    if rc != 0 or len(out) < len(storms):
        why = "ThreadSanitizer: data race" if "ThreadSanitizer" in err else ("AddressSanitizer: " + err.split("ERROR: AddressSanitizer: ")[1].split()[0]) if "ERROR: AddressSanitizer: " in err else "rc=%s" % rc
        ctx.violation("property", "X: real-engine start/stop storm (%s build) aborted: %s" % (tag, why),
                      {"ops": storms, "observed": out, "stderr_tail": err[-2500:]}, found_input=True)


def load_corpus():
    d = os.path.join(VERIF, "corpus", "C05")
    out = []
    if os.path.isdir(d):
        for fn in sorted(os.listdir(d)):
            if fn.endswith(".json"):
                c = json.load(open(os.path.join(d, fn)))
                c.setdefault("cat", "corpus")
                c["corpus_file"] = fn
                out.append(c)
    return out
