"""C03 — Synchronous receive is a lossless ordered stream that drains before EOF (DESIGN §7 C03).

Model: lean/IoraModel/Model/SyncRecv.lean (one step = one syncMutex critical section of transport_impl.hpp).
Tie:   tools/tr_tsyncskel.py -> Gen/TsyncSkel.lean (lock/notify skeleton; the model is instantiated from it),
       harness/c03_syncrecv.cpp: (1) single-threaded lockstep over the scripted engine, (2) DetSched schedules of 2-4 thread
       programs whose recorded critical-section order is replayed by the Lean acceptor (trace inclusion).
       receiveSyncCancellable is a layer over the model (Model/SyncRecvW.lean: loop head + sub-calls; ops `recvc`/`rc:`/`x:`).
       Thorough tier: bounded-exhaustive schedules (every schedule with at most K preemptions of a few small programs, enumerated
       through DetSched's recorded alternatives) on top of the random ones.
Monitors look only at what the real class returned/delivered and at the bytes the generator fed in.
"In time": a Timeout answer before the requested time has passed (real time sequentially, virtual time under DetSched) or, in programs
with a single waiting thread, later than timeout + 5 ms of virtual time is a violation; timeouts up to milliseconds::max() are generated
(FC03b: the deadline arithmetic wrapped, UBSan abort / immediate Timeout).
T8 (no data callback for a session after its close CALLBACK - the `gclose` event the application sees, not the handler's internal
section) is monitored on every case, mode switches of the dead id included (FC02a: setReadMode(Sync) then setReadMode(Async) on a closed
tombstone flushed the tail through the callback; FC03c: the handler invoked the close callbacks BEFORE it marked the session closed, so a
setReadMode(Async) made while they ran still flushed; both modelled as repaired; ops `closew`, DetSched step `ioCloseCb`).
Extension round: token reset (`creset`/`xr:`, WStep.reset) so that calls after a cancel read PAST the point where the cancelled call
stopped; `recvcx` reaches the C03-d window (cancel, then data, inside one sub-interval) deterministically in the sequential lockstep."""
import json, os, re
from vlib.core import Ctx, hexs, unhex, ddmin, VERIF

ID = "C03"
MODULES = ["IoraModel.Props.C03"]
DETSCHED = os.path.join(VERIF, "harness", "detsched", "detsched.cpp")
ANCHOR_FILES = ["include/iora/network/transport_impl.hpp", "include/iora/network/transport.hpp", "include/iora/network/transport_types.hpp"]
OBLIGATIONS = [
    {"id": "C03_T1", "theorem": "Iora.C03.T1_stream", "kind": "proved",
     "statement": "every disciplined step sequence: out ++ inFlightFlush ++ buf ++ pendingCallback = accepted, and = arrived when no chunk was dropped"},
    {"id": "C03_T1_recv", "theorem": "Iora.C03.T1_out_prefix", "kind": "proved",
     "statement": "at every point of every run the bytes handed out are a prefix of the bytes that arrived (each once, in order, any caller buffer lengths)"},
    {"id": "C03_T2", "theorem": "Iora.C03.T2_drain_before_eof", "kind": "proved",
     "statement": "a receive answers PeerClosed only with an empty buffer, and then every accepted byte has been handed out (all arrived bytes when nothing was dropped)"},
    {"id": "C03_T3", "theorem": "Iora.C03.T3_flush_order", "kind": "proved",
     "statement": "whenever a live session is in Async mode nothing is buffered or in flight: the flush handed over every earlier byte before any later arrival"},
    {"id": "C03_T4", "theorem": "Iora.C03.T4_disabled_silent", "kind": "proved",
     "statement": "a chunk arriving in Disabled mode changes nothing and produces no output"},
    {"id": "C03_T5_sticky", "theorem": "Iora.C03.T5_overflow_sticky", "kind": "proved",
     "statement": "no step (of any sequence, disciplined or not) clears overflow while the buffer exists"},
    {"id": "C03_T5_reported", "theorem": "Iora.C03.T5_overflow_reported", "kind": "proved",
     "statement": "a receive entered on an overflowed, drained buffer answers BufferOverflow (before PeerClosed)"},
    {"id": "C03_T5_nogap", "theorem": "Iora.C03.T5_no_post_gap_bytes", "kind": "proved",
     "statement": "no chunk is ever appended to the sync buffer after a chunk was dropped (true of the repaired handler, F15)"},
    {"id": "C03_T5_gc", "theorem": "Iora.C03.T5_gap_always_reported", "kind": "proved",
     "statement": "every disciplined schedule, tombstone GC included (FC03d repaired), outside teardown: for a session one of whose chunks was dropped, either a receive HAS answered BufferOverflow (the event is in the run) or the overflowed buffer is still in the map (so the next drained receive answers BufferOverflow) - the overflow is never forgotten"},
    {"id": "C03_T5_gcgate", "theorem": "Iora.C03.T5_gc_keeps_unreported_overflow", "kind": "proved",
     "statement": "a buffer the close handler's GC pass may reclaim is closed, drained and not an overflowed buffer whose overflow no receive has answered yet"},
    {"id": "C03_T6", "theorem": "Iora.C03.T6_no_lost_wakeup", "kind": "proved",
     "statement": "a parked receive whose predicate (data/closed/overflow) holds has been notified, in every reachable state"},
    {"id": "C03_T7", "theorem": "Iora.C03.T7_late_receive", "kind": "proved",
     "statement": "without a tombstone GC pass, a receive entered after the close on a drained session answers PeerClosed at once"},
    {"id": "C03_T1_events", "theorem": "Iora.C03.T1_out_is_events", "kind": "proved",
     "statement": "the ghost field `out` is exactly the bytes of the emitted events (successful receives and callback deliveries of the session, in order), in every run"},
    {"id": "C03_T1_step_events", "theorem": "Iora.C03.T1_step_out_is_events", "kind": "proved",
     "statement": "every step, any state: out' = out ++ evBytes sid (the step's events)"},
    {"id": "C03_T1_stream_events", "theorem": "Iora.C03.T1_stream_events", "kind": "proved",
     "statement": "T1 stated over events only: evBytes(events) ++ inFlight ++ buffered ++ pending = accepted (= arrived when nothing was dropped)"},
    {"id": "C03_T2_nogap", "theorem": "Iora.C03.T2_peerClosed_means_everything", "kind": "proved",
     "statement": "outside teardown PeerClosed is never answered for a session one of whose chunks was dropped (overflow is reported instead): PeerClosed means out = arrived, no side condition"},
    {"id": "C03_T4_recv", "theorem": "Iora.C03.T4_receive_ignores_mode", "kind": "proved",
     "statement": "every reachable state: a receive entered on a session with buffered bytes returns them whatever the read mode (Disabled included)"},
    {"id": "C03_T4_flush", "theorem": "Iora.C03.T4_disabled_to_async_flushes", "kind": "proved",
     "statement": "setReadMode(Async) on a Disabled session takes the ordered-flush path; the mode does not become Async in its first critical section"},
    {"id": "C03_T5_wake", "theorem": "Iora.C03.T5_overflow_wakes_parked", "kind": "proved",
     "statement": "every reachable state: a parked receive whose buffer overflowed has been notified and its wake-up answers the buffered bytes, else BufferOverflow"},
    {"id": "C03_T8_close", "theorem": "Iora.C03.T8_close_forgets_mode", "kind": "proved",
     "statement": "every disciplined schedule: once the close of a session with no flush in progress has been processed the session is Quiet - a closed tombstone, no flush, NO readModes entry whatever was buffered, nothing pending for the callback"},
    {"id": "C03_T8_nomode", "theorem": "Iora.C03.T8_tombstone_gets_no_mode", "kind": "proved",
     "statement": "any state: setReadMode(sid, m), any m, on a session whose closed tombstone is still in the map is vacuous - it answers at once, delivers nothing and changes nothing (FC02a repaired): no mode can be registered again for a dead id while its tail is buffered"},
    {"id": "C03_T8", "theorem": "Iora.C03.T8_nothing_delivered_after_close", "kind": "proved",
     "statement": "every disciplined schedule: after the close of sid (no flush of sid in progress at that moment) NO later step hands bytes of sid to the data callback, WHATEVER mode switches follow - setReadMode(sid, Sync/Disabled) then Async on the dead id included (FC02a repaired); the buffered tail stays retrievable through receiveSync only (the one hypothesis shown necessary by an example)"},
    {"id": "C03_T8_step", "theorem": "Iora.C03.T8_quiet_step", "kind": "proved",
     "statement": "one step, any state: a Quiet session (closed; tombstone with no flush, or nothing buffered/held once the tombstone is gone) stays Quiet and the step - ANY disciplined step - delivers nothing of it"},
    {"id": "C03_T8_cb_mark", "theorem": "Iora.C03.T8_cb_after_mark", "kind": "proved",
     "statement": "any state, any step: the close callback of sid (global onClose + observers) is invoked by an ioCloseCb sid step only, and only while the close handler is past the syncMutex section that marked sid closed (closed flag / tombstone, readModes erased) - FC03c repaired order"},
    {"id": "C03_T8_cb", "theorem": "Iora.C03.T8_cb_nothing_delivered_after_close_callback", "kind": "proved",
     "statement": "every disciplined schedule, every step that invokes the close callback of sid: neither that step nor any later step hands bytes of sid to the data callback, whatever the application does from the callback / an observer / a thread synchronising with them - unless a setReadMode(sid, Async) flush was already in progress when the close was processed (closeGrace; shown necessary by an example)"},
    {"id": "C03_T8_cb_window", "theorem": "Iora.C03.T8_cb_no_window", "kind": "proved",
     "statement": "every reachable state in which the close handler has marked sid closed and not yet invoked the callbacks (no flush in progress at the mark): sid is already Quiet - there is no window before the callback either"},
    {"id": "C03_W4_core", "theorem": "Iora.C03.W4_callers_stream_is_core_stream", "kind": "proved",
     "statement": "ANY wrapper execution (any number of receiveSyncCancellable calls, plain receives, callback deliveries, cancels and token resets, disciplined or not): the bytes the callers are handed for a session - wrapper returns, plain returns, callback deliveries; sub-call results are internal - are exactly the session's out of the core run (no sub-call's bytes are swallowed, none invented)"},
    {"id": "C03_W4", "theorem": "Iora.C03.W4_wrapper_stream", "kind": "proved",
     "statement": "every disciplined wrapper execution with cancels/resets in between: callers' bytes ++ in-flight ++ buffered ++ pending = accepted (= arrived when nothing was dropped), and the callers' bytes are a prefix of the arrived bytes - nothing skipped, nothing twice"},
    {"id": "C03_W5", "theorem": "Iora.C03.W5_reset_rearms", "kind": "proved",
     "statement": "CancellationToken::reset() between two calls changes nothing but the token: the next wrapper call is admitted (no Cancelled at entry)"},
    {"id": "C03_W0", "theorem": "Iora.C03.W0_wrapper_is_core", "kind": "proved",
     "statement": "every execution using receiveSyncCancellable is a core execution (its base steps), disciplined if the wrapper run is: T1-T7 carry over"},
    {"id": "C03_W1_ret", "theorem": "Iora.C03.W1_subcall_result_is_returned", "kind": "proved",
     "statement": "whatever a sub-call of the wrapper answers other than Timeout (in particular ok bytes) is returned by the wrapper in the same step"},
    {"id": "C03_W1_src", "theorem": "Iora.C03.W1_return_is_subcall_result", "kind": "proved",
     "statement": "a wrapper return ok bytes is the result of a sub-call made in the same step"},
    {"id": "C03_W1_timeout", "theorem": "Iora.C03.W1_timeout_consumes_nothing", "kind": "proved",
     "statement": "a core step answering Timeout leaves the session's buffer and handed-out bytes untouched (looping over Timeouts loses and duplicates nothing)"},
    {"id": "C03_W2", "theorem": "Iora.C03.W2_cancelled_only_if_cancelled", "kind": "proved",
     "statement": "the wrapper answers Cancelled only if the token was cancelled or a sub-call answered Cancelled"},
    {"id": "C03_W2_pre", "theorem": "Iora.C03.W2_precancelled", "kind": "proved",
     "statement": "entered with a cancelled token the wrapper returns Cancelled without touching the core"},
    {"id": "C03_W3", "theorem": "Iora.C03.W3_timeout_only_at_deadline", "kind": "proved",
     "statement": "the wrapper answers Timeout only at a loop head that found the deadline passed, never by passing a sub-call's Timeout through"},
    {"id": "C03_pinned", "theorem": "Iora.C03.skeleton_pinned", "kind": "proved",
     "statement": "onData, receiveSync, setReadMode and step 6 of onClose have EXACTLY the skeleton the model was written against (list equality), receiveSyncCancellable is exactly the loop the wrapper model mirrors, receiveSync waits under the caller's lock until now()+timeout and answers Timeout exactly for an unsignalled wait, timeouts are saturated before clock arithmetic (FC03b), the close handler's mark section erases the readModes entry exactly once and unconditionally, setReadMode returns at once for a closed tombstone before it touches readModes (FC02a), the close handler marks the session closed BEFORE the global close callback and the observers, both invoked with no Transport mutex held (FC03c), and the FULL text (operators, operands) of the wait predicate, single-waiter guard, teardown guard, overflow test, GC threshold test, GC gate and both callback guards is the one the model mirrors (decide)"},
    {"id": "C03_skel", "theorem": "Iora.C03.skeleton_conforms", "kind": "proved",
     "statement": "the regenerated lock/notify skeleton has the facts the model is instantiated from: notify after write under the lock, mode read + append under one lock, callback unlocked, hasData computed from the buffer, drain keyed on the buffer, the flush switches to Async only in a section that found the buffer empty (decide)"},
]

HUGE = [9223372036854775807, 9223372036854775, 9223372036854, 4294967296, 3000]     # ms; milliseconds::max() = "no timeout"


TAG = re.compile(r"!(?:early|late|cancel-late)-after-\d+ms|!forced-timeout")


def strip_tag(x):
    """the harness tags a Timeout that came too early / too late (`err:Timeout!early-after-0ms`); the model never prints a tag"""
    return ";".join(e.split("!")[0] for e in x.split(";"))


def payload(sid, pos, n):
    """position-coded bytes: byte k of the session's arrival stream (Disabled arrivals included) is recognisable"""
    return bytes(((pos + i) * 131 + sid * 17 + 7) % 251 for i in range(n))


# ------------------------------------------------------------------ single-threaded cases
def gen_seq_case(rng, big):
    wild = rng.chance(1, 10)          # 1 case in 10 also breaks the environment contract (data/close after a close)
    maxbuf = rng.choice([0, 1, 2, 3, 4, 5, 6, 8, 10, 16, 16, 64, 64, 64, 1000, 1000, 1000] + ([65536, 70000, 1048576, 1048576] if big else []))
    gc = rng.choice([1024, 1024, 1024, 1024, 0, 1, 2])
    allow = 0 if rng.chance(1, 30) else 1
    sids = sorted(set(rng.range(1, 9) for _ in range(rng.choice([1, 1, 2, 3]))))
    ops = ["reset %d %d %d" % (maxbuf, gc, allow)]
    pos = {s: 0 for s in sids}
    dead = set()
    disciplined = True
    fence = False
    n = rng.range(4, 60 if not big else 25)
    pend = {s: 0 for s in sids}      # generator's guess of the buffered byte count (steers sizes to the interesting region only)
    ovf = set()
    gmode = {}
    cancelled = set()
    for s in sids:
        if rng.chance(4, 5):
            ops.append("mode %d s" % s)
            gmode[s] = "s"
    if rng.chance(1, 8) and allow and not big and not wild:
        # FC03d: an overflowed session closes and OTHER sessions' closes run GC passes before the reader comes back: the overflow must
        # still be reported (low GC thresholds; the reader has drained, partly drained or not drained the buffered bytes)
        s = sids[0]
        gc = rng.choice([0, 0, 1, 2])
        ops[0] = "reset %d %d %d" % (maxbuf, gc, allow)
        if gmode.get(s) != "s":
            ops.append("mode %d s" % s)
            gmode[s] = "s"
        fit = rng.range(0, min(maxbuf, 6))
        if fit:
            ops.append("data %d %s" % (s, hexs(payload(s, pos[s], fit))))
            pos[s] += fit
            pend[s] += fit
            if rng.chance(2, 3):
                ln = rng.choice([fit, fit, 70000, max(fit - 1, 1)])
                ops.append("recv %d %d 0" % (s, ln))
                pend[s] = max(0, pend[s] - ln)
        big_ln = maxbuf - pend[s] + rng.range(1, 3)
        ops.append("data %d %s" % (s, hexs(payload(s, pos[s], big_ln))))
        pos[s] += big_ln
        ovf.add(s)
        ops.append("close %d" % s)
        dead.add(s)
        gmode.pop(s, None)
        for k in range(rng.range(1, 4)):
            ops.append("close %d" % (20 + k))       # async-only sessions closing: each close runs a GC pass above the threshold
        for _ in range(rng.range(1, 3)):
            ops.append("recv %d %d 0" % (s, rng.choice([1, 70000])))
    for _ in range(n):
        s = rng.choice(sids)
        if s in ovf and rng.chance(2, 3):
            s = rng.choice(sids)
        k = rng.below(100)
        # rebalance (review F8): an overflowed buffer and a tombstone are absorbing states - do not spend most ops on them
        if k < 42 and s in ovf and rng.chance(3, 4):
            continue
        if 72 <= k < 90 and s in dead and rng.chance(3, 4):
            continue
        if k < 42:
            if s in dead and not wild:
                continue
            room = max(0, maxbuf - pend[s])
            if rng.chance(3, 4) and room >= 1:
                ln = rng.choice([1, 2, 3, rng.range(1, min(room, 12)), rng.range(1, room), room, max(room - 1, 1)])   # fits
            else:
                ln = rng.choice([room + 1, room + 2, maxbuf + 1, max(maxbuf, 1), rng.range(1, maxbuf + 2)])             # boundary / overflow
            if big and rng.chance(1, 4):
                ln = rng.choice([65535, 65536, 70000, max(maxbuf, 1), maxbuf + 1, max(room, 1)])
            if rng.chance(1, 14):
                ln = 0                     # zero-length chunk: legal input (UdpEngine delivers empty datagrams)
            ln = min(ln, 70001)
            if s in dead:
                disciplined = False
            ops.append("data %d %s" % (s, hexs(payload(s, pos[s], ln))))
            pos[s] += ln
            if pend[s] + ln > maxbuf:
                ovf.add(s)
            else:
                pend[s] += ln
        elif k < 72:
            ln = rng.choice([0, 1, 2, 3, 5, rng.range(0, 20), pend[s], pend[s] + 1, max(pend[s] - 1, 0), 70000])
            j = rng.below(20)
            if j < 3:
                # receiveSyncCancellable (timeout 0 = the loop is never entered; 5/120 ms = one / two sub-intervals)
                ops.append("recvc %d %d %d" % (s, ln, rng.choice([0, 5, 5, 120])))
                if s not in cancelled and ops[-1].split()[3] != "0":
                    pend[s] = max(0, pend[s] - ln)
            elif j == 3 and not cancelled.issuperset([s]):
                ops.append("cancel %d" % s)
                cancelled.add(s)
            elif j in (6, 7) and s in cancelled:
                # CancellationToken::reset(): later cancellable calls read PAST the point where the cancelled one stopped
                ops.append("creset %d" % s)
                cancelled.discard(s)
            elif j in (8, 9) and allow and gmode.get(s) == "s" and s not in dead and s not in ovf and not fence and maxbuf >= 1 \
                    and s not in cancelled and ln >= 1:
                # the C03-d window, deterministically: the wrapper's sub-call is parked, the token is cancelled, THEN the chunk arrives.
                # Against nearly-full buffers too: the receive first takes min(ln, buffered), then the chunk must fit into what is left -
                # one chunk in three is drawn around that boundary (fits exactly / one too many / far too many: dropped, overflow)
                left = max(0, pend[s] - ln) if pend[s] > 0 else 0
                room = max(0, maxbuf - left)
                if rng.chance(1, 3) or room < 1:
                    cl = rng.choice([max(room, 1), room + 1, room + 2, maxbuf + 1])
                else:
                    cl = rng.range(1, min(room, 8))
                ops.append("recvcx %d %d 2000 %s" % (s, ln, hexs(payload(s, pos[s], cl))))
                pos[s] += cl
                if left + cl > maxbuf:
                    ovf.add(s)
                    pend[s] = left
                else:
                    pend[s] = left + cl if pend[s] > 0 else max(0, cl - ln)
                cancelled.add(s)
                if rng.chance(3, 4):
                    ops.append("creset %d" % s)
                    cancelled.discard(s)
            elif j == 4 and allow and gmode.get(s) == "s" and s not in dead and s not in ovf and not fence and maxbuf - pend[s] >= 1 and ln >= 1:
                # a receive with a long / "infinite" timeout on a second thread; the chunk arrives once it is parked
                cl = rng.range(1, min(maxbuf - pend[s], 8))
                ops.append("recvlong %d %d %d %s" % (s, ln, rng.choice(HUGE), hexs(payload(s, pos[s], cl))))
                pos[s] += cl
                pend[s] = max(0, pend[s] + cl - ln)
            elif j == 5 and allow and gmode.get(s) == "s" and s not in dead and not fence:
                # huge timeout where the predicate surely holds (a byte has just arrived on a live Sync session: buffered or overflow):
                # must answer at once
                ops.append("data %d %s" % (s, hexs(payload(s, pos[s], 1))))
                pos[s] += 1
                if pend[s] + 1 > maxbuf:
                    ovf.add(s)
                else:
                    pend[s] += 1
                ops.append("recv %d %d %d" % (s, ln, rng.choice(HUGE[:4])))
                pend[s] = max(0, pend[s] - ln)
            else:
                ops.append("recv %d %d %d" % (s, ln, rng.choice([0, 0, 0, 1])))
                pend[s] = max(0, pend[s] - ln)
        elif k < 90:
            m = rng.choice(["a", "s", "s", "s", "d"])
            ops.append("mode %d %s" % (s, m))
            gmode[s] = m
            if m == "a":
                pend[s] = 0
        elif k < 96:
            if s in dead and not wild:
                continue
            if s in dead:
                disciplined = False
            if rng.chance(1, 3):
                # FC03c: an application thread switches the mode while the close callbacks run (close observer -> thread -> setReadMode)
                ops.append("closew %d %s" % (s, rng.choice(["a", "a", "a", "s", "d"])))
            else:
                ops.append("close %d" % s)
            dead.add(s)
            gmode.pop(s, None)
            if rng.chance(1, 3):
                # FC02a: put the dead id back into Sync/Disabled, then ask for Async (must not flush the tail through the callback)
                ops.append("mode %d %s" % (s, rng.choice(["s", "s", "d"])))
                if rng.chance(1, 3):
                    ops.append("recv %d %d 0" % (s, rng.choice([1, 2, 70000])))
                ops.append("mode %d a" % s)
        elif k < 98 and rng.chance(1, 4):
            ops.append("fence %d" % rng.below(2))
            fence = True
    # final drain so that "lossless" is observable
    for s in sids:
        for _ in range(pos[s] // 80000 + 2):
            ops.append("recv %d 80000 0" % s)
    return {"cat": "seq" if disciplined else "seq-wild", "ops": ops, "maxbuf": maxbuf, "gc": int(ops[0].split()[2]), "disciplined": disciplined, "fence": fence, "sids": sids}


def seq_monitor(c, impl):
    """Property monitors over the implementation's answers only. Returns a list of failure strings."""
    bad = []
    if not c.get("disciplined", True):
        return [("X: crash %s" % l) for l in impl if l.startswith("crash:") or l.startswith("throw")][:1]
    maxbuf = c["maxbuf"]
    mode = {}
    arrived = {}
    out = {}
    dead = set()
    eof = set()
    ovf_seen = set()
    ovf_expected = set()
    skip = set()
    fence = False
    cancelled = set()
    gclosed = set()       # sids whose global close callback has been invoked (the close the APPLICATION sees)
    for op, l in zip(c["ops"], impl):
        t = op.split()
        if t[0] == "recvlong":
            # the chunk is delivered while the receive is parked (or after it returned): it has arrived when the answer is looked at
            pass
        if l.startswith("crash:") or l.startswith("throw"):
            bad.append("X: the sync layer crashes/throws: %s -> %s" % (op[:60], l[:80]))
            break
        if t[0] == "reset":
            continue
        if t[0] == "fence":
            fence = True
            continue
        if t[0] == "cancel":
            cancelled.add(int(t[1]))
            continue
        if t[0] == "creset":
            cancelled.discard(int(t[1]))
            continue
        sid = int(t[1])
        arrived.setdefault(sid, bytearray())
        out.setdefault(sid, bytearray())
        head, _, state = l.partition(" | ")
        st = dict(kv.split("=") for kv in state.split() if "=" in kv)
        evs = []
        for tok in head.split():
            for e in tok.split(";"):
                if e.startswith("gclose:"):
                    gclosed.add(int(e.split(":")[1]))
                if e.startswith("cb:"):
                    _, s2, hx = e.split(":")
                    out.setdefault(int(s2), bytearray()).extend(unhex(hx))
                    if int(s2) in dead or int(s2) in gclosed:
                        bad.append("T8: %d byte(s) of session %d were handed to the data callback by `%s` AFTER the session's close callback "
                                   "had been invoked (a closed session has no read mode and can get none: no mode switch made from the close "
                                   "callback on may flush; the buffered tail is for receiveSync only)" % (len(hx) // 2, int(s2), op[:40]))
        if t[0] == "data":
            chunk = unhex(t[2])
            m = mode.get(sid, "a")
            if m != "d":
                if m == "s" and len(arrived[sid]) - len(out[sid]) + len(chunk) > maxbuf and sid not in ovf_expected and not fence:
                    ovf_expected.add(sid)
                arrived[sid].extend(chunk)
        elif t[0] in ("recv", "recvc", "recvlong", "recvcx"):
            r = head.split()[0]
            if "!early" in r:
                bad.append("T6/in-time: `%s` answered %s although the requested timeout had not passed" % (op[:60], r))
            elif "!late" in r:
                bad.append("T6/in-time: `%s` answered %s, more than 1.5 s after its timeout" % (op[:60], r))
            r = r.split("!")[0]
            if t[0] in ("recvlong", "recvcx"):
                # the op CARRIES an arrival: the harness injects the chunk once the receive is parked or has returned. A receive that
                # finds bytes buffered returns them at once (before the chunk); one that finds nothing parks and the chunk arrives first.
                # The chunk is accounted for exactly like a `data` op at that point - a chunk that does not fit is DROPPED and the
                # overflow is expected from then on (thorough seed 11: 4 of 5 bytes buffered, recvcx reads 1, its 3-byte chunk overflows).
                chunk = unhex(t[4])
                m = mode.get(sid, "a")
                if m != "d":
                    pre = len(arrived[sid]) - len(out[sid])
                    took = len(unhex(r[3:])) if (r.startswith("ok:") and pre > 0) else 0
                    if m == "s" and pre - took + len(chunk) > maxbuf and sid not in ovf_expected and not fence:
                        ovf_expected.add(sid)
                    arrived[sid].extend(chunk)
            if t[0] == "recvcx":
                if sid in cancelled and r != "err:Cancelled":
                    bad.append("W2: receiveSyncCancellable entered with a cancelled token answered %s" % r)
                cancelled.add(sid)      # the token is cancelled while the call is parked: ok bytes and Cancelled are both legitimate answers
            elif t[0] == "recvc":
                if sid in cancelled and r != "err:Cancelled":
                    bad.append("W2: receiveSyncCancellable entered with a cancelled token answered %s" % r)
                if r == "err:Cancelled" and sid not in cancelled:
                    bad.append("W2: receiveSyncCancellable answered Cancelled although its token was never cancelled")
            elif r == "err:Cancelled":
                bad.append("T1: a single-threaded receiveSync answered Cancelled (no other waiter, no flush)")
            if r.startswith("ok:"):
                got = unhex(r[3:])
                if len(got) > int(t[2]):
                    bad.append("T1: receive returned %d bytes into a %d-byte buffer" % (len(got), int(t[2])))
                out[sid].extend(got)
                if sid in ovf_seen and not fence and sid not in skip and c["gc"] >= 16:
                    bad.append("T5: a receive returned data after BufferOverflow had been reported (not sticky): %s" % op)
            elif r == "err:BufferOverflow":
                ovf_seen.add(sid)
                if sid not in ovf_expected:
                    bad.append("T5: BufferOverflow reported although the buffered bytes never exceeded maxSyncReceiveBuffer=%d" % maxbuf)
            elif r == "err:PeerClosed":
                if sid not in dead:
                    bad.append("T2: PeerClosed reported for a session the engine never closed")
                if not fence and sid not in ovf_expected and bytes(out[sid]) != bytes(arrived[sid]):
                    bad.append("T2: PeerClosed reported before every byte that arrived was returned: returned %d of %d bytes"
                               % (len(out[sid]), len(arrived[sid])))
                eof.add(sid)
            elif r == "err:ShuttingDown":
                if not fence:
                    bad.append("T1: receive answered ShuttingDown on a live session although no teardown began (after `%s`)" % op[:40])
            elif r == "err:Timeout" and t[0] == "recvc" and t[3] == "0":
                pass          # receiveSyncCancellable with timeout 0 never enters its loop: Timeout without looking at the buffer
            elif r == "err:Timeout":
                if (sid in ovf_expected and sid not in ovf_seen and not fence and sid not in skip and st.get("b", "-") in ("-", "0")):
                    bad.append("T5: a chunk of session %d was dropped by an overflow, the buffered bytes are drained, and the receive `%s` "
                               "answered Timeout: the overflow was never reported (BufferOverflow must come before anything else; a tombstone GC "
                               "pass must not reclaim an overflowed buffer nobody has been told about)" % (sid, op[:40]))
                if sid in ovf_seen and not fence and sid not in skip and c["gc"] >= 16:   # once REPORTED, a GC pass may reclaim a closed, drained, overflowed tombstone
                    bad.append("T5: a receive after BufferOverflow answered Timeout (overflow not sticky)")
                if (sid in dead and sid not in eof and sid not in ovf_expected and not fence and c["gc"] >= 16
                        and bytes(out[sid]) == bytes(arrived[sid])):
                    bad.append("T7: a receive entered after the close on a drained session blocked to its timeout instead of PeerClosed")
                if (mode.get(sid, "a") == "s" and not fence and sid not in ovf_expected and sid not in dead
                        and len(arrived[sid]) > len(out[sid])):
                    bad.append("T1: receive timed out although %d arrived bytes have not been returned" % (len(arrived[sid]) - len(out[sid])))
        elif t[0] == "mode":
            if head.split()[0] == "ret:1":
                if sid not in dead:          # setReadMode on a closed id is vacuous (FC02a): it answers true and registers nothing
                    mode[sid] = t[2]
                if t[2] == "a" and sid in ovf_expected:
                    # setReadMode(Async) after an overflow resumes callback delivery past the gap; the overflow is reported to
                    # synchronous readers only (recorded as an assumption) - the stream monitors stop here for this session
                    skip.add(sid)
        elif t[0] in ("close", "closew"):
            dead.add(sid)
            mode.pop(sid, None)
        # T1/T3/T4/T5: what has been handed out is always a prefix of what arrived (never post-gap, duplicated, reordered or Disabled bytes)
        for s2 in out:
            if s2 in skip:
                continue
            a = bytes(arrived.get(s2, b""))
            o = bytes(out[s2])
            if a[:len(o)] != o:
                k = next((i for i in range(min(len(a), len(o))) if a[i] != o[i]), min(len(a), len(o)))
                bad.append("T1: bytes handed out for session %d are not a prefix of the bytes that arrived (first difference at offset %d; "
                           "handed out %d, arrived %d) after `%s`" % (s2, k, len(o), len(a), op[:50]))
                return bad
    if not fence:
        for s2 in arrived:
            if s2 in ovf_expected:
                continue
            if bytes(out[s2]) != bytes(arrived[s2]):
                bad.append("T1: after the final drain session %d returned %d of %d arrived bytes and no overflow was reported"
                           % (s2, len(out[s2]), len(arrived[s2])))
    return bad


# ------------------------------------------------------------------ DetSched programs
def gen_sched_case(rng, idx):
    kind = rng.choice(["parked", "midflush", "mixed", "mixed", "two-sessions", "two-sessions", "close-race", "fence", "fence", "flush-window",
                       "flush-window", "flush-window", "wrapper", "wrapper", "wrapper", "long-timeout", "close-window", "close-window",
                       "second-receiver"])
    if kind == "close-window":
        # FC03c: the close handler racing an application thread that switches the session to Async (and back): whatever the schedule,
        # nothing may reach the data callback once the close callback has been invoked (a flush already in progress excepted)
        n = rng.range(1, 3)
        io = ["d:1:%s" % hexs(payload(1, 2 * k, 2)) for k in range(n)] + ["y"] * rng.range(0, 2) + ["c:1"]
        app = ["m:1:s"] + ["y"] * rng.range(0, 4) + ["m:1:a"]
        if rng.chance(1, 2):
            app += ["m:1:%s" % rng.choice(["s", "d"]), "m:1:a"]
        app += ["r:1:100:5", "r:1:100:5"]
        return {"cat": "sched-close-window", "seed": rng.below(2 ** 31), "timeoutOneIn": 0, "spuriousOneIn": 0, "maxbuf": 1000, "io": io,
                "apps": [app], "sids": [1], "total": {1: 2 * n}, "uses_disabled": "m:1:d" in app, "overflow_possible": False, "fence": False,
                "ends_async": False, "timed_threads": 1}
    if kind == "second-receiver":
        # two application threads receiving on ONE session: outside the property's quantifier (single-waiter contract: the second one is
        # answered Cancelled) - monitored only for what holds anyway (prefix, each byte once) and replayed by the acceptor
        n = rng.range(1, 4)
        io = []
        for k in range(n):
            io += ["y"] * rng.range(0, 2) + ["d:1:%s" % hexs(payload(1, 2 * k, 2))]
        apps = [["m:1:s"] + ["r:1:%d:%d" % (rng.choice([1, 2, 100]), rng.choice([5, 50])) for _ in range(rng.range(1, 3))],
                ["y"] * rng.range(0, 3) + ["r:1:%d:%d" % (rng.choice([1, 2, 100]), rng.choice([5, 50])) for _ in range(rng.range(1, 3))]]
        return {"cat": "sched-second-receiver", "seed": rng.below(2 ** 31), "timeoutOneIn": rng.choice([0, 4]), "spuriousOneIn": 0, "maxbuf": 1000,
                "io": io, "apps": apps, "sids": [1], "total": {1: 2 * n}, "uses_disabled": False, "overflow_possible": False, "fence": False,
                "ends_async": False, "timed_threads": 2, "second_receiver": True}
    if kind == "wrapper":
        # receiveSyncCancellable: sub-calls timing out, arrivals between sub-calls, a cancel at every point of the loop
        n = rng.range(1, 4)
        io = []
        for k in range(n):
            io += ["y"] * rng.range(0, 3)
            io.append("d:1:%s" % hexs(payload(1, 2 * k, 2)))
        closes = rng.chance(1, 3)
        if closes:
            io.append("c:1")
        app = ["m:1:s"]
        canc = rng.chance(2, 3)
        for i in range(rng.range(1, 4)):
            if i and canc and rng.chance(2, 3):
                app.append("xr:1")        # the calling thread re-arms its token between two calls: the next call reads PAST a cancelled one
            app.append("rc:1:%d:%d" % (rng.choice([1, 2, 3, 100]), rng.choice([0, 50, 120, 250, 350])))
        # the program ends by draining: plain receives to EOF when the session closes, the Async switch otherwise - either way every
        # byte that arrived must have been handed out when it is over
        apps = [app + (["r:1:100:50"] * (n + 2) if closes else ["m:1:a"])]
        if canc:
            apps.append(["y"] * rng.range(0, 6) + ["x:1"])
        return {"cat": "sched-wrapper", "seed": rng.below(2 ** 31), "timeoutOneIn": rng.choice([0, 0, 4]), "spuriousOneIn": rng.choice([0, 0, 6]),
                "maxbuf": 1000, "io": io, "apps": apps, "sids": [1], "total": {1: 2 * n}, "uses_disabled": False, "overflow_possible": False,
                "fence": False, "ends_async": True, "timed_threads": 1}
    if kind == "long-timeout":
        # a receive with a timeout up to milliseconds::max() parks until the data (or the close) arrives: never an early Timeout
        io = ["y"] * rng.range(0, 3) + ["d:1:%s" % hexs(payload(1, 0, 3))] + ["y"] * rng.range(0, 2) + ["c:1"]
        # only the FIRST call may be the cancellable one: once EOF has been reported a wrapper with a 100-year deadline would poll for ever
        app = ["m:1:s", "%s:1:%d:%d" % (rng.choice(["r", "r", "rc"]), rng.choice([1, 3, 100]), rng.choice(HUGE[:4])),
               "r:1:100:%d" % rng.choice(HUGE[:4]), "r:1:100:%d" % rng.choice(HUGE[:4])]
        return {"cat": "sched-long-timeout", "seed": rng.below(2 ** 31), "timeoutOneIn": 0, "spuriousOneIn": rng.choice([0, 6]),
                "maxbuf": 1000, "io": io, "apps": [app], "sids": [1], "total": {1: 3}, "uses_disabled": False, "overflow_possible": False,
                "fence": False, "ends_async": False, "timed_threads": 1}
    if kind == "flush-window":
        # arrivals racing the window between the flusher's unlock and the end of its data callback (the harness callback yields
        # at entry and exit): every chunk must stay behind the flushed bytes
        n = rng.range(4, 8)
        io = []
        for k in range(n):
            if rng.chance(1, 3):
                io.append("y")
            io.append("d:1:%s" % hexs(payload(1, k, 1)))
        app = ["m:1:s"] + ["y"] * rng.range(0, 2) + ["m:1:a"]
        return {"cat": "sched-flush-window", "seed": rng.below(2 ** 31), "timeoutOneIn": 0, "spuriousOneIn": 0, "maxbuf": 1000, "io": io,
                "apps": [app], "sids": [1], "total": {1: n}, "uses_disabled": False, "overflow_possible": False, "fence": False, "ends_async": True,
                "timed_threads": 0}
    maxbuf = rng.choice([4, 8, 16, 64, 1000])
    gc = rng.choice([0, 0, 1, 1024]) if kind == "two-sessions" else 1024
    nsess = 2 if kind == "two-sessions" else 1
    sids = [1, 2][:nsess]
    io = []
    apps = []
    total = {}
    uses_disabled = False
    for s in sids:
        pos = 0
        nchunks = rng.range(1, 5)
        for _ in range(nchunks):
            ln = rng.choice([1, 2, 3, 4, rng.range(1, 6)])
            if rng.chance(1, 8):
                ln = 0                     # zero-length chunk (legal)
            io.append("d:%d:%s" % (s, hexs(payload(s, pos, ln))))
            pos += ln
        total[s] = pos
    if kind in ("close-race", "mixed", "parked", "two-sessions") and rng.chance(2, 3):
        for s in sids:
            if rng.chance(2, 3):
                io.append("c:%d" % s)
    if nsess == 2:
        # interleave the two sessions' arrivals, keeping each session's own order (and its close last)
        per = {s: [o for o in io if o.split(":")[1] == str(s)] for s in sids}
        io = []
        while any(per.values()):
            s = rng.choice([s for s in sids if per[s]])
            io.append(per[s].pop(0))
    for s in sids:
        a = ["m:%d:s" % s]
        if kind == "parked":
            for _ in range(rng.range(1, 4)):
                a.append("r:%d:%d:%d" % (s, rng.choice([1, 2, 3, 8, 100]), rng.choice([5, 50])))
        elif kind == "midflush":
            if rng.chance(1, 2):
                a.append("r:%d:%d:%d" % (s, rng.choice([1, 2, 100]), 5))
            a.append("m:%d:a" % s)
        elif kind == "fence" and rng.chance(1, 2):
            # a flush racing the fence: the flush loop bails out (returns false) when teardown begins between two of its sections
            a += ["y"] * rng.range(0, 3)
            a.append("m:%d:a" % s)
        elif kind == "fence":
            a.append("r:%d:%d:%d" % (s, rng.choice([1, 100]), 50))
            a.append("r:%d:%d:%d" % (s, rng.choice([1, 100]), 50))
        else:
            for _ in range(rng.range(1, 5)):
                k = rng.below(10)
                if k < 5:
                    a.append("r:%d:%d:%d" % (s, rng.choice([0, 1, 2, 3, 100]), rng.choice([0, 5, 50])))
                elif k < 7:
                    a.append("m:%d:a" % s)
                elif k < 9:
                    a.append("m:%d:s" % s)
                else:
                    a.append("m:%d:d" % s)
                    a.append("m:%d:%s" % (s, rng.choice(["s", "a"])))
                    uses_disabled = True
        if kind != "fence":
            a.append("m:%d:a" % s)       # ends in Async: everything that arrived must have been handed out when the program ends
        apps.append(a)
    extra = []
    if kind == "fence":
        extra = [["y", "f:%d" % rng.below(2)]]
    overflow_possible = any(total[s] > maxbuf for s in sids)
    return {"cat": "sched-" + kind, "seed": rng.below(2 ** 31), "timeoutOneIn": rng.choice([0, 4, 8]), "spuriousOneIn": rng.choice([0, 0, 6]),
            "maxbuf": maxbuf, "gc": gc, "io": io, "apps": apps + extra, "sids": sids, "total": total, "uses_disabled": uses_disabled,
            "overflow_possible": overflow_possible, "fence": kind == "fence", "ends_async": kind != "fence", "timed_threads": nsess}


def sched_line(c, choices=None):
    if "explore" in c and choices is None:
        first = "e:" + ",".join(map(str, c["explore"]))
    else:
        first = ("c:" + ",".join(map(str, choices))) if choices is not None else ("c:" + c["choices"] if "choices" in c else str(c["seed"]))
    parts = ["sched", first, str(c["timeoutOneIn"]), str(c["spuriousOneIn"]), str(c["maxbuf"]), str(c.get("gc", 1024)), "io"] + c["io"]
    for a in c["apps"]:
        parts += ["app"] + a
    return " ".join(parts)


def parse_sched(line):
    """status | steps | choices | final states | report | [alternatives]"""
    if line.startswith("crash:") or " | " not in line:
        return None
    parts = line.split(" | ")
    status = parts[0].strip()
    steps = []
    body = parts[1].strip() if len(parts) > 1 else ""
    if status.endswith("|"):
        status = status[:-1].strip()
    for tok in body.split():
        if "=>" not in tok:
            continue
        lhs, obs = tok.split("=>", 1)
        f = lhs.split(",")
        steps.append({"tid": int(f[0]), "step": " ".join(f[1:]), "obs": obs})
    final = {}
    if len(parts) > 3 and parts[3].strip() not in ("-", ""):
        for x in parts[3].strip().split(";"):
            sid, _, st = x.partition(":")
            final[int(sid)] = st.replace(",", " ")
    alts = {}
    if len(parts) > 5 and parts[5].strip() not in ("-", ""):
        for x in parts[5].strip().split(","):
            i, _, a = x.partition(":")
            alts[int(i)] = [int(y) for y in a.split(".")]
    return {"status": status.split()[0], "steps": steps, "choices": parts[2].strip() if len(parts) > 2 else "", "final": final,
            "report": parts[4] if len(parts) > 4 else "", "alts": alts}


def sched_monitor(c, res):
    bad = []
    if res is None:
        return ["X: the harness produced no trace"]
    if res["status"] != "ok":
        if res["status"] == "diverged" and "choices" in c:
            return []
        return ["T6: not every call returns under this schedule (%s): %s" % (res["status"], res["report"][:300])]
    arrived = {s: bytearray() for s in c["sids"]}
    out = {s: bytearray() for s in c["sids"]}
    closed = set()           # the close handler has marked the session (ioClose)
    closed_cb = set()        # the global close callback has been invoked (ioCloseCb): the close the APPLICATION sees
    eof = set()
    cancelled = set()
    wcall_cancelled = {}     # sid -> the token was already cancelled when the running wrapper call was entered
    flush_on = {}            # sid -> a setReadMode(sid, Async) flush is in progress (began, has not returned)
    grace = set()            # sids whose flush was in progress when their close was processed: that flush goes on delivering
    for st in res["steps"]:
        f = st["step"].split()
        if f[0] == "ioData":
            arrived[int(f[1])].extend(unhex(f[2]))
        elif f[0] == "ioClose":
            closed.add(int(f[1]))
            if flush_on.get(int(f[1])) and int(f[1]) not in closed_cb:
                grace.add(int(f[1]))
        elif f[0] == "ioCloseCb":
            if flush_on.get(int(f[1])) and int(f[1]) not in closed:
                grace.add(int(f[1]))      # (unrepaired order) a flush already in progress when the callback is invoked
            closed_cb.add(int(f[1]))
            if int(f[1]) not in closed:
                pass                      # the callback before the mark: the T8 monitor below decides (FC03c)
        elif f[0] == "reset":
            cancelled.discard(int(f[1]))
        elif f[0] == "setMode":
            sidm = int(f[1])
            if "modeRet:" not in st["obs"]:
                flush_on[sidm] = f[2] == "a"          # the first critical section did not return: the flush path was taken
        elif f[0] == "cancel":
            cancelled.add(int(f[1]))
        elif f[0] == "wCall":
            wcall_cancelled[int(f[1])] = int(f[1]) in cancelled
        elif f[0] == "wLoop" and f[2] == "0" and int(f[1]) in cancelled and "wrapRet:" not in st["obs"]:
            # the loop head runs in the scheduling slice that follows the previous sub-call's unlock; the cancel's store to the token
            # happened in an earlier slice: this head must have seen it
            bad.append("W2/cancel: session %d's token was cancelled before this loop head of receiveSyncCancellable, which nevertheless "
                       "started another sub-call (a cancel must be honoured within one sub-interval)" % int(f[1]))
        for e in st["obs"].split(";"):
            if e.startswith("modeRet:"):
                sidm = int(e.split(":")[1])
                if flush_on.get(sidm) and f[0] == "flushStep":
                    flush_on[sidm] = False
                    grace.discard(sidm)
            if e.startswith("cb:"):
                _, s2, hx = e.split(":")
                out[int(s2)].extend(unhex(hx))
                if (int(s2) in closed or int(s2) in closed_cb) and int(s2) not in grace:
                    bad.append("T8: %d byte(s) of session %d were handed to the data callback (step `%s`) AFTER the session's close %s "
                               "and no flush was in progress at the close" % (len(hx) // 2, int(s2), st["step"],
                               "callback had been invoked" if int(s2) in closed_cb else "had been processed"))
            elif e.startswith("recvRet:") or e.startswith("wrapRet:"):
                wrapped = e.startswith("wrapRet:")
                if "!cancel-late" in e and c.get("timed_threads", 2) <= 1:
                    bad.append("W2/cancel latency: %s - the token had been cancelled more than one sub-interval (100 ms) + 5 ms of virtual time "
                               "before receiveSyncCancellable returned" % e)
                if "!early" in e:
                    bad.append("T6/in-time: %s - Timeout although the requested time had not passed (virtual time)" % e)
                elif "!late" in e and c.get("timed_threads", 2) <= 1:
                    bad.append("T6/in-time: %s - Timeout later than the requested time + 5 ms of virtual time (single waiting thread)" % e)
                forced = "!forced-timeout" in e
                e = e.split("!")[0]
                p = e.split(":")
                s2 = int(p[1])
                if forced and not c["fence"] and not (p[2] == "err" and p[3] in ("Timeout", "ShuttingDown")):
                    # DetSched fired this sleeper's time-out because NO thread could run, so nothing changed between the time-out and
                    # the re-acquisition: the predicate already held while the receiver slept un-notified
                    bad.append("T6: the receive of session %d answered %s but was woken only by a forced time-out (no thread could run): the "
                               "event that made its predicate true did not notify it (lost notification)" % (s2, ":".join(p[2:])[:40]))
                if wrapped:
                    if wcall_cancelled.get(s2) and not (p[2] == "err" and p[3] == "Cancelled"):
                        bad.append("W2: receiveSyncCancellable entered with a cancelled token answered %s" % ":".join(p[2:]))
                    if p[2] == "err" and p[3] == "Cancelled" and s2 not in cancelled:
                        bad.append("W2: receiveSyncCancellable answered Cancelled although its token was never cancelled")
                elif p[2] == "err" and p[3] == "Cancelled" and not c.get("second_receiver"):
                    bad.append("T1: receiveSync answered Cancelled although no other receive or flush of session %d was in progress" % s2)
                if p[2] == "ok":
                    out[s2].extend(unhex(p[3]))
                elif p[3] == "ShuttingDown" and not c["fence"]:
                    bad.append("T1: receive answered ShuttingDown on a live session although no teardown began")
                elif p[3] == "PeerClosed":
                    eof.add(s2)
                    if s2 not in closed:
                        bad.append("T2: PeerClosed reported before the engine closed session %d" % s2)
                    if not c["uses_disabled"] and not c["overflow_possible"] and not c["fence"] and bytes(out[s2]) != bytes(arrived[s2]):
                        bad.append("T2: PeerClosed reported before every byte that arrived was returned (%d of %d)" % (len(out[s2]), len(arrived[s2])))
        for s2 in c["sids"]:
            a, o = bytes(arrived[s2]), bytes(out[s2])
            if c["uses_disabled"] or c["overflow_possible"]:
                # weaker: in order, each byte at most once
                i = 0
                for b in o:
                    while i < len(a) and a[i] != b:
                        i += 1
                    if i >= len(a):
                        bad.append("T1: bytes handed out for session %d are not an in-order sub-sequence of the bytes that arrived" % s2)
                        return bad
                    i += 1
            elif a[:len(o)] != o:
                bad.append("T1: bytes handed out for session %d are not a prefix of the bytes that arrived (handed out %s, arrived %s)"
                           % (s2, o.hex()[:60], a.hex()[:60]))
                return bad
    if c["ends_async"] and not c["uses_disabled"] and not c["overflow_possible"]:
        for s2 in c["sids"]:
            # every arrival that happened is delivered once the program (which ends in Async mode, or after the close) is over
            if s2 in closed and s2 not in eof:
                continue              # closed and not drained to EOF by this program: the tail is still in the tombstone
            if bytes(out[s2]) != bytes(arrived[s2]):
                bad.append("T1/T3: the program ended in Async mode but session %d got %d of %d arrived bytes" % (s2, len(out[s2]), len(arrived[s2])))
    return bad


def run_sched(ctx, hb, cases, dist, keep=False):
    """Runs the programs on the real class, judges them, replays every trace in the Lean acceptor. Returns the parsed results (keep=True)."""
    lines = [sched_line(c) for c in cases]
    outs = []
    k = 0
    while k < len(lines):
        out, rc, err = ctx.run_lines([hb], lines[k:], timeout=1200)
        outs += out[:len(lines) - k]
        k = len(outs)
        if k < len(lines):
            outs.append("crash:rc=%s %s" % (rc, err[-400:].replace("\n", " ")))
            k += 1
    model_lines = []
    spans = []
    parsed = []
    for c, l in zip(cases, outs):
        res = parse_sched(l)
        parsed.append(res)
        a = len(model_lines)
        model_lines.append("reset %d %d 1" % (c["maxbuf"], c.get("gc", 1024)))
        nst = 0
        if res:
            for st in res["steps"]:
                model_lines.append("st " + st["step"])
            nst = len(res["steps"])
            for sid in sorted(res["final"]):
                model_lines.append("state %d" % sid)
        spans.append((a, nst, len(model_lines)))
    mout, mrc, merr = ctx.run_lines(ctx.model_argv("syncrecv"), model_lines, timeout=1200)
    if mrc != 0 or len(mout) != len(model_lines):
        raise RuntimeError("model driver failed on schedule replay rc=%s lines=%d/%d %s" % (mrc, len(mout), len(model_lines), merr[-300:]))
    n_mis = 0
    for c, l, res, (a, nst, b) in zip(cases, outs, parsed, spans):
        dist[c["cat"]] = dist.get(c["cat"], 0) + 1
        ctx.cov["traces_validated_against_impl"] += 1
        if l.startswith("crash:"):
            ctx.violation("property", "X: the real Transport crashes under a DetSched schedule: %s" % l[:300],
                          {"ops": [sched_line(c)], "observed": [l]}, found_input=True)
            continue
        nsw = 0
        if res:
            dist["sched-status:" + res["status"]] = dist.get("sched-status:" + res["status"], 0) + 1
            nsw = sum(1 for x, y in zip(res["steps"], res["steps"][1:]) if x["tid"] != y["tid"])
            canc, flushing_sid, fenced, closedm, eofs = set(), set(), False, set(), set()
            for st in res["steps"]:
                f = st["step"].split()
                dist["step:" + f[0]] = dist.get("step:" + f[0], 0) + 1
                # branch counters measured on the recorded trace of the REAL class (review F4/F8)
                if f[0] == "cancel":
                    canc.add(f[1])
                elif f[0] == "reset":
                    canc.discard(f[1])
                elif f[0] == "fence":
                    fenced = True
                elif f[0] == "ioClose":
                    closedm.add(f[1])
                elif f[0] == "setMode" and f[2] == "a" and "modeRet:" not in st["obs"]:
                    flushing_sid.add(f[1])
                elif f[0] == "ioData" and f[1] in flushing_sid:
                    dist["branch:mid-flush-arrival"] = dist.get("branch:mid-flush-arrival", 0) + 1
                for e in st["obs"].split(";"):
                    if e.startswith("modeRet:") and f[0] == "flushStep":
                        flushing_sid.discard(f[1])
                        if e.endswith(":0") and fenced:
                            dist["branch:flush-teardown-bail"] = dist.get("branch:flush-teardown-bail", 0) + 1
                    if e.startswith("cb:") and f[0] == "flushStep":
                        dist["branch:flush-delivery"] = dist.get("branch:flush-delivery", 0) + 1
                    if e.startswith("recvRet:"):
                        r = e.split("!")[0].split(":", 2)[2]
                        r = "ok" if r.startswith("ok:") else r
                        dist["recvRet:" + r] = dist.get("recvRet:" + r, 0) + 1
                        if r == "err:PeerClosed":
                            eofs.add(f[1])
                    if e.startswith("wrapRet:"):
                        r = e.split("!")[0].split(":", 2)[2]
                        r = "ok" if r.startswith("ok:") else r
                        dist["wrapRet:" + r] = dist.get("wrapRet:" + r, 0) + 1
                        if r == "err:PeerClosed":
                            eofs.add(f[1])
                        if r == "ok" and f[1] in canc:
                            dist["branch:C03-d-window(ok-returned-with-token-cancelled)"] = dist.get("branch:C03-d-window(ok-returned-with-token-cancelled)", 0) + 1
            for sid, fin in res["final"].items():
                if str(sid) in closedm and str(sid) not in eofs and " b=-" in " " + fin:
                    dist["branch:gc-erasure"] = dist.get("branch:gc-erasure", 0) + 1
        ctx.count_case(sched_line(c) + "|" + (res["choices"] if res else ""), nontrivial=nsw >= 2)
        if len(ctx.cov["samples"]) < 6 and ctx.rng.chance(1, 60) and res:
            ctx.sample({"cat": c["cat"], "line": sched_line(c)[:300], "steps": ["%d:%s=>%s" % (s["tid"], s["step"], s["obs"]) for s in res["steps"][:14]]})
        fails = sched_monitor(c, res)
        if fails:
            replay_line = sched_line(c, choices=[int(x) for x in res["choices"].split(",")]) if res and res["choices"] else sched_line(c)
            ctx.violation("property", fails[0], {"ops": [replay_line], "observed": [l[:4000]], "failures": fails[:5], "category": c["cat"],
                                                 "note": "replay: feed the op line to the harness; the schedule is the recorded DetSched choice list"},
                          found_input=True)
            continue
        if not res or res["status"] != "ok":
            continue
        undisc = False
        mism = None
        for st, ml in zip(res["steps"], mout[a + 1:a + 1 + nst]):
            ans, _, d = ml.rpartition(" d=")
            if d == "0":
                undisc = True
            if ans != strip_tag(st["obs"]):
                mism = "step `%s` observed `%s`, model `%s`" % (st["step"], st["obs"][:100], ans[:100])
                break
        if mism is None:
            # the state the real class ended in, session by session, against the model's state after the replay
            for sid, ml in zip(sorted(res["final"]), mout[a + 1 + nst:b]):
                if ml != res["final"][sid]:
                    mism = "final state of session %d: real class `%s`, model `%s`" % (sid, res["final"][sid], ml)
                    break
        if mism:
            n_mis += 1
            if n_mis <= 3:
                ctx.violation("correspondence", "acceptor: the model cannot explain the recorded trace of the real class (no property monitor fails): " + mism,
                              {"broken": {"correspondence": "syncrecv trace inclusion (harness/c03_syncrecv.cpp under DetSched vs Model/SyncRecv.lean, Model/SyncRecvW.lean)",
                                          "detail": mism},
                               "ops": [sched_line(c, choices=[int(x) for x in res["choices"].split(",")])],
                               "observed": ["%d:%s=>%s" % (s["tid"], s["step"], s["obs"]) for s in res["steps"]] + ["%d:%s" % kv for kv in sorted(res["final"].items())],
                               "expected_by_model": mout[a + 1:b]}, found_input=False)
        if undisc:
            dist["sched-undisciplined"] = dist.get("sched-undisciplined", 0) + 1
    return parsed if keep else None


# ------------------------------------------------------------------ bounded-exhaustive schedules
EXPLORE_PROGRAMS = [
    # (name, maxbuf, io ops, app threads, monitor flags)
    ("parked-data-close", 1000, ["d:1:0716", "c:1"], [["m:1:s", "r:1:1:50", "r:1:8:50", "r:1:8:50"]], {"ends_async": False}),
    ("flush-vs-arrivals", 1000, ["d:1:07", "d:1:16", "d:1:25"], [["m:1:s", "m:1:a"]], {"ends_async": True}),
    ("overflow-parked", 2, ["d:1:0716", "d:1:25"], [["m:1:s", "r:1:8:50", "r:1:8:50"]], {"ends_async": False, "overflow_possible": True}),
    ("wrapper-cancel", 1000, ["d:1:0716"], [["m:1:s", "rc:1:1:120", "rc:1:8:120"], ["x:1"]], {"ends_async": False}),
    ("disabled-async", 1000, ["d:1:07", "d:1:16"], [["m:1:s", "m:1:d", "m:1:a"]], {"ends_async": True, "uses_disabled": True}),
    # T8 / FC02a: the close racing the application's attempts to put the id back into Sync and flush it
    ("close-vs-rearm", 1000, ["d:1:0716", "c:1"], [["m:1:s", "m:1:s", "m:1:a", "r:1:8:5"]], {"ends_async": False}),
    # T8 from the close CALLBACK / FC03c: the Async switch at every point of the close handler (before the mark, between the mark and
    # the callback, after the callback)
    ("close-window", 1000, ["d:1:0716", "c:1"], [["m:1:s", "m:1:a", "r:1:8:5"]], {"ends_async": False}),
    # token reset between two cancellable calls, a cancel at every point
    ("wrapper-cancel-reset", 1000, ["d:1:0716", "d:1:25"], [["m:1:s", "rc:1:8:120", "xr:1", "rc:1:8:120", "m:1:a"], ["x:1"]], {"ends_async": True}),
]


def explore(ctx, hb, dist, bound, max_runs):
    """Every schedule of each small program with at most `bound` preemptions (CHESS-style: DetSched completes a choice prefix without
    preemptions and reports every decision's alternatives; siblings are generated with their exact preemption cost). Time-outs and which
    sleeper a notify wakes are free choices when the running thread blocks; a time-out while it can still run counts as a preemption."""
    for name, maxbuf, io, apps, flags in EXPLORE_PROGRAMS:
        base = {"cat": "explore-" + name, "seed": 0, "timeoutOneIn": 0, "spuriousOneIn": 0, "maxbuf": maxbuf, "io": io, "apps": apps, "sids": [1],
                "total": {1: 0}, "uses_disabled": False, "overflow_possible": False, "fence": False, "ends_async": False, "timed_threads": 1}
        base.update(flags)
        frontier = [([], 0)]          # (choice prefix, preemptions spent)
        seen = set()
        runs = 0
        complete = True
        while frontier:
            if runs >= max_runs:
                complete = False
                break
            batch, frontier = frontier[:400], frontier[400:]
            batch = batch[:max_runs - runs]
            cases = [dict(base, explore=p) for p, _ in batch]
            results = run_sched(ctx, hb, cases, dist, keep=True)
            runs += len(cases)
            for (prefix, spent), res in zip(batch, results):
                if not res or not res["choices"]:
                    continue
                ch = [int(x) for x in res["choices"].split(",")]
                cur = 0
                cur_at = []
                for x in ch:
                    cur_at.append(cur)
                    if x & 3 == 0:
                        cur = x >> 2
                for i in sorted(res["alts"]):
                    if i < len(prefix) or i >= len(ch):
                        continue
                    al = res["alts"][i]
                    has_run = any(a & 3 == 0 for a in al)
                    cur_enabled = any(a & 3 == 0 and (a >> 2) == cur_at[i] for a in al)
                    for a in al:
                        if a == ch[i]:
                            continue
                        if a & 3 == 0:
                            cost = 1 if (cur_enabled and (a >> 2) != cur_at[i]) else 0
                        elif a & 3 == 1:
                            cost = 1 if has_run else 0
                        else:
                            cost = 0
                        if spent + cost > bound:
                            continue
                        p = tuple(ch[:i] + [a])
                        if p in seen:
                            continue
                        seen.add(p)
                        frontier.append((list(p), spent + cost))
        dist["explore:%s:runs" % name] = runs
        dist["explore:%s:complete(K=%d)" % (name, bound)] = 1 if complete else 0
        if not complete:
            ctx.extra.setdefault("explore_truncated", []).append("%s: stopped at %d runs with %d schedules still queued (K=%d)" % (name, runs, len(frontier), bound))


# ------------------------------------------------------------------ run
def run(ctx: Ctx):
    quick = ctx.tier == "quick"
    scale = 1 if quick else 15
    rng = ctx.rng
    ctx.translate(["tsyncskel"])
    ok_build = ctx.lake_build(MODULES)
    if ok_build:
        ctx.audit(MODULES, OBLIGATIONS)
        if not quick:
            ctx.leanchecker(MODULES + ["IoraModel.Lemmas.SyncRecv", "IoraModel.Lemmas.SyncRecvG", "IoraModel.Lemmas.SyncRecvT8", "IoraModel.Lemmas.SyncRecvG3", "IoraModel.Lemmas.SyncRecvW", "IoraModel.Model.SyncRecv", "IoraModel.Model.SyncRecvW", "IoraModel.Model.SyncRecvGen", "IoraModel.Model.TsyncFacts", "IoraModel.Gen.TsyncSkel"])
    else:
        ctx.cov["obligations"] = len(OBLIGATIONS)
    hb = ctx.build_harness("harness/c03_syncrecv.cpp", sanitize=True, flags=[DETSCHED])
    dist = {}
    if hb:
        corpus = load_corpus()
        r1 = rng.fork("seq")
        cases = [c for c in corpus if c.get("cat") != "sched"] + [gen_seq_case(r1, big=(i % 12 == 0)) for i in range(700 * scale)]
        res = ctx.lockstep("syncrecv", hb, cases)
        n_mis = 0
        def bump(key, n=1):
            dist[key] = dist.get(key, 0) + n
        for c, impl, model in res:
            dist[c["cat"]] = dist.get(c["cat"], 0) + 1
            nb_prev = None
            gmodes = {}
            for op, l in zip(c["ops"], impl):
                k = op.split()[0]
                dist["op:" + k] = dist.get("op:" + k, 0) + 1
                head, _, state = l.partition(" | ")
                stt = dict(kv.split("=") for kv in state.split() if "=" in kv)
                # branch counters measured on the REAL class's answers (review F8)
                if k in ("recv", "recvc", "recvcx", "recvlong"):
                    r = l.split()[0].split("!")[0]
                    r = "ok" if r.startswith("ok:") else r
                    dist[k + ":" + r] = dist.get(k + ":" + r, 0) + 1
                    if r == "ok" and stt.get("b", "-") not in ("-", "0"):
                        bump("branch:partial-drain")
                    if k == "recvcx" and r == "ok":
                        bump("branch:C03-d-window(ok-returned-with-token-cancelled)")
                if k == "mode":
                    sidm = op.split()[1]
                    if "cb:" in head:
                        bump("branch:flush-delivery")
                        if gmodes.get(sidm) == "d":
                            bump("branch:flush-delivery-from-Disabled")
                    if head.startswith("ret:1") and stt.get("c") != "1":
                        gmodes[sidm] = op.split()[2]
                if k in ("close", "closew"):
                    if nb_prev is not None and "nb" in stt and int(stt["nb"]) < nb_prev:
                        bump("branch:gc-erasure", nb_prev - int(stt["nb"]))
                    if k == "closew":
                        bump("branch:close-window-switch(ret:%s)" % head.split("ret:")[-1][:1])
                if "nb" in stt and k != "fence":
                    nb_prev = int(stt["nb"])
                if k == "data":
                    n = 0 if op.split()[2] == "-" else len(op.split()[2]) // 2
                    b = "0" if n == 0 else "1-16" if n <= 16 else "17-1000" if n <= 1000 else ">1000"
                    dist["chunk:" + b] = dist.get("chunk:" + b, 0) + 1
            ctx.count_case("\n".join(c["ops"]), nontrivial=any(l.startswith("ok:") or "cb:" in l for l in impl))
            if len(ctx.cov["samples"]) < 3 and ctx.rng.chance(1, 100):
                ctx.sample({"cat": c["cat"], "ops": [o[:80] for o in c["ops"][:10]], "impl": [l[:100] for l in impl[:10]]})
            fails = seq_monitor(c, impl)
            mism = [(i, a, b) for i, (a, b) in enumerate(zip(impl, model)) if TAG.sub("", a) != b]
            if (fails or mism) and (any(op.split()[0] in ("recvlong", "recvcx") for op in c["ops"]) or any("!late" in l for l in impl)):
                # real-time ops (a second thread, the 1.5 s lateness tag): a stalled machine can reorder the chunk and the receive or
                # stretch a wait; the single case is run once more and judged on the second run only (review F7)
                bump("retry:real-time-case")
                (c, impl, model), = ctx.lockstep("syncrecv", hb, [c])
                fails = seq_monitor(c, impl)
                mism = [(i, a, b) for i, (a, b) in enumerate(zip(impl, model)) if TAG.sub("", a) != b]
            if fails:
                report_seq(ctx, hb, c, impl, model, fails)
            elif mism:
                n_mis += 1
                if n_mis <= 3:
                    i, a, b = mism[0]
                    ctx.violation("correspondence", "model and implementation disagree (no property monitor fails on this case): op `%s` impl=`%s` model=`%s`"
                                  % (c["ops"][i][:100], a[:140], b[:140]),
                                  {"broken": {"correspondence": "syncrecv lockstep (harness/c03_syncrecv.cpp vs Model/SyncRecv.lean)",
                                              "detail": "first differing op index %d" % i},
                                   "ops": c["ops"], "observed": impl, "expected_by_model": model}, found_input=False)
        r2 = rng.fork("sched")
        scases = [c for c in corpus if c.get("cat") == "sched"] + [gen_sched_case(r2, i) for i in range(500 * scale)]
        run_sched(ctx, hb, scases, dist)
        # bounded-exhaustive: quick = every schedule with at most 1 preemption (capped), thorough = at most 2 preemptions
        explore(ctx, hb, dist, bound=1 if quick else 2, max_runs=600 if quick else 20000)
    ctx.extra["input_distribution"] = dist
    ctx.extra["repo_tree_sha"] = ctx.repo_tree_sha(ANCHOR_FILES)
    ctx.extra["not_proved"] = [
        "wall-clock behaviour of wait_until: timeouts are scheduler choices of the model / DetSched. TIED, not proved: receiveSync waits under "
        "the caller's lock until now() + (saturated) timeout and answers Timeout exactly for an unsignalled wait, and the wrapper's deadline / "
        "sub-interval arithmetic (skeleton_pinned, decide); monitors: no Timeout before the requested time (real and virtual), none later than "
        "+5 ms of virtual time in programs with one waiting thread, +1.5 s real time sequentially; timeouts up to milliseconds::max() generated",
        "schedules are sampled at random in both tiers; on top, EVERY schedule with at most K preemptions (K=1 quick, capped; K=2 thorough) of "
        "eight small programs is enumerated - bounded, not exhaustive, exploration (input_distribution explore:*; a truncated enumeration "
        "is listed in explore_truncated)",
        "two application threads using one session concurrently (a receive overlapping a setReadMode(Async) of the same session, or two "
        "concurrent flushes) are outside the property's quantifier and outside `Disciplined`; the code does not reject them",
        "teardown interplay (fence) is part of the model but the stream theorems about drops under the fence are C05's",
    ]
    ctx.assumptions += [
        "T8 is measured from the close CALLBACK the application sees (Ev.closeCb / the harness's gclose event; modelled as repaired, "
        "fixes/FC03c-*: the handler marks the session closed BEFORE it invokes the callbacks, and fixes/FC02a-*: setReadMode is a no-op for a "
        "closed tombstone). It does not cover one situation, shown by examples in Props/C03.lean to be what the code does: a "
        "setReadMode(Async) flush ALREADY in progress on another thread when the close is processed (closeGrace) goes on handing the bytes "
        "it took to the callback",
        "CancellationToken::reset() is called between calls only, never while a call using the token is in flight (the header's own "
        "contract; okW)",
        "engine contract (C02): no data and no second close for a closed session id (zero-length chunks are legal arrivals and are generated)",
        "a data callback is registered (the flush and the Async path silently discard bytes when none is set)",
        "tombstone GC (syncBufferGcThreshold) may erase a drained tombstone: a later receive on that id then waits for its timeout (T7 is stated without a GC pass)",
        "setReadMode(Async) after an overflow resumes callback delivery past the gap without any report (the overflow is reported to synchronous readers only)",
    ]
    return ctx.finish(level="proof", rule="a case = one op list from reset over the scripted engine (single-threaded lockstep) or one DetSched schedule of a "
                      "2-4 thread program (trace inclusion); distinct = distinct op list / (program, choice list); non-trivial = at least one byte was "
                      "returned or delivered (lockstep) / at least 2 context switches between model steps (schedules)")


def report_seq(ctx, hb, c, impl, model, fails):
    ops = c["ops"]
    if not ctx.violation_budget("property", fails[0]):
        ctx.violation("property", fails[0])
        return
    cls = fails[0].split(":")[0]

    realtime = any(o.split()[0] in ("recvlong", "recvcx") for o in ops)

    def still(sub):
        sub = [ops[0]] + sub
        # a second-thread receive whose `mode s` was removed by the shrinker parks for its whole (huge) timeout: short fuse
        out, rc, err = ctx.run_lines([hb], sub, timeout=8 if realtime else 60)
        out = out + ["crash:" + str(rc)] * (len(sub) - len(out))
        cc = dict(c)
        cc["ops"] = sub
        return any(f.split(":")[0] == cls for f in seq_monitor(cc, out))
    try:
        if len(ops) > 3 and still(ops[1:]):
            ops = [ops[0]] + ddmin(ops[1:], still, max_tests=40 if realtime else 120)
    except Exception:
        pass
    out, rc, err = ctx.run_lines([hb], ops, timeout=60)
    ctx.violation("property", fails[0], {"ops": ops, "observed": out, "expected_by_model": model if ops is c["ops"] else None,
                                         "failures": fails[:5], "category": c["cat"], "maxSyncReceiveBuffer": c.get("maxbuf")}, found_input=True)


def load_corpus():
    d = os.path.join(VERIF, "corpus", "C03")
    out = []
    if os.path.isdir(d):
        for fn in sorted(os.listdir(d)):
            if fn.endswith(".json"):
                c = json.load(open(os.path.join(d, fn)))
                c.setdefault("cat", "corpus")
                c["corpus_file"] = fn
                out.append(c)
    return out
