"""C03 — Synchronous receive is a lossless ordered stream that drains before EOF (DESIGN §7 C03).

Model: lean/IoraModel/Model/SyncRecv.lean (one step = one syncMutex critical section of transport_impl.hpp).
Tie:   tools/tr_tsyncskel.py -> Gen/TsyncSkel.lean (lock/notify skeleton; the model is instantiated from it),
       harness/c03_syncrecv.cpp: (1) single-threaded lockstep over the scripted engine, (2) DetSched schedules of 2-4 thread
       programs whose recorded critical-section order is replayed by the Lean acceptor (trace inclusion).
Monitors look only at what the real class returned/delivered and at the bytes the generator fed in."""
import json, os
from vlib.core import Ctx, hexs, unhex, ddmin, VERIF

ID = "C03"
MODULES = ["IoraModel.Props.C03"]
DETSCHED = os.path.join(VERIF, "harness", "detsched", "detsched.cpp")
ANCHOR_FILES = ["include/iora/network/transport_impl.hpp", "include/iora/network/transport.hpp", "include/iora/network/transport_types.hpp"]
OBLIGATIONS = [
    {"id": "C03_T1", "theorem": "Iora.C03.T1_stream", "kind": "proved",
     "statement": "every disciplined step sequence: out ++ inFlightFlush ++ buf ++ pendingCallback = accepted, and = arrived when no chunk was dropped"},
    {"id": "C03_T1_recv", "theorem": "Iora.C03.T1_out_prefix", "kind": "proved",
     "statement": "at every point of every run the bytes handed out are a prefix of the bytes that arrived (each once, in order, any caller buffer lengths)"},
    {"id": "C03_T2", "theorem": "Iora.C03.T2_drain_before_eof", "kind": "proved",
     "statement": "a receive answers PeerClosed only with an empty buffer, and then every accepted byte has been handed out (all arrived bytes when nothing was dropped)"},
    {"id": "C03_T3", "theorem": "Iora.C03.T3_flush_order", "kind": "proved",
     "statement": "whenever a live session is in Async mode nothing is buffered or in flight: the flush handed over every earlier byte before any later arrival"},
    {"id": "C03_T4", "theorem": "Iora.C03.T4_disabled_silent", "kind": "proved",
     "statement": "a chunk arriving in Disabled mode changes nothing and produces no output"},
    {"id": "C03_T5_sticky", "theorem": "Iora.C03.T5_overflow_sticky", "kind": "proved",
     "statement": "no step (of any sequence, disciplined or not) clears overflow while the buffer exists"},
    {"id": "C03_T5_reported", "theorem": "Iora.C03.T5_overflow_reported", "kind": "proved",
     "statement": "a receive entered on an overflowed, drained buffer answers BufferOverflow (before PeerClosed)"},
    {"id": "C03_T5_nogap", "theorem": "Iora.C03.T5_no_post_gap_bytes", "kind": "proved",
     "statement": "no chunk is ever appended to the sync buffer after a chunk was dropped (true of the repaired handler, F15)"},
    {"id": "C03_T6", "theorem": "Iora.C03.T6_no_lost_wakeup", "kind": "proved",
     "statement": "a parked receive whose predicate (data/closed/overflow) holds has been notified, in every reachable state"},
    {"id": "C03_T7", "theorem": "Iora.C03.T7_late_receive", "kind": "proved",
     "statement": "without a tombstone GC pass, a receive entered after the close on a drained session answers PeerClosed at once"},
    {"id": "C03_skel", "theorem": "Iora.C03.skeleton_conforms", "kind": "proved",
     "statement": "the regenerated lock/notify skeleton has the facts the model is instantiated from: notify after write under the lock, mode read + append under one lock, callback unlocked, hasData computed from the buffer, drain keyed on the buffer, the flush switches to Async only in a section that found the buffer empty (decide)"},
]

SIZES = [0, 1, 2, 3, 5, 10, 16, 64, 1000, 65535, 65536, 70000, 1048576]


def payload(sid, pos, n):
    """position-coded bytes: byte k of the session's arrival stream (Disabled arrivals included) is recognisable"""
    return bytes(((pos + i) * 131 + sid * 17 + 7) % 251 for i in range(n))


# ------------------------------------------------------------------ single-threaded cases
def gen_seq_case(rng, big):
    wild = rng.chance(1, 10)          # 1 case in 10 also breaks the environment contract (data/close after a close)
    maxbuf = rng.choice([0, 1, 2, 5, 10, 16, 16, 64, 64, 64, 1000, 1000, 1000] + ([65536, 70000, 1048576, 1048576] if big else []))
    gc = rng.choice([1024, 1024, 1024, 1024, 0, 1, 2])
    allow = 0 if rng.chance(1, 30) else 1
    sids = sorted(set(rng.range(1, 9) for _ in range(rng.choice([1, 1, 2, 3]))))
    ops = ["reset %d %d %d" % (maxbuf, gc, allow)]
    pos = {s: 0 for s in sids}
    dead = set()
    disciplined = True
    fence = False
    n = rng.range(4, 60 if not big else 25)
    pend = {s: 0 for s in sids}      # generator's guess of the buffered byte count (steers sizes to the interesting region only)
    ovf = set()
    for s in sids:
        if rng.chance(4, 5):
            ops.append("mode %d s" % s)
    for _ in range(n):
        s = rng.choice(sids)
        if s in ovf and rng.chance(2, 3):
            s = rng.choice(sids)
        k = rng.below(100)
        if k < 42:
            if s in dead and not wild:
                continue
            room = max(0, maxbuf - pend[s])
            if rng.chance(3, 4) and room >= 1:
                ln = rng.choice([1, 2, 3, rng.range(1, min(room, 12)), rng.range(1, room), room, max(room - 1, 1)])   # fits
            else:
                ln = rng.choice([room + 1, room + 2, maxbuf + 1, max(maxbuf, 1), rng.range(1, maxbuf + 2)])             # boundary / overflow
            if big and rng.chance(1, 4):
                ln = rng.choice([65535, 65536, 70000, max(maxbuf, 1), maxbuf + 1, max(room, 1)])
            if rng.chance(1, 14):
                ln = 0                     # zero-length chunk: legal input (UdpEngine delivers empty datagrams)
            ln = min(ln, 70001)
            if s in dead:
                disciplined = False
            ops.append("data %d %s" % (s, hexs(payload(s, pos[s], ln))))
            pos[s] += ln
            if pend[s] + ln > maxbuf:
                ovf.add(s)
            else:
                pend[s] += ln
        elif k < 72:
            ln = rng.choice([0, 1, 2, 3, 5, rng.range(0, 20), pend[s], pend[s] + 1, max(pend[s] - 1, 0), 70000])
            ops.append("recv %d %d %d" % (s, ln, rng.choice([0, 0, 0, 1])))
            pend[s] = max(0, pend[s] - ln)
        elif k < 90:
            m = rng.choice(["a", "s", "s", "s", "d"])
            ops.append("mode %d %s" % (s, m))
            if m == "a":
                pend[s] = 0
        elif k < 96:
            if s in dead and not wild:
                continue
            if s in dead:
                disciplined = False
            ops.append("close %d" % s)
            dead.add(s)
        elif k < 98 and rng.chance(1, 4):
            ops.append("fence %d" % rng.below(2))
            fence = True
    # final drain so that "lossless" is observable
    for s in sids:
        for _ in range(pos[s] // 80000 + 2):
            ops.append("recv %d 80000 0" % s)
    return {"cat": "seq" if disciplined else "seq-wild", "ops": ops, "maxbuf": maxbuf, "gc": gc, "disciplined": disciplined, "fence": fence, "sids": sids}


def seq_monitor(c, impl):
    """Property monitors over the implementation's answers only. Returns a list of failure strings."""
    bad = []
    if not c.get("disciplined", True):
        return [("X: crash %s" % l) for l in impl if l.startswith("crash:") or l.startswith("throw")][:1]
    maxbuf = c["maxbuf"]
    mode = {}
    arrived = {}
    out = {}
    dead = set()
    eof = set()
    ovf_seen = set()
    ovf_expected = set()
    skip = set()
    fence = False
    for op, l in zip(c["ops"], impl):
        t = op.split()
        if l.startswith("crash:") or l.startswith("throw"):
            bad.append("X: the sync layer crashes/throws: %s -> %s" % (op[:60], l[:80]))
            break
        if t[0] == "reset":
            continue
        if t[0] == "fence":
            fence = True
            continue
        sid = int(t[1])
        arrived.setdefault(sid, bytearray())
        out.setdefault(sid, bytearray())
        head, _, state = l.partition(" | ")
        st = dict(kv.split("=") for kv in state.split() if "=" in kv)
        evs = []
        for tok in head.split():
            for e in tok.split(";"):
                if e.startswith("cb:"):
                    _, s2, hx = e.split(":")
                    out.setdefault(int(s2), bytearray()).extend(unhex(hx))
        if t[0] == "data":
            chunk = unhex(t[2])
            m = mode.get(sid, "a")
            if m != "d":
                if m == "s" and len(arrived[sid]) - len(out[sid]) + len(chunk) > maxbuf and sid not in ovf_expected and not fence:
                    ovf_expected.add(sid)
                arrived[sid].extend(chunk)
        elif t[0] == "recv":
            r = head.split()[0]
            if r.startswith("ok:"):
                got = unhex(r[3:])
                if len(got) > int(t[2]):
                    bad.append("T1: receive returned %d bytes into a %d-byte buffer" % (len(got), int(t[2])))
                out[sid].extend(got)
                if sid in ovf_seen and not fence and sid not in skip and c["gc"] >= 16:
                    bad.append("T5: a receive returned data after BufferOverflow had been reported (not sticky): %s" % op)
            elif r == "err:BufferOverflow":
                ovf_seen.add(sid)
                if sid not in ovf_expected:
                    bad.append("T5: BufferOverflow reported although the buffered bytes never exceeded maxSyncReceiveBuffer=%d" % maxbuf)
            elif r == "err:PeerClosed":
                if sid not in dead:
                    bad.append("T2: PeerClosed reported for a session the engine never closed")
                if not fence and sid not in ovf_expected and bytes(out[sid]) != bytes(arrived[sid]):
                    bad.append("T2: PeerClosed reported before every byte that arrived was returned: returned %d of %d bytes"
                               % (len(out[sid]), len(arrived[sid])))
                eof.add(sid)
            elif r == "err:ShuttingDown":
                if not fence:
                    bad.append("T1: receive answered ShuttingDown on a live session although no teardown began (after `%s`)" % op[:40])
            elif r == "err:Timeout":
                if sid in ovf_seen and not fence and sid not in skip and c["gc"] >= 16:   # a GC pass may reclaim a closed, drained, overflowed tombstone
                    bad.append("T5: a receive after BufferOverflow answered Timeout (overflow not sticky)")
                if (sid in dead and sid not in eof and sid not in ovf_expected and not fence and c["gc"] >= 16
                        and bytes(out[sid]) == bytes(arrived[sid])):
                    bad.append("T7: a receive entered after the close on a drained session blocked to its timeout instead of PeerClosed")
                if (mode.get(sid, "a") == "s" and not fence and sid not in ovf_expected and sid not in dead
                        and len(arrived[sid]) > len(out[sid])):
                    bad.append("T1: receive timed out although %d arrived bytes have not been returned" % (len(arrived[sid]) - len(out[sid])))
        elif t[0] == "mode":
            if head.split()[0] == "ret:1":
                mode[sid] = t[2]
                if t[2] == "a" and sid in ovf_expected:
                    # setReadMode(Async) after an overflow resumes callback delivery past the gap; the overflow is reported to
                    # synchronous readers only (recorded as an assumption) - the stream monitors stop here for this session
                    skip.add(sid)
        elif t[0] == "close":
            dead.add(sid)
            mode.pop(sid, None)
        # T1/T3/T4/T5: what has been handed out is always a prefix of what arrived (never post-gap, duplicated, reordered or Disabled bytes)
        for s2 in out:
            if s2 in skip:
                continue
            a = bytes(arrived.get(s2, b""))
            o = bytes(out[s2])
            if a[:len(o)] != o:
                k = next((i for i in range(min(len(a), len(o))) if a[i] != o[i]), min(len(a), len(o)))
                bad.append("T1: bytes handed out for session %d are not a prefix of the bytes that arrived (first difference at offset %d; "
                           "handed out %d, arrived %d) after `%s`" % (s2, k, len(o), len(a), op[:50]))
                return bad
    if not fence:
        for s2 in arrived:
            if s2 in ovf_expected:
                continue
            if bytes(out[s2]) != bytes(arrived[s2]):
                bad.append("T1: after the final drain session %d returned %d of %d arrived bytes and no overflow was reported"
                           % (s2, len(out[s2]), len(arrived[s2])))
    return bad


# ------------------------------------------------------------------ DetSched programs
def gen_sched_case(rng, idx):
    kind = rng.choice(["parked", "midflush", "mixed", "mixed", "two-sessions", "close-race", "fence", "flush-window", "flush-window", "flush-window"])
    if kind == "flush-window":
        # arrivals racing the window between the flusher's unlock and the end of its data callback (the harness callback yields
        # at entry and exit): every chunk must stay behind the flushed bytes
        n = rng.range(4, 8)
        io = []
        for k in range(n):
            if rng.chance(1, 3):
                io.append("y")
            io.append("d:1:%s" % hexs(payload(1, k, 1)))
        app = ["m:1:s"] + ["y"] * rng.range(0, 2) + ["m:1:a"]
        return {"cat": "sched-flush-window", "seed": rng.below(2 ** 31), "timeoutOneIn": 0, "spuriousOneIn": 0, "maxbuf": 1000, "io": io,
                "apps": [app], "sids": [1], "total": {1: n}, "uses_disabled": False, "overflow_possible": False, "fence": False, "ends_async": True}
    maxbuf = rng.choice([4, 8, 16, 64, 1000])
    nsess = 2 if kind == "two-sessions" else 1
    sids = [1, 2][:nsess]
    io = []
    apps = []
    total = {}
    uses_disabled = False
    for s in sids:
        pos = 0
        nchunks = rng.range(1, 5)
        for _ in range(nchunks):
            ln = rng.choice([1, 2, 3, 4, rng.range(1, 6)])
            if rng.chance(1, 8):
                ln = 0                     # zero-length chunk (legal)
            io.append("d:%d:%s" % (s, hexs(payload(s, pos, ln))))
            pos += ln
        total[s] = pos
    if kind in ("close-race", "mixed", "parked") and rng.chance(2, 3):
        for s in sids:
            if rng.chance(2, 3):
                io.append("c:%d" % s)
    if nsess == 2:
        # interleave the two sessions' arrivals, keeping each session's own order (and its close last)
        per = {s: [o for o in io if o.split(":")[1] == str(s)] for s in sids}
        io = []
        while any(per.values()):
            s = rng.choice([s for s in sids if per[s]])
            io.append(per[s].pop(0))
    for s in sids:
        a = ["m:%d:s" % s]
        if kind == "parked":
            for _ in range(rng.range(1, 4)):
                a.append("r:%d:%d:%d" % (s, rng.choice([1, 2, 3, 8, 100]), rng.choice([5, 50])))
        elif kind == "midflush":
            if rng.chance(1, 2):
                a.append("r:%d:%d:%d" % (s, rng.choice([1, 2, 100]), 5))
            a.append("m:%d:a" % s)
        elif kind == "fence":
            a.append("r:%d:%d:%d" % (s, rng.choice([1, 100]), 50))
            a.append("r:%d:%d:%d" % (s, rng.choice([1, 100]), 50))
        else:
            for _ in range(rng.range(1, 5)):
                k = rng.below(10)
                if k < 5:
                    a.append("r:%d:%d:%d" % (s, rng.choice([0, 1, 2, 3, 100]), rng.choice([0, 5, 50])))
                elif k < 7:
                    a.append("m:%d:a" % s)
                elif k < 9:
                    a.append("m:%d:s" % s)
                else:
                    a.append("m:%d:d" % s)
                    a.append("m:%d:%s" % (s, rng.choice(["s", "a"])))
                    uses_disabled = True
        if kind != "fence":
            a.append("m:%d:a" % s)       # ends in Async: everything that arrived must have been handed out when the program ends
        apps.append(a)
    extra = []
    if kind == "fence":
        extra = [["y", "f:%d" % rng.below(2)]]
    overflow_possible = any(total[s] > maxbuf for s in sids)
    return {"cat": "sched-" + kind, "seed": rng.below(2 ** 31), "timeoutOneIn": rng.choice([0, 4, 8]), "spuriousOneIn": rng.choice([0, 0, 6]),
            "maxbuf": maxbuf, "io": io, "apps": apps + extra, "sids": sids, "total": total, "uses_disabled": uses_disabled,
            "overflow_possible": overflow_possible, "fence": kind == "fence", "ends_async": kind != "fence"}


def sched_line(c, choices=None):
    first = ("c:" + ",".join(map(str, choices))) if choices is not None else ("c:" + c["choices"] if "choices" in c else str(c["seed"]))
    parts = ["sched", first, str(c["timeoutOneIn"]), str(c["spuriousOneIn"]), str(c["maxbuf"]), "1024", "io"] + c["io"]
    for a in c["apps"]:
        parts += ["app"] + a
    return " ".join(parts)


def parse_sched(line):
    if line.startswith("crash:") or " | " not in line:
        return None
    parts = line.split(" | ")
    status = parts[0].strip()
    steps = []
    body = parts[1].strip() if len(parts) > 1 else ""
    if status.endswith("|"):
        status = status[:-1].strip()
    for tok in body.split():
        if "=>" not in tok:
            continue
        lhs, obs = tok.split("=>", 1)
        f = lhs.split(",")
        steps.append({"tid": int(f[0]), "step": " ".join(f[1:]), "obs": obs})
    return {"status": status.split()[0], "steps": steps, "choices": parts[2].strip() if len(parts) > 2 else "", "report": parts[3] if len(parts) > 3 else ""}


def sched_monitor(c, res):
    bad = []
    if res is None:
        return ["X: the harness produced no trace"]
    if res["status"] != "ok":
        if res["status"] == "diverged" and "choices" in c:
            return []
        return ["T6: not every call returns under this schedule (%s): %s" % (res["status"], res["report"][:300])]
    arrived = {s: bytearray() for s in c["sids"]}
    out = {s: bytearray() for s in c["sids"]}
    closed = set()
    for st in res["steps"]:
        f = st["step"].split()
        if f[0] == "ioData":
            arrived[int(f[1])].extend(unhex(f[2]))
        elif f[0] == "ioClose":
            closed.add(int(f[1]))
        for e in st["obs"].split(";"):
            if e.startswith("cb:"):
                _, s2, hx = e.split(":")
                out[int(s2)].extend(unhex(hx))
            elif e.startswith("recvRet:"):
                p = e.split(":")
                s2 = int(p[1])
                if p[2] == "ok":
                    out[s2].extend(unhex(p[3]))
                elif p[3] == "ShuttingDown" and not c["fence"]:
                    bad.append("T1: receive answered ShuttingDown on a live session although no teardown began")
                elif p[3] == "PeerClosed":
                    if s2 not in closed:
                        bad.append("T2: PeerClosed reported before the engine closed session %d" % s2)
                    if not c["uses_disabled"] and not c["overflow_possible"] and not c["fence"] and bytes(out[s2]) != bytes(arrived[s2]):
                        bad.append("T2: PeerClosed reported before every byte that arrived was returned (%d of %d)" % (len(out[s2]), len(arrived[s2])))
        for s2 in c["sids"]:
            a, o = bytes(arrived[s2]), bytes(out[s2])
            if c["uses_disabled"] or c["overflow_possible"]:
                # weaker: in order, each byte at most once
                i = 0
                for b in o:
                    while i < len(a) and a[i] != b:
                        i += 1
                    if i >= len(a):
                        bad.append("T1: bytes handed out for session %d are not an in-order sub-sequence of the bytes that arrived" % s2)
                        return bad
                    i += 1
            elif a[:len(o)] != o:
                bad.append("T1: bytes handed out for session %d are not a prefix of the bytes that arrived (handed out %s, arrived %s)"
                           % (s2, o.hex()[:60], a.hex()[:60]))
                return bad
    if c["ends_async"] and not c["uses_disabled"] and not c["overflow_possible"]:
        for s2 in c["sids"]:
            # every arrival that happened is delivered once the program (which ends in Async mode, or after the close) is over
            if s2 in closed:
                continue
            if bytes(out[s2]) != bytes(arrived[s2]):
                bad.append("T1/T3: the program ended in Async mode but session %d got %d of %d arrived bytes" % (s2, len(out[s2]), len(arrived[s2])))
    return bad


def run_sched(ctx, hb, cases, dist):
    lines = [sched_line(c) for c in cases]
    outs = []
    k = 0
    while k < len(lines):
        out, rc, err = ctx.run_lines([hb], lines[k:], timeout=1200)
        outs += out[:len(lines) - k]
        k = len(outs)
        if k < len(lines):
            outs.append("crash:rc=%s %s" % (rc, err[-400:].replace("\n", " ")))
            k += 1
    model_lines = []
    spans = []
    parsed = []
    for c, l in zip(cases, outs):
        res = parse_sched(l)
        parsed.append(res)
        a = len(model_lines)
        model_lines.append("reset %d 1024 1" % c["maxbuf"])
        if res:
            for st in res["steps"]:
                model_lines.append("st " + st["step"])
        spans.append((a, len(model_lines)))
    mout, mrc, merr = ctx.run_lines(ctx.model_argv("syncrecv"), model_lines, timeout=1200)
    if mrc != 0 or len(mout) != len(model_lines):
        raise RuntimeError("model driver failed on schedule replay rc=%s lines=%d/%d %s" % (mrc, len(mout), len(model_lines), merr[-300:]))
    n_mis = 0
    for c, l, res, (a, b) in zip(cases, outs, parsed, spans):
        dist[c["cat"]] = dist.get(c["cat"], 0) + 1
        ctx.cov["traces_validated_against_impl"] += 1
        if l.startswith("crash:"):
            ctx.violation("property", "X: the real Transport crashes under a DetSched schedule: %s" % l[:300],
                          {"ops": [sched_line(c)], "observed": [l]}, found_input=True)
            continue
        nsw = 0
        if res:
            dist["sched-status:" + res["status"]] = dist.get("sched-status:" + res["status"], 0) + 1
            nsw = sum(1 for x, y in zip(res["steps"], res["steps"][1:]) if x["tid"] != y["tid"])
            for st in res["steps"]:
                dist["step:" + st["step"].split()[0]] = dist.get("step:" + st["step"].split()[0], 0) + 1
        ctx.count_case(sched_line(c) + "|" + (res["choices"] if res else ""), nontrivial=nsw >= 2)
        if len(ctx.cov["samples"]) < 6 and ctx.rng.chance(1, 60) and res:
            ctx.sample({"cat": c["cat"], "line": sched_line(c)[:300], "steps": ["%d:%s=>%s" % (s["tid"], s["step"], s["obs"]) for s in res["steps"][:14]]})
        fails = sched_monitor(c, res)
        if fails:
            replay_line = sched_line(c, choices=[int(x) for x in res["choices"].split(",")]) if res and res["choices"] else sched_line(c)
            ctx.violation("property", fails[0], {"ops": [replay_line], "observed": [l[:4000]], "failures": fails[:5], "category": c["cat"],
                                                 "note": "replay: feed the op line to the harness; the schedule is the recorded DetSched choice list"},
                          found_input=True)
            continue
        if not res:
            continue
        undisc = False
        for st, ml in zip(res["steps"], mout[a + 1:b]):
            ans, _, d = ml.rpartition(" d=")
            if d == "0":
                undisc = True
            if ans != st["obs"]:
                n_mis += 1
                if n_mis <= 3:
                    ctx.violation("correspondence", "acceptor: the model cannot explain the recorded trace of the real class (no property monitor fails): "
                                  "step `%s` observed `%s`, model `%s`" % (st["step"], st["obs"][:100], ans[:100]),
                                  {"broken": {"correspondence": "syncrecv trace inclusion (harness/c03_syncrecv.cpp under DetSched vs Model/SyncRecv.lean)",
                                              "detail": "step %s" % st["step"]},
                                   "ops": [sched_line(c, choices=[int(x) for x in res["choices"].split(",")])],
                                   "observed": ["%d:%s=>%s" % (s["tid"], s["step"], s["obs"]) for s in res["steps"]],
                                   "expected_by_model": mout[a + 1:b]}, found_input=False)
                break
        if undisc:
            dist["sched-undisciplined"] = dist.get("sched-undisciplined", 0) + 1


# ------------------------------------------------------------------ run
def run(ctx: Ctx):
    quick = ctx.tier == "quick"
    scale = 1 if quick else 15
    rng = ctx.rng
    ctx.translate(["tsyncskel"])
    ok_build = ctx.lake_build(MODULES)
    if ok_build:
        ctx.audit(MODULES, OBLIGATIONS)
        if not quick:
            ctx.leanchecker(MODULES + ["IoraModel.Lemmas.SyncRecv", "IoraModel.Model.SyncRecv", "IoraModel.Model.SyncRecvGen", "IoraModel.Model.TsyncFacts", "IoraModel.Gen.TsyncSkel"])
    else:
        ctx.cov["obligations"] = len(OBLIGATIONS)
    hb = ctx.build_harness("harness/c03_syncrecv.cpp", sanitize=True, flags=[DETSCHED])
    dist = {}
    if hb:
        corpus = load_corpus()
        r1 = rng.fork("seq")
        cases = [c for c in corpus if c.get("cat") != "sched"] + [gen_seq_case(r1, big=(i % 12 == 0)) for i in range(700 * scale)]
        res = ctx.lockstep("syncrecv", hb, cases)
        n_mis = 0
        for c, impl, model in res:
            dist[c["cat"]] = dist.get(c["cat"], 0) + 1
            for op, l in zip(c["ops"], impl):
                k = op.split()[0]
                dist["op:" + k] = dist.get("op:" + k, 0) + 1
                if k == "recv":
                    r = l.split()[0]
                    r = "ok" if r.startswith("ok:") else r
                    dist["recv:" + r] = dist.get("recv:" + r, 0) + 1
                if k == "data":
                    n = 0 if op.split()[2] == "-" else len(op.split()[2]) // 2
                    b = "0" if n == 0 else "1-16" if n <= 16 else "17-1000" if n <= 1000 else ">1000"
                    dist["chunk:" + b] = dist.get("chunk:" + b, 0) + 1
            ctx.count_case("\n".join(c["ops"]), nontrivial=any(l.startswith("ok:") or "cb:" in l for l in impl))
            if len(ctx.cov["samples"]) < 3 and ctx.rng.chance(1, 100):
                ctx.sample({"cat": c["cat"], "ops": [o[:80] for o in c["ops"][:10]], "impl": [l[:100] for l in impl[:10]]})
            fails = seq_monitor(c, impl)
            mism = [(i, a, b) for i, (a, b) in enumerate(zip(impl, model)) if a != b]
            if fails:
                report_seq(ctx, hb, c, impl, model, fails)
            elif mism:
                n_mis += 1
                if n_mis <= 3:
                    i, a, b = mism[0]
                    ctx.violation("correspondence", "model and implementation disagree (no property monitor fails on this case): op `%s` impl=`%s` model=`%s`"
                                  % (c["ops"][i][:100], a[:140], b[:140]),
                                  {"broken": {"correspondence": "syncrecv lockstep (harness/c03_syncrecv.cpp vs Model/SyncRecv.lean)",
                                              "detail": "first differing op index %d" % i},
                                   "ops": c["ops"], "observed": impl, "expected_by_model": model}, found_input=False)
        r2 = rng.fork("sched")
        scases = [c for c in corpus if c.get("cat") == "sched"] + [gen_sched_case(r2, i) for i in range(500 * scale)]
        run_sched(ctx, hb, scases, dist)
    ctx.extra["input_distribution"] = dist
    ctx.extra["repo_tree_sha"] = ctx.repo_tree_sha(ANCHOR_FILES)
    ctx.extra["not_proved"] = [
        "wall-clock behaviour of wait_until (timeouts are scheduler choices of the model / DetSched)",
        "two application threads using one session concurrently (a receive overlapping a setReadMode(Async) of the same session, or two "
        "concurrent flushes) are outside the property's quantifier and outside `Disciplined`; the code does not reject them",
        "teardown interplay (fence) is part of the model but the stream theorems about drops under the fence are C05's",
    ]
    ctx.assumptions += [
        "engine contract (C02): no data and no second close for a closed session id (zero-length chunks are legal arrivals and are generated)",
        "a data callback is registered (the flush and the Async path silently discard bytes when none is set)",
        "tombstone GC (syncBufferGcThreshold) may erase a drained tombstone: a later receive on that id then waits for its timeout (T7 is stated without a GC pass)",
        "setReadMode(Async) after an overflow resumes callback delivery past the gap without any report (the overflow is reported to synchronous readers only)",
    ]
    return ctx.finish(level="proof", rule="a case = one op list from reset over the scripted engine (single-threaded lockstep) or one DetSched schedule of a "
                      "2-4 thread program (trace inclusion); distinct = distinct op list / (program, choice list); non-trivial = at least one byte was "
                      "returned or delivered (lockstep) / at least 2 context switches between model steps (schedules)")


def report_seq(ctx, hb, c, impl, model, fails):
    ops = c["ops"]
    if not ctx.violation_budget("property", fails[0]):
        ctx.violation("property", fails[0])
        return
    cls = fails[0].split(":")[0]

    def still(sub):
        sub = [ops[0]] + sub
        out, rc, err = ctx.run_lines([hb], sub, timeout=60)
        out = out + ["crash:" + str(rc)] * (len(sub) - len(out))
        cc = dict(c)
        cc["ops"] = sub
        return any(f.split(":")[0] == cls for f in seq_monitor(cc, out))
    try:
        if len(ops) > 3 and still(ops[1:]):
            ops = [ops[0]] + ddmin(ops[1:], still, max_tests=120)
    except Exception:
        pass
    out, rc, err = ctx.run_lines([hb], ops, timeout=60)
    ctx.violation("property", fails[0], {"ops": ops, "observed": out, "expected_by_model": model if ops is c["ops"] else None,
                                         "failures": fails[:5], "category": c["cat"], "maxSyncReceiveBuffer": c.get("maxbuf")}, found_input=True)


def load_corpus():
    d = os.path.join(VERIF, "corpus", "C03")
    out = []
    if os.path.isdir(d):
        for fn in sorted(os.listdir(d)):
            if fn.endswith(".json"):
                c = json.load(open(os.path.join(d, fn)))
                c.setdefault("cat", "corpus")
                c["corpus_file"] = fn
                out.append(c)
    return out
