"""C19 — DNS messages decode exactly or are rejected; cached answers honour TTL (DESIGN §7 C19)."""
import os, json
from vlib.core import Ctx, hexs, unhex, ddmin, load_known_findings

ID = "C19"
MODULES = ["IoraModel.Props.C19"]
LEANCHECK = ["IoraModel.Props.C19", "IoraModel.Lemmas.Dns", "IoraModel.Lemmas.DnsSafe", "IoraModel.Lemmas.DnsName", "IoraModel.Lemmas.DnsRoundtrip",
             "IoraModel.Lemmas.DnsRecords", "IoraModel.Lemmas.DnsMessage", "IoraModel.Lemmas.DnsTyped", "IoraModel.Lemmas.DnsWork", "IoraModel.Lemmas.DnsCache", "IoraModel.Lemmas.DnsTransport", "IoraModel.Lemmas.DnsSoa", "IoraModel.Lemmas.DnsNaptr", "IoraModel.Lemmas.DnsTcp", "IoraModel.Lemmas.DnsTcpHandle",
             "IoraModel.Model.DnsTcp", "IoraModel.Model.Dns", "IoraModel.Model.DnsCache", "IoraModel.Model.DnsTransport", "IoraModel.Spec.DnsWire"]
OBLIGATIONS = [
    {"id": "C19_N1a", "theorem": "Iora.C19.N1_sound", "kind": "proved",
     "statement": "WellFormedName m off ls next (RFC 1035 relation for any layout of compression pointers + RFC limit 255 octets incl. root + at most 128 pointers followed) -> decodeName m off = ok (dotted ls, next)"},
    {"id": "C19_N1b", "theorem": "Iora.C19.N1_complete", "kind": "proved",
     "statement": "decodeName m off = ok (n, next) -> exists ls, WellFormedName m off ls next and n = dotted ls (exact or rejected)"},
    {"id": "C19_N1_exact", "theorem": "Iora.C19.N1_exact", "kind": "proved", "statement": "decodeName = ok (n, next) IFF a well-formed name with presentation form n stands at off and continues at next"},
    {"id": "C19_N1_denotes", "theorem": "Iora.C19.N1_denotes_iff", "kind": "proved", "statement": "the relation with and without the pointer count describe the same names"},
    {"id": "C19_N1_max", "theorem": "Iora.C19.N1_max_length_name_accepted", "kind": "proved",
     "statement": "the legal maximum-length name (255 octets on the wire, 63.63.63.61) is accepted (FC19b repaired)"},
    {"id": "C19_N1_dotted", "theorem": "Iora.C19.N1_dotted", "kind": "proved", "statement": "presentation form = labels joined by dots"},
    {"id": "C19_N1_enc", "theorem": "Iora.C19.N1_encodeName", "kind": "proved",
     "statement": "encodeName n = ok w -> w is the uncompressed RFC encoding of the non-empty pieces, labels 1..63, |w| <= 255"},
    {"id": "C19_N1c", "theorem": "Iora.C19.N1_roundtrip", "kind": "proved",
     "statement": "encodeName n = ok w -> decodeName (pre ++ w ++ post) |pre| = ok (dotted (labelsOf n), |pre| + |w|)"},
    {"id": "C19_N1q", "theorem": "Iora.C19.N1_query_roundtrip", "kind": "proved",
     "statement": "parse (buildQuery qs rd id generated) returns the id (the caller's if non-zero, else the generated one), RD and the same questions, empty sections"},
    {"id": "C19_N1_gen", "theorem": "Iora.C19.N1_gen_shape", "kind": "gen-conformance",
     "statement": "Gen tripwire (rfl): limit 255 counting the root label, jump bound 128 present, unterminated name is an error"},
    {"id": "C19_N3", "theorem": "Iora.C19.N3_parse_no_oob", "kind": "proved",
     "statement": "for arbitrary bytes parse never reads out of range: single reads (rd) AND bulk copies (copy: name.append, rdata.assign, AAAA memcpy, TXT/NAPTR strings) have the explicit outcome oob"},
    {"id": "C19_N3_name", "theorem": "Iora.C19.N3_name_no_oob", "kind": "proved", "statement": "decodeName never reads out of range, any offset"},
    {"id": "C19_N3_rdata", "theorem": "Iora.C19.N3_rdataName_no_oob", "kind": "proved", "statement": "decodeNameFromRdata never reads out of range, arbitrary arguments"},
    {"id": "C19_N4a", "theorem": "Iora.C19.N4_name_fuel", "kind": "proved", "statement": "decodeName never exhausts its fuel, arbitrary bytes"},
    {"id": "C19_N4a_visited", "theorem": "Iora.C19.N4_name_visited_safe", "kind": "proved",
     "statement": "the public decodeNameWithLoopDetection with ANY caller-supplied visited set: no out-of-range read, fuel never exhausted"},
    {"id": "C19_N4a_visited0", "theorem": "Iora.C19.N4_name_visited_empty", "kind": "proved", "statement": "with the empty visited set it is decodeName (rfl)"},
    {"id": "C19_N4a_const", "theorem": "Iora.C19.N4_name_iterations_constant", "kind": "proved", "statement": "that fuel is the constant 257: the cost of one name does not depend on the message"},
    {"id": "C19_N4b", "theorem": "Iora.C19.N4_parse_fuel", "kind": "proved", "statement": "parse never exhausts fuel"},
    {"id": "C19_N4d", "theorem": "Iora.C19.N4_message_rounds_linear", "kind": "proved",
     "statement": "5 * (question/record rounds parse executes) <= size + 11, whatever the header counts claim"},
    {"id": "C19_N4e", "theorem": "Iora.C19.N4_message_work_linear", "kind": "proved",
     "statement": "rounds * 3 names per round * 257 iterations per name <= ((size + 11) / 5) * 771: total name-loop work linear in the message size (3 names/round read off the model)"},
    {"id": "C19_N4c_self", "theorem": "Iora.C19.N4_self_pointer_rejected", "kind": "proved", "statement": "a self-pointing name is an error at every offset < 16384"},
    {"id": "C19_N4c_range", "theorem": "Iora.C19.N4_out_of_range_rejected", "kind": "proved", "statement": "a pointer to an offset >= size is an error"},
    {"id": "C19_N4f", "theorem": "Iora.C19.N4_rdata_error_drops_typed", "kind": "proved",
     "statement": "when a typed RDATA parser throws (loop / out-of-range pointer / truncation inside RDATA) the raw record is kept and the typed record omitted; the message is not rejected"},
    {"id": "C19_N2_A_refuted", "theorem": "Iora.C19.N2_A_refuted", "kind": "refuted", "finding": "F13A",
     "statement": "NOT (validateRdataSecurity never rejects a 4-byte A record): 192.32.0.0"},
    {"id": "C19_N2_A_witness", "theorem": "Iora.C19.N2_A_witness_rejected", "kind": "refuted", "finding": "F13A",
     "statement": "the complete well-formed response carrying A 192.32.0.0 is rejected as malicious"},
    {"id": "C19_N2_A_partial", "theorem": "Iora.C19.N2_A_partial", "kind": "partial", "finding": "F13A",
     "statement": "outside aRuleFires (192.x.0.0, x<64) every 4-byte A record passes and its typed form is its 4 octets"},
    {"id": "C19_N2_A_tight", "theorem": "Iora.C19.N2_A_carveout_tight", "kind": "proved", "finding": "F13A",
     "statement": "inside aRuleFires every 4-byte A record IS rejected: the carve-out is exactly what is lost"},
    {"id": "C19_N2_other", "theorem": "Iora.C19.N2_other_types_pass", "kind": "proved", "statement": "validateRdataSecurity rejects no record of any type other than A (F12/F13 repair)"},
    {"id": "C19_N2_gen", "theorem": "Iora.C19.N2_gen_shape", "kind": "gen-conformance", "statement": "Gen tripwire (rfl): validateRdataSecurity inspects type A only and has no size()-1 arithmetic"},
    {"id": "C19_N2_aaaa", "theorem": "Iora.C19.N2_aaaa_exact", "kind": "proved", "statement": "any 16 octets decode to exactly that AAAA address"},
    {"id": "C19_N2_txt", "theorem": "Iora.C19.N2_txt_exact", "kind": "proved", "statement": "any sequence of character strings decodes to exactly those strings"},
    {"id": "C19_N2_response", "theorem": "Iora.C19.N2_response", "kind": "partial", "finding": "F13A",
     "statement": "a response laid out per RFC 1035 4.1 with every question/owner name a WellFormedName (any compression; RFC length limit; <= 128 pointers per name) and no record tripping the A rule "
                  "parses to exactly its header, questions and records; typed = per-record typedSpec (characterised per type for every typed record type: A/AAAA/TXT/CNAME/PTR/MX/SRV/SOA/NAPTR)"},
    {"id": "C19_N2_rdata_name", "theorem": "Iora.C19.N2_rdata_name", "kind": "proved",
     "statement": "decodeNameFromRdata returns exactly the well-formed name and the offset behind it: ANY compression layout, no side condition (root name as a root label or as a "
                  "pointer to a root label, also the one in the last byte of the message: FC19f repaired)"},
    {"id": "C19_N2_gen_rdptr", "theorem": "Iora.C19.N2_gen_rdata_pointer", "kind": "gen-conformance",
     "statement": "Gen tripwire (rfl): the direct-pointer branch of decodeNameFromRdata tests `pointer < messageSize` (margin 0); the model's guard is DEFINED from this fact"},
    {"id": "C19_N2_typed_soa", "theorem": "Iora.C19.N2_typed_soa", "kind": "proved",
     "statement": "typed SOA = MNAME, RNAME (each compressed in any way) + exactly the five 32-bit numbers read behind them"},
    {"id": "C19_N2_typed_soa_values", "theorem": "Iora.C19.N2_typed_soa_values", "kind": "proved",
     "statement": "the same with RDATA = names ++ be32 serial ++ be32 refresh ++ be32 retry ++ be32 expire ++ be32 minimum: the typed record carries exactly those values"},
    {"id": "C19_N2_typed_naptr", "theorem": "Iora.C19.N2_typed_naptr", "kind": "proved",
     "statement": "typed NAPTR = order, preference, the three character strings (arbitrary octets, < 256 each) + the replacement name compressed in any way"},
    {"id": "C19_N2_gen_types", "theorem": "Iora.C19.N2_gen_type_numbers", "kind": "gen-conformance",
     "statement": "Gen tripwire: the record-type numbers the model's switch is written with are the values of enum class DnsType (A, AAAA, SRV, NAPTR, CNAME, MX, TXT, PTR, SOA, NS) and IN = 1"},
    {"id": "C19_N1_gen_enc", "theorem": "Iora.C19.N1_gen_encode_shape", "kind": "gen-conformance",
     "statement": "Gen tripwire (rfl): encodeName tests the 255-octet limit after the root label has been appended; the model's encoder is DEFINED from this fact"},
    {"id": "C19_N2_typed_a", "theorem": "Iora.C19.N2_typed_a", "kind": "proved", "statement": "typed A = its 4 octets"},
    {"id": "C19_N2_typed_aaaa", "theorem": "Iora.C19.N2_typed_aaaa", "kind": "proved", "statement": "typed AAAA = its 16 octets"},
    {"id": "C19_N2_typed_txt", "theorem": "Iora.C19.N2_typed_txt", "kind": "proved", "statement": "typed TXT = its character strings"},
    {"id": "C19_N2_typed_cname", "theorem": "Iora.C19.N2_typed_cname", "kind": "proved", "statement": "typed CNAME = the RDATA name, any compression within the limits"},
    {"id": "C19_N2_typed_ptr", "theorem": "Iora.C19.N2_typed_ptr", "kind": "proved", "statement": "typed PTR = the RDATA name, any compression within the limits"},
    {"id": "C19_N2_typed_mx", "theorem": "Iora.C19.N2_typed_mx", "kind": "proved", "statement": "typed MX = preference + exchange name (incl. the null MX `0 .` and a pointer to a root label), any compression within the limits"},
    {"id": "C19_N2_typed_srv", "theorem": "Iora.C19.N2_typed_srv", "kind": "proved", "statement": "typed SRV = priority, weight, port + target name (incl. target `.`), any compression within the limits"},
    {"id": "C19_N2_typed_none", "theorem": "Iora.C19.N2_typed_none", "kind": "proved", "statement": "types without a typed parser yield no typed record"},
    {"id": "C19_N6a", "theorem": "Iora.C19.N6_contained", "kind": "proved",
     "statement": "processResponse ends normally for arbitrary bytes and any pending set (every parser exception caught; nothing else can happen by N3)"},
    {"id": "C19_N6b", "theorem": "Iora.C19.N6_error_completes_by_first_two_bytes", "kind": "proved",
     "statement": "a rejected message of >= 2 bytes completes exactly the pending query keyed by its first two bytes with a parse error"},
    {"id": "C19_N6c", "theorem": "Iora.C19.N6_ok_completes", "kind": "proved",
     "statement": "an accepted message completes the pending query keyed by its first two bytes (= header id) with the parsed result"},
    {"id": "C19_N6t_seg", "theorem": "Iora.C19.N6_tcp_segmentation", "kind": "proved",
     "statement": "handleTcpData: EVERY segmentation of concat(be16 |m_i| ++ m_i) (messages non-empty, <= 65535, <= maxTcpBufferSize; no read trips the growth check) hands out exactly "
                  "the m_i, in order, each with exactly its bytes, no close, empty buffer afterwards"},
    {"id": "C19_N6t_seg_small", "theorem": "Iora.C19.N6_tcp_segmentation_small", "kind": "proved",
     "statement": "the same with the model-independent hypothesis |stream| <= maxTcpBufferSize instead of Fits"},
    {"id": "C19_N6t_exact", "theorem": "Iora.C19.N6_tcp_exact_size", "kind": "proved",
     "statement": "a message handed out by one loop round is exactly the len bytes behind its prefix, inside the buffer, 0 < len <= maxTcpBufferSize; 2 + len bytes are popped (no over-read)"},
    {"id": "C19_N6t_drain", "theorem": "Iora.C19.N6_tcp_loop_is_drain", "kind": "proved",
     "statement": "the while loop of handleTcpData is the generic greedy drain of Common/Framing over frameAt, a parser stable on every buffer"},
    {"id": "C19_N6t_zero", "theorem": "Iora.C19.N6_tcp_zero_length_closes", "kind": "proved", "statement": "a zero length prefix clears the buffer and closes the session"},
    {"id": "C19_N6t_overflow", "theorem": "Iora.C19.N6_tcp_overflow_closes", "kind": "proved", "statement": "a read that would grow the buffer beyond maxTcpBufferSize clears it and closes the session"},
    {"id": "C19_N6t_contained", "theorem": "Iora.C19.N6_tcp_contained", "kind": "proved",
     "statement": "handleTcpData ends normally for arbitrary bytes, session ids, buffers, session tables and pending sets"},
    {"id": "C19_N6u_contained", "theorem": "Iora.C19.N6_udp_contained", "kind": "proved", "statement": "handleUdpData likewise"},
    {"id": "C19_N6f_contained", "theorem": "Iora.C19.N6_udp_both_contained", "kind": "proved",
     "statement": "handleUdpData in transport mode Both (truncation -> TCP fallback) ends normally for arbitrary bytes and states"},
    {"id": "C19_N6f_once", "theorem": "Iora.C19.N6_tc_falls_back_once", "kind": "proved",
     "statement": "mode Both: a truncated UDP answer for a pending query that has not fallen back completes nothing, leaves the pending set unchanged, sets the flag and re-sends over TCP once"},
    {"id": "C19_N6s", "theorem": "Iora.C19.N6_other_servers_untouched", "kind": "proved",
     "statement": "a response from server:port s leaves every pending query addressed to another server:port pending (whatever its id) and adds none"},
    {"id": "C19_N6_gen_tcp", "theorem": "Iora.C19.N6_gen_tcp_shape", "kind": "gen-conformance",
     "statement": "Gen tripwire (rfl): the 13 reassembly steps of handleTcpData in source order (exact-size copy, processResponse(messageData.data(), messageLength), pop of 2 + messageLength), "
                  "the 65535 limit, QueryKey == over (queryId, server, port), DnsCacheKey == over (qname, qtype, qclass)"},
    {"id": "C19_N6_q_refuted", "theorem": "Iora.C19.N6_question_checked_refuted", "kind": "refuted", "finding": "FC19e",
     "statement": "NOT (a response is accepted for a pending query only if its question section is the asked question): processResponse keys by (id, server, port) only, "
                  "and DnsResolver caches the result under the asked question without comparing"},
    {"id": "C19_N5", "theorem": "Iora.C19.N5_served_only_fresh", "kind": "proved",
     "statement": "for every history and clock: a served answer was stored under the same normalised key, TTL > 0, now < t + ttl, key untouched since"},
    {"id": "C19_N5b", "theorem": "Iora.C19.N5_put_ttl_is_minimum", "kind": "proved", "statement": "the TTL of put is <= the TTL of every record of the result"},
    {"id": "C19_N5n", "theorem": "Iora.C19.N5_negative_ttl_le_soa", "kind": "proved",
     "statement": "with a typed SOA in the result the negative-caching TTL is <= SOA.MINIMUM and <= the SOA record's TTL"},
    {"id": "C19_N5n_fallback", "theorem": "Iora.C19.N5_negative_ttl_fallback", "kind": "proved",
     "statement": "only when NO typed SOA exists (malformed SOA RDATA: a well-formed one always has its typed record by N2_typed_soa) the TTL is the raw TTL of the first authority SOA, else the default"},
    {"id": "C19_N5c", "theorem": "Iora.C19.N5_key_iff", "kind": "proved", "statement": "same key iff same type, class and ASCII-lower-cased name"},
    {"id": "C19_N5d", "theorem": "Iora.C19.N5_zero_ttl_guard", "kind": "gen-conformance", "statement": "Gen tripwire (rfl): TTL 0 is never stored (F14 repair); expiry comparison is strict"},
    {"id": "C19_N5_lock", "theorem": "Iora.C19.N5_lock_skeleton", "kind": "gen-conformance",
     "statement": "Gen tripwire (rfl): set/get/remove/size and the purge sweep use _cache only inside the scope of a guard over _mutex"},
]
ANCHOR_FILES = ["include/iora/network/dns/dns_message.hpp", "include/iora/network/dns/dns_cache.hpp",
                "include/iora/util/expiring_cache.hpp", "include/iora/network/dns/dns_types.hpp", "include/iora/network/dns/dns_transport.hpp"]

T_A, T_NS, T_CNAME, T_SOA, T_PTR, T_MX, T_TXT, T_AAAA, T_SRV, T_NAPTR = 1, 2, 5, 6, 12, 15, 16, 28, 33, 35
TYPED = (T_A, T_CNAME, T_SOA, T_PTR, T_MX, T_TXT, T_AAAA, T_SRV, T_NAPTR)
MAX_NAME_WIRE = 254          # RFC 1035 2.3.4: 255 octets on the wire including the root label
MAX_JUMPS = 128              # the decoder's bound on compression pointers followed per name


# ================================================================== canonical dump (same format as the harness / driver)
def hx(b):
    return hexs(bytes(b))


def sep(xs):
    return ";".join(xs) if xs else "-"


def dotted(labels):
    return b".".join(labels)


def show_rr(r):
    return "%s:%d:%d:%d:%d:%s" % (hx(dotted(r["name"])), r["type"], r["cls"], r["ttl"], len(r["rdata"]), hx(r["rdata"]))


def show_typed(r):
    """Expected typed-record text from the generator's own description of the record (None = no typed record)."""
    n = hx(dotted(r["name"]))
    t, s, ttl = r["type"], r["spec"], r["ttl"]
    if s is None or s.get("typed_omitted"):
        return None
    if t == T_A:
        return "%s:%s:%d" % (n, ".".join(str(x) for x in s["addr"]), ttl)
    if t == T_AAAA:
        return "%s:%s:%d" % (n, hx(s["addr"]), ttl)
    if t == T_SRV:
        return "%s:%d:%d:%d:%s:%d" % (n, s["prio"], s["weight"], s["port"], hx(dotted(s["target"])), ttl)
    if t == T_NAPTR:
        return "%s:%d:%d:%s:%s:%s:%s:%d" % (n, s["order"], s["pref"], hx(s["flags"]), hx(s["service"]), hx(s["regexp"]), hx(dotted(s["repl"])), ttl)
    if t in (T_CNAME, T_PTR):
        return "%s:%s:%d" % (n, hx(dotted(s["target"])), ttl)
    if t == T_MX:
        return "%s:%d:%s:%d" % (n, s["pref"], hx(dotted(s["target"])), ttl)
    if t == T_TXT:
        return "%s:%s:%d" % (n, ",".join(hx(x) for x in s["texts"]) if s["texts"] else "~", ttl)
    if t == T_SOA:
        return "%s:%s:%s:%d:%d:%d:%d:%d:%d" % (n, hx(dotted(s["mname"])), hx(dotted(s["rname"])), s["serial"], s["refresh"], s["retry"], s["expire"], s["minimum"], ttl)
    return None


def show_msg(msg):
    h = msg["header"]
    f = h["flags"]
    out = "ok h=%d,%d,%d,%d,%d,%d,%d,%d,%d,%d,%d,%d,%d" % (h["id"], f >> 15 & 1, f >> 11 & 15, f >> 10 & 1, f >> 9 & 1, f >> 8 & 1, f >> 7 & 1, f >> 4 & 7, f & 15,
                                                         h["qd"], h["an"], h["ns"], h["ar"])
    out += " q=" + sep(["%s:%d:%d" % (hx(dotted(q["name"])), q["type"], q["cls"]) for q in msg["questions"]])
    for k in ("an", "ns", "ar"):
        out += " %s=%s" % (k, sep([show_rr(r) for r in msg[k]]))
    allr = msg["an"] + msg["ns"] + msg["ar"]
    for label, t in (("A", T_A), ("AAAA", T_AAAA), ("SRV", T_SRV), ("NAPTR", T_NAPTR), ("CNAME", T_CNAME), ("MX", T_MX), ("TXT", T_TXT), ("PTR", T_PTR), ("SOA", T_SOA)):
        out += " %s=%s" % (label, sep([x for x in (show_typed(r) for r in allr if r["type"] == t) if x is not None]))
    return out


# ================================================================== independent reference encoder + name compressor
class Enc:
    """Wire encoder with its own name compressor: pointers at any label boundary, pointers to pointers (chains), forward pointers."""

    def __init__(self, rng, p_compress, p_forward=0):
        self.rng = rng
        self.b = bytearray()
        self.sfx = {}          # suffix (tuple of labels) -> offsets at which an encoding of that suffix starts
        self.fix = []          # forward pointers to patch: (position, suffix)
        self.pc = p_compress   # percent
        self.pf = p_forward
        self.name_starts = []  # offsets at which a name was written (for the name-targeted mutations)
        self.n_ptr = 0
        self.n_high = 0        # pointers to offsets >= 0x0800
        self.n_fwd = 0
        self.n_rootptr = 0     # pointers to a root label
        self.max_chain = 0
        self.depth = {}        # offset -> pointer hops needed from there

    def _reg(self, sfx, off, depth):
        if off < 0x4000:
            self.sfx.setdefault(sfx, []).append(off)      # sfx == (): the offset of a root label (pointers to it are legal names too)
            self.depth[off] = depth

    def name(self, labels, compress=True):
        labels = [bytes(l) for l in labels]
        self.name_starts.append(len(self.b))
        starts = []
        i = 0
        n = len(labels)
        while i < n:
            sfx = tuple(labels[i:])
            here = len(self.b)
            if compress and sfx in self.sfx and self.rng.below(100) < self.pc:
                off = self.rng.choice(self.sfx[sfx])
                d = self.depth.get(off, 0) + 1
                starts.append((i, here))
                self.b += bytes([0xC0 | (off >> 8), off & 255])
                self.n_ptr += 1
                if off >= 0x0800:
                    self.n_high += 1
                self.max_chain = max(self.max_chain, d)
                for (j, pos) in starts:
                    self._reg(tuple(labels[j:]), pos, d)
                return
            if compress and self.pf and here < 0x3000 and self.rng.below(100) < self.pf:
                starts.append((i, here))
                self.fix.append((here, sfx))
                self.b += b"\xc0\x00"
                self.n_ptr += 1
                self.n_fwd += 1
                # do not register these positions: a later backward pointer to them is fine, but keep chains acyclic by construction
                return
            starts.append((i, here))
            self.b.append(len(labels[i]))
            self.b += labels[i]
            i += 1
        # the root: mostly the root label, sometimes (compressing encoders never do this, the wire format allows it) a POINTER to a root label
        if compress and () in self.sfx and self.rng.below(100) < self.pc // 6:
            off = self.rng.choice(self.sfx[()])
            d = self.depth.get(off, 0) + 1
            starts.append((n, len(self.b)))
            self.b += bytes([0xC0 | (off >> 8), off & 255])
            self.n_ptr += 1
            self.n_rootptr += 1
            self.max_chain = max(self.max_chain, d)
            for (j, pos) in starts:
                self._reg(tuple(labels[j:]), pos, d)
            return
        self._reg((), len(self.b), 0)
        self.b.append(0)
        for (j, pos) in starts:
            self._reg(tuple(labels[j:]), pos, 0)

    def u16(self, v):
        self.b += int(v).to_bytes(2, "big")

    def u32(self, v):
        self.b += int(v).to_bytes(4, "big")


def wire_len(labels):
    return sum(len(l) + 1 for l in labels)


LABEL_POOL = [b"com", b"org", b"example", b"www", b"mail", b"ns1", b"a", b"b", b"sip", b"_sip", b"_udp", b"_tcp", b"net", b"x", b"EXAMPLE", b"Com"]


def rand_label(rng):
    k = rng.below(20)
    if k < 12:
        return rng.choice(LABEL_POOL)
    if k < 15:
        return bytes(rng.choice(b"abcdefghijklmnopqrstuvwxyz0123456789-_") for _ in range(rng.range(1, 12)))
    if k < 16:
        return rng.bytes(rng.range(1, 8))                       # arbitrary octets: dots, NUL, >= 0xC0 inside a label are legal
    if k < 17:
        return rng.choice([b"a.b", b".", b"\x00", b"\xc0\x0c", b"\xff", b"A\xc3\xa9"])
    if k < 18:
        return bytes([rng.choice(b"abcxyz")]) * rng.choice([62, 63, 63, 61])
    return bytes(rng.choice(b"abcdefgh") for _ in range(rng.range(1, 30)))


def rand_name(rng, base=None, maxwire=MAX_NAME_WIRE):
    """A name as a label list; often shares a suffix with `base` (so the compressor has something to point at)."""
    if base is not None and rng.chance(2, 3):
        keep = rng.range(0, len(base))
        labels = [rand_label(rng) for _ in range(rng.choice([0, 1, 1, 2]))] + list(base[len(base) - keep:])
    else:
        labels = [rand_label(rng) for _ in range(rng.choice([0, 1, 2, 2, 3, 3, 4, 6]))]
    while wire_len(labels) > maxwire:
        labels.pop(0)
    return labels


def rand_ttl(rng):
    return rng.choice([0, 1, 30, 60, 300, 3600, 86400, 0x7FFFFFFF, 0x80000000, 0xFFFFFFFE, 0xFFFFFFFF, rng.below(100000), rng.below(2 ** 32)])


def rand_cstr(rng):
    k = rng.below(6)
    if k == 0:
        return b""
    if k == 1:
        return rng.bytes(rng.choice([1, 254, 255, 200]))
    if k == 2:
        return "héllo wörld ✓".encode("utf-8")
    return bytes(rng.choice(b"abcdefghijklmnopqrstuvwxyz =+!^$") for _ in range(rng.range(1, 20)))


def a_rule_fires(addr):
    """mirror of the recorded `validateRdataSecurity` rule for 4-byte A RDATA (Lean: Iora.Dns.aRuleFires): hypothesis H of N2_A_partial"""
    return addr[0] >= 0xC0 and ((addr[0] & 0x3F) << 8 | addr[1]) < 64 and addr[2] == 0 and addr[3] == 0


def emit_rr(enc, rng, r, compress_rdata=True):
    """Append record r (owner name, fixed fields, RDATA built from r['spec']); fills r['rdata'] with the exact RDATA bytes written."""
    enc.name(r["name"])
    enc.u16(r["type"])
    enc.u16(r["cls"])
    enc.u32(r["ttl"])
    lenpos = len(enc.b)
    enc.u16(0)
    start = len(enc.b)
    t, s = r["type"], r["spec"]
    if s is None or "raw" in s:
        enc.b += (s or {}).get("raw", b"")
    elif t == T_A or t == T_AAAA:
        enc.b += bytes(s["addr"])
    elif t in (T_CNAME, T_PTR, T_NS):
        enc.name(s["target"], compress_rdata)
    elif t == T_MX:
        enc.u16(s["pref"])
        enc.name(s["target"], compress_rdata)
    elif t == T_SRV:
        enc.u16(s["prio"]); enc.u16(s["weight"]); enc.u16(s["port"])
        enc.name(s["target"], compress_rdata)
    elif t == T_TXT:
        for x in s["texts"]:
            enc.b.append(len(x)); enc.b += x
    elif t == T_SOA:
        enc.name(s["mname"], compress_rdata)
        enc.name(s["rname"], compress_rdata)
        for k in ("serial", "refresh", "retry", "expire", "minimum"):
            enc.u32(s[k])
    elif t == T_NAPTR:
        enc.u16(s["order"]); enc.u16(s["pref"])
        for k in ("flags", "service", "regexp"):
            enc.b.append(len(s[k])); enc.b += s[k]
        enc.name(s["repl"], compress_rdata)
    n = len(enc.b) - start
    enc.b[lenpos:lenpos + 2] = n.to_bytes(2, "big")
    r["rdata_start"] = start
    r["rdata_len"] = n


def rand_record(rng, base, kinds=None):
    t = rng.choice(kinds or [T_A, T_A, T_AAAA, T_AAAA, T_CNAME, T_NS, T_PTR, T_MX, T_TXT, T_TXT, T_SOA, T_SRV, T_SRV, T_NAPTR, T_NAPTR, 99, 41, 65535])
    r = {"name": rand_name(rng, base), "type": t, "cls": rng.choice([1, 1, 1, 1, 3, 255, 0, 254]), "ttl": rand_ttl(rng), "spec": None}
    if t == T_A:
        addr = list(rng.bytes(4))
        k = rng.below(12)
        if k == 0:
            addr = [192, rng.choice([0, 1, 32, 63]), 0, 0]           # the recorded false rejection (finding F13A)
        elif k == 1:
            addr = rng.choice([[192, 64, 0, 0], [192, 63, 0, 1], [192, 63, 1, 0], [193, 0, 0, 0], [191, 255, 0, 0], [255, 255, 255, 255], [192, 168, 1, 1], [224, 0, 0, 1], [0, 0, 0, 0]])
        r["spec"] = {"addr": addr}
    elif t == T_AAAA:
        addr = rng.bytes(16)
        k = rng.below(6)
        if k == 0:
            addr = bytes([0xfe, 0x80] + [0] * 13 + [1])
        elif k == 1:
            addr = bytes([0xff, 0x02] + [0] * 13 + [rng.below(256)])
        elif k == 2:
            addr = bytes([0] * 10 + [0xff, 0xff]) + rng.bytes(4)   # v4-mapped (inet_ntop prints dotted quad)
        elif k == 3:
            addr = rng.choice([bytes(16), bytes(15) + b"\x01", bytes(12) + rng.bytes(4), b"\x20\x01\x0d\xb8" + bytes(12), b"\xff" * 16])
        r["spec"] = {"addr": addr}
    elif t in (T_CNAME, T_PTR, T_NS):
        r["spec"] = {"target": rand_name(rng, base)}
    elif t == T_MX:
        r["spec"] = {"pref": rng.below(65536), "target": rand_name(rng, base)}
    elif t == T_SRV:
        r["spec"] = {"prio": rng.below(65536), "weight": rng.below(65536), "port": rng.below(65536), "target": rand_name(rng, base)}
    elif t == T_TXT:
        r["spec"] = {"texts": [rand_cstr(rng) for _ in range(rng.choice([0, 1, 1, 2, 3]))]}
    elif t == T_SOA:
        r["spec"] = {"mname": rand_name(rng, base), "rname": rand_name(rng, base), "serial": rng.below(2 ** 32), "refresh": rng.below(2 ** 32),
                     "retry": rand_ttl(rng), "expire": rand_ttl(rng), "minimum": rand_ttl(rng)}
    elif t == T_NAPTR:
        r["spec"] = {"order": rng.below(65536), "pref": rng.below(65536), "flags": rng.choice([b"S", b"A", b"U", b"", b"s"]),
                     "service": rng.choice([b"SIP+D2U", b"SIP+D2T", b"E2U+sip", b""]), "regexp": rng.choice([b"", b"!^.*$!sip:info@example.com!", rand_cstr(rng)]),
                     "repl": rand_name(rng, base)}
    else:
        r["spec"] = {"raw": rng.bytes(rng.choice([0, 1, 4, 16, 40]))}
    return r


def fix_rdata_quirks(r, enc):
    """RDATA shapes that are well-formed but that the generator must not claim a typed record for (none known after the repairs)."""
    return r


def build_message(rng, p_compress=None, p_forward=None, nq=None, counts=None, kinds=None, ballast=0):
    """A well-formed response + the generator's own description of what it encodes."""
    pc = rng.choice([0, 30, 60, 90, 100]) if p_compress is None else p_compress
    pf = rng.choice([0, 0, 0, 5, 15]) if p_forward is None else p_forward
    enc = Enc(rng, pc, pf)
    base = rand_name(rng)
    nq = rng.choice([0, 1, 1, 1, 2]) if nq is None else nq
    an, ns, ar = counts or (rng.choice([0, 1, 2, 3, 5]), rng.choice([0, 0, 1, 2]), rng.choice([0, 0, 1, 3]))
    flags = rng.choice([0x8180, 0x8180, 0x8183, 0x8580, 0x8380, rng.below(65536)])
    hid = rng.below(65536)
    msg = {"header": {"id": hid, "flags": flags, "qd": nq, "an": an, "ns": ns, "ar": ar}, "questions": [], "an": [], "ns": [], "ar": []}
    enc.u16(hid); enc.u16(flags); enc.u16(nq); enc.u16(an); enc.u16(ns); enc.u16(0)
    arpos = 10
    for _ in range(nq):
        q = {"name": base if rng.chance(1, 2) else rand_name(rng, base), "type": rng.choice([1, 28, 33, 35, 255, 16, rng.below(65536)]), "cls": rng.choice([1, 1, 255, 3])}
        enc.name(q["name"])
        enc.u16(q["type"]); enc.u16(q["cls"])
        msg["questions"].append(q)
    first_rec = True
    for sec, cnt in (("an", an), ("ns", ns), ("ar", ar)):
        for _ in range(cnt):
            if ballast and first_rec:
                # opaque ballast record, then forget the names written so far: what follows is compressed against names at high offsets
                r = {"name": rand_name(rng, base), "type": 99, "cls": 1, "ttl": 1, "spec": {"raw": rng.bytes(ballast)}}
                emit_rr(enc, rng, r)
                msg[sec].append(r)
                enc.sfx.clear()
                first_rec = False
                continue
            r = rand_record(rng, base, kinds)
            emit_rr(enc, rng, r)
            msg[sec].append(r)
    # forward pointers: one plain additional record per pending suffix, then patch
    for (pos, sfx) in enc.fix:
        r = {"name": list(sfx), "type": T_A, "cls": 1, "ttl": 5, "spec": {"addr": [10, 0, 0, 1]}}
        off = len(enc.b)
        e2 = enc.pc
        enc.pc = 0
        saved_pf, enc.pf = enc.pf, 0
        emit_rr(enc, rng, r)
        enc.pc, enc.pf = e2, saved_pf
        if off >= 0x4000:
            return None
        enc.b[pos:pos + 2] = bytes([0xC0 | (off >> 8), off & 255])
        msg["ar"].append(r)
    msg["header"]["ar"] = len(msg["ar"])
    enc.b[arpos:arpos + 2] = len(msg["ar"]).to_bytes(2, "big")
    wire = bytes(enc.b)
    for sec in ("an", "ns", "ar"):
        for r in msg[sec]:
            r["rdata"] = wire[r["rdata_start"]:r["rdata_start"] + r["rdata_len"]]
    if len(wire) > 65535:
        return None
    msg["wire"] = wire
    msg["stats"] = {"pointers": enc.n_ptr, "forward": enc.n_fwd, "max_chain": enc.max_chain, "high_pointers": enc.n_high, "root_pointers": enc.n_rootptr}
    msg["name_starts"] = enc.name_starts
    return msg


def carve_out(msg):
    """decidable hypotheses of the partial theorems that this message does NOT satisfy -> finding ids"""
    out = set()
    for sec in ("an", "ns", "ar"):
        for r in msg[sec]:
            if r["type"] == T_A and r["spec"] and "addr" in r["spec"] and a_rule_fires(r["spec"]["addr"]):
                out.add("F13A")
    return out


# ================================================================== case generation: messages
def gen_valid_cases(rng, n):
    cases = []
    for i in range(n):
        msg = None
        while msg is None:
            msg = build_message(rng)
        trail = rng.bytes(rng.choice([0, 0, 0, 1, 7]))
        c = {"cat": "valid", "ops": ["parse " + hexs(msg["wire"] + trail)], "expect": [show_msg(msg)], "carve": sorted(carve_out(msg)),
             "stats": msg["stats"], "nrec": len(msg["an"]) + len(msg["ns"]) + len(msg["ar"])}
        cases.append(c)
        # RDATA name decoding on its own (private decodeNameFromRdata) for every record that holds a name: lockstep only
        if i % 3 == 0:
            ops = []
            for sec in ("an", "ns", "ar"):
                for r in msg[sec]:
                    if r["type"] in (T_CNAME, T_PTR, T_NS, T_MX, T_SRV, T_SOA, T_NAPTR) and r["rdata_len"] > 0:
                        o = {T_MX: 2, T_SRV: 6}.get(r["type"], 0)
                        ops.append("rdname %s %d %d %d" % (hexs(msg["wire"]), r["rdata_start"], rng.choice([o, o, 0, 1, r["rdata_len"] - 1, r["rdata_len"]]), r["rdata_len"]))
            if ops:
                cases.append({"cat": "rdname", "ops": ops[:6]})
    return cases


def gen_large_cases(rng, n):
    """Valid responses of 4 - 16 KB: owner and RDATA names point at offsets above 0x07FF / 0x0FFF / near 0x3FFF (every bit of
    the 14-bit pointer is exercised on well-formed input, in decodeName and in decodeNameFromRdata)."""
    cases = []
    for i in range(n):
        msg = None
        while msg is None:
            target = rng.choice([4500, 9000, 16000])
            # a first opaque record as ballast moves everything behind it to high offsets; names after it are fresh, so
            # later pointers target high offsets
            enc_counts = (rng.range(6, 14), rng.choice([0, 1, 2]), rng.choice([0, 2]))
            msg = build_message(rng, p_compress=rng.choice([90, 100]), p_forward=0, counts=enc_counts, ballast=target,
                                kinds=[T_CNAME, T_MX, T_SRV, T_PTR, T_NS, T_SOA, T_NAPTR, T_A, T_TXT])
        hi = msg["stats"]["high_pointers"]
        cases.append({"cat": "valid-large", "ops": ["parse " + hexs(msg["wire"])], "expect": [show_msg(msg)], "carve": sorted(carve_out(msg)),
                      "stats": msg["stats"], "size": len(msg["wire"]), "high_pointers": hi})
    return cases


def gen_name_cases(rng, n):
    """decodeName on buffers written by the reference compressor: expected (name, next) known exactly."""
    cases = []
    for i in range(n):
        enc = Enc(rng, rng.choice([50, 80, 100]))
        enc.b += rng.bytes(rng.choice([0, 3, 12]))
        names = []
        base = rand_name(rng)
        for _ in range(rng.range(1, 6)):
            nm = rand_name(rng, base)
            off = len(enc.b)
            enc.name(nm)
            names.append((off, nm, len(enc.b)))
            enc.b += rng.bytes(rng.choice([0, 0, 2, 5]))
        wire = bytes(enc.b)
        ops, exp = [], []
        for off, nm, nxt in names:
            ops.append("name %s %d" % (hexs(wire), off))
            exp.append("ok %s %d" % (hx(dotted(nm)), nxt))
        if i % 5 == 0:
            # the public decodeNameWithLoopDetection with a caller-supplied visited set: offsets of names of this buffer (a pointer to one of
            # them is then a "loop") and arbitrary 16-bit values; lockstep only (exp None), except the empty set = decodeName
            for off, nm, nxt in names[:2]:
                vs = sorted(set([rng.choice(names)[0] for _ in range(rng.choice([0, 1, 2]))] + [rng.below(65536) for _ in range(rng.choice([0, 1, 3]))]))
                ops.append("namev %s %d %s" % (hexs(wire), off, ",".join(map(str, vs)) if vs else "-"))
                exp.append("ok %s %d" % (hx(dotted(nm)), nxt) if not vs else None)
        cases.append({"cat": "name", "ops": ops, "expect": exp})
    return cases


def mutate(rng, wire, name_starts=()):
    w = bytearray(wire)
    k = rng.below(14)
    kind = "flip"
    ns = [o for o in name_starts if o + 2 <= len(w)]
    if ns and rng.chance(1, 4):
        # aim at a place the decoder will certainly read as a name
        o = rng.choice(ns)
        j = rng.below(6)
        if j == 0:
            kind = "name-self-pointer"
            w[o:o + 2] = bytes([0xC0 | (o >> 8) & 0x3F, o & 255])
        elif j == 1:
            kind = "name-pointer-cycle"
            o2 = rng.choice(ns)
            w[o:o + 2] = bytes([0xC0 | (o2 >> 8) & 0x3F, o2 & 255])
            w[o2:o2 + 2] = bytes([0xC0 | (o >> 8) & 0x3F, o & 255])
        elif j == 2:
            kind = "name-pointer-out-of-range"
            t = rng.choice([len(w), len(w) + 1, 0x3FFF, len(w) - 1])
            w[o:o + 2] = bytes([0xC0 | (t >> 8) & 0x3F, t & 255])
        elif j == 3:
            kind = "name-grow"          # prepend labels: total length beyond 253, or a label of 64
            extra = b"".join(bytes([63]) + bytes([rng.choice(b"pqr")]) * 63 for _ in range(rng.choice([1, 3, 4])))
            w[o:o] = extra if rng.chance(3, 4) else bytes([64]) + b"z" * 64
        elif j == 4:
            kind = "name-pointer-forward"
            o2 = rng.choice(ns)
            w[o:o + 2] = bytes([0xC0 | (o2 >> 8) & 0x3F, o2 & 255])
        else:
            kind = "name-cut"
            del w[o + 1:]
        return bytes(w), kind
    if k < 3 and w:
        for _ in range(rng.range(1, 3)):
            w[rng.below(len(w))] ^= 1 << rng.below(8)
    elif k < 5 and w:
        kind = "truncate"
        del w[rng.below(len(w)):]
    elif k < 6:
        kind = "insert"
        p = rng.below(len(w) + 1)
        w[p:p] = rng.bytes(rng.range(1, 4))
    elif k < 8 and len(w) >= 12:
        kind = "counts"
        f = rng.choice([4, 6, 8, 10])
        v = int.from_bytes(w[f:f + 2], "big") + rng.choice([1, 1, 2, 10, 65535 - int.from_bytes(w[f:f + 2], "big")])
        w[f:f + 2] = (v & 0xFFFF).to_bytes(2, "big")
    elif k < 10 and len(w) > 12:
        kind = "pointer"
        p = rng.range(12, len(w) - 1)
        tgt = rng.choice([p, max(p - 2, 0), 12, len(w), len(w) - 1, len(w) + 1, 0x3FFF, rng.below(len(w) + 4)])
        w[p:p + 2] = bytes([0xC0 | ((tgt >> 8) & 0x3F), tgt & 255])
    elif k < 11 and len(w) > 12:
        kind = "labellen"
        w[rng.range(12, len(w) - 1)] = rng.choice([0x3F, 0x40, 0x7F, 0x80, 0xBF, 0xC0, 0xFF, 0])
    elif k < 12 and len(w) > 14:
        kind = "rdlength"
        p = rng.range(12, len(w) - 2)
        w[p:p + 2] = rng.choice([b"\x00\x00", b"\x00\x01", b"\xff\xff", b"\x00\x04", b"\x00\x10"])
    elif k < 13 and w:
        kind = "byte"
        w[rng.below(len(w))] = rng.choice([0, 0xC0, 0xFF, 0x3F, 0x40, 1])
    else:
        kind = "drop"
        if w:
            del w[rng.below(len(w))]
    return bytes(w), kind


def gen_mutated_cases(rng, n):
    cases = []
    for i in range(n):
        msg = None
        while msg is None:
            msg = build_message(rng)
        w = msg["wire"]
        kinds = []
        for _ in range(rng.choice([1, 1, 2, 3])):
            w, k = mutate(rng, w, msg["name_starts"])
            kinds.append(k)
        cases.append({"cat": "mutated", "ops": ["parse " + hexs(w)], "mut": kinds})
        if i % 4 == 0:
            cases.append({"cat": "mutated-name", "ops": ["name %s %d" % (hexs(w), rng.below(len(w) + 2)) for _ in range(4)], "mut": kinds})
        if i % 5 == 0 and len(w) > 14:
            s = rng.below(len(w))
            l = rng.below(len(w) - s + 1)
            cases.append({"cat": "mutated-rdname", "ops": ["rdname %s %d %d %d" % (hexs(w), s, rng.below(l + 2), l)], "mut": kinds})
    for i in range(max(n // 10, 20)):
        cases.append({"cat": "random-bytes", "ops": ["parse " + hexs(rng.bytes(rng.choice([0, 1, 11, 12, 13, 17, 40, 100])))], "mut": ["random"]})
    return cases


def gen_transport_cases(rng, n):
    """N6: responses (valid, mutated, random, too short) handed to the real processResponse with a set of pending query ids."""
    cases = []
    for i in range(n):
        k = rng.below(10)
        msg = None
        while msg is None:
            msg = build_message(rng, counts=(rng.choice([0, 1, 2]), rng.choice([0, 1]), 0))
        w = msg["wire"]
        kinds = []
        if k < 4:
            pass
        elif k < 8:
            for _ in range(rng.choice([1, 2])):
                w, kd = mutate(rng, w, msg["name_starts"])
                kinds.append(kd)
        elif k < 9:
            w = rng.bytes(rng.choice([0, 1, 2, 3, 11, 12, 20]))
        else:
            w = w[:rng.choice([0, 1, 2, 5, 12])]
        wid = int.from_bytes(w[:2], "big") if len(w) >= 2 else None
        pend = set(rng.below(65536) for _ in range(rng.choice([0, 1, 2, 3])))
        if wid is not None and rng.chance(3, 4):
            pend.add(wid)
        if wid is not None and rng.chance(1, 6):
            pend.add(wid ^ 1)
        ops = ["resp %s %s %s" % (rng.choice(["udp", "tcp"]), ",".join(str(x) for x in sorted(pend)) if pend else "-", hexs(w))]
        cases.append({"cat": "transport", "ops": ops, "wire_id": wid, "pending": sorted(pend), "mut": kinds, "size": len(w)})
    return cases


# ================================================================== root-label pointers inside RDATA (FC19f) and other layout blind spots
def gen_rootptr_cases(rng, n):
    """Well-formed responses whose RDATA names END IN (or ARE) a compression pointer to a ROOT label: backward to the root octet of the
    question name, or FORWARD to the root label that is the very last byte of the message (`MX 0 .` / `CNAME .` as the last record).
    Also: a direct RDATA pointer to offset size-2 (a 1-label name ... no: `00` preceded by one octet), SOA records outside the authority section."""
    cases = []
    for i in range(n):
        enc = Enc(rng, 0, 0)
        base = rand_name(rng) or [b"a"]
        hid = rng.below(65536)
        flags = rng.choice([0x8180, 0x8183, 0x8580])
        counts = [rng.choice([0, 1, 2]), rng.choice([0, 1]), rng.choice([0, 1])]
        if sum(counts) == 0:
            counts[0] = 1
        tail_kind = rng.choice(["mx0", "mx0", "cname-root", "none"])     # what the last record of the message is
        msg = {"header": {"id": hid, "flags": flags, "qd": 1, "an": counts[0], "ns": counts[1], "ar": counts[2] + (tail_kind != "none")},
               "questions": [], "an": [], "ns": [], "ar": []}
        enc.u16(hid); enc.u16(flags); enc.u16(1); enc.u16(counts[0]); enc.u16(counts[1]); enc.u16(msg["header"]["ar"])
        q = {"name": base, "type": rng.choice([1, 6, 15, 33, 255]), "cls": 1}
        enc.name(base, False)
        enc.u16(q["type"]); enc.u16(q["cls"])
        msg["questions"].append(q)
        qroot = 12 + wire_len(base)                  # offset of the root label of the question name
        fwd = []                                     # positions of forward pointers to the last byte
        kinds_seen = []

        def put_name(labels):
            """labels, then the root written as: root label | pointer back to the question's root label | forward pointer to the last byte"""
            for l in labels:
                enc.b.append(len(l)); enc.b += l
            k = rng.choice(["label", "back", "back", "fwd", "fwd"]) if tail_kind != "none" else rng.choice(["label", "back", "back"])
            kinds_seen.append(k + ("-bare" if not labels else ""))
            if k == "label":
                enc.b.append(0)
            elif k == "back":
                enc.b += bytes([0xC0 | (qroot >> 8), qroot & 255])
            else:
                fwd.append(len(enc.b))
                enc.b += b"\xc0\x00"

        def short_name():
            return [rand_label(rng) for _ in range(rng.choice([0, 0, 1, 1, 2]))]

        for sec, cnt in zip(("an", "ns", "ar"), counts):
            for _ in range(cnt):
                t = rng.choice([T_CNAME, T_PTR, T_NS, T_MX, T_SRV, T_SOA, T_SOA, T_NAPTR])   # SOA in every section, not only authority
                r = {"name": rand_name(rng, base), "type": t, "cls": 1, "ttl": rand_ttl(rng), "spec": None}
                enc.name(r["name"], False)
                enc.u16(t); enc.u16(1); enc.u32(r["ttl"])
                lenpos = len(enc.b)
                enc.u16(0)
                start = len(enc.b)
                if t in (T_CNAME, T_PTR, T_NS):
                    r["spec"] = {"target": short_name()}
                    put_name(r["spec"]["target"])
                elif t == T_MX:
                    r["spec"] = {"pref": rng.below(65536), "target": short_name()}
                    enc.u16(r["spec"]["pref"]); put_name(r["spec"]["target"])
                elif t == T_SRV:
                    r["spec"] = {"prio": rng.below(65536), "weight": rng.below(65536), "port": rng.below(65536), "target": short_name()}
                    enc.u16(r["spec"]["prio"]); enc.u16(r["spec"]["weight"]); enc.u16(r["spec"]["port"]); put_name(r["spec"]["target"])
                elif t == T_SOA:
                    r["spec"] = {"mname": short_name(), "rname": short_name(), "serial": rng.below(2 ** 32), "refresh": rng.below(2 ** 32),
                                 "retry": rand_ttl(rng), "expire": rand_ttl(rng), "minimum": rand_ttl(rng)}
                    put_name(r["spec"]["mname"]); put_name(r["spec"]["rname"])
                    for k in ("serial", "refresh", "retry", "expire", "minimum"):
                        enc.u32(r["spec"][k])
                else:
                    r["spec"] = {"order": rng.below(65536), "pref": rng.below(65536), "flags": b"S", "service": b"SIP+D2U", "regexp": b"", "repl": short_name()}
                    enc.u16(r["spec"]["order"]); enc.u16(r["spec"]["pref"])
                    for k in ("flags", "service", "regexp"):
                        enc.b.append(len(r["spec"][k])); enc.b += r["spec"][k]
                    put_name(r["spec"]["repl"])
                nlen = len(enc.b) - start
                enc.b[lenpos:lenpos + 2] = nlen.to_bytes(2, "big")
                r["rdata_start"], r["rdata_len"] = start, nlen
                msg[sec].append(r)
        if tail_kind != "none":
            if tail_kind == "mx0":
                r = {"name": [b"b"], "type": T_MX, "cls": 1, "ttl": 60, "spec": {"pref": 0, "target": []}}
            else:
                r = {"name": [b"b"], "type": T_CNAME, "cls": 1, "ttl": 60, "spec": {"target": []}}
            enc.name(r["name"], False)
            enc.u16(r["type"]); enc.u16(1); enc.u32(60)
            rd = (b"\x00\x00" if tail_kind == "mx0" else b"") + b"\x00"
            enc.u16(len(rd))
            r["rdata_start"], r["rdata_len"] = len(enc.b), len(rd)
            enc.b += rd
            msg["ar"].append(r)
        last = len(enc.b) - 1
        for pos in fwd:
            enc.b[pos:pos + 2] = bytes([0xC0 | (last >> 8), last & 255])
        wire = bytes(enc.b)
        for sec in ("an", "ns", "ar"):
            for r in msg[sec]:
                r["rdata"] = wire[r["rdata_start"]:r["rdata_start"] + r["rdata_len"]]
        ops = ["parse " + hexs(wire)]
        exp = [show_msg(msg)]
        if i % 4 == 0:
            ops.append("parsev " + hexs(wire)); exp.append(exp[0])          # the public vector wrapper
        if fwd and i % 2 == 0:
            # decodeNameFromRdata on its own with RDATA = the two pointer bytes: target = size-1 (root label) -> the root name
            ops.append("rdname %s %d 0 2" % (hexs(wire), fwd[0])); exp.append("ok - 2")
        cases.append({"cat": "rootptr", "ops": ops, "expect": exp, "root_kinds": kinds_seen, "fwd": len(fwd)})
    # direct RDATA pointer to offset size-2: `01 'z'`?? no - to a one-octet label would need 3 bytes; size-2 holds `00` followed by one trailing octet
    for t, pre, grp in ((T_CNAME, b"", "CNAME"), (T_PTR, b"", "PTR"), (T_MX, b"\x00\x07", "MX")):
        for trailing in (0, 1, 2):
            owner = b"\x01a\x00"
            rd_start = 12 + len(owner) + 10
            total = rd_start + len(pre) + 2 + 1 + trailing          # RDATA, then a root label octet, then `trailing` more octets
            tgt = rd_start + len(pre) + 2
            rdata = pre + bytes([0xC0 | (tgt >> 8), tgt & 255])
            w = hdr(an=1) + owner + rr_fixed(t, 77, rdata) + b"\x00" + b"\x07" * trailing
            raw = "61:%d:1:77:%d:%s" % (t, len(rdata), hexs(rdata))
            groups = {k: "-" for k in ("A", "AAAA", "SRV", "NAPTR", "CNAME", "MX", "TXT", "PTR", "SOA")}
            groups[grp] = "61:7:-:77" if t == T_MX else "61:-:77"
            exp = "ok h=4660,1,0,0,0,1,1,0,0,0,1,0,0 q=- an=%s ns=- ar=- " % raw + " ".join("%s=%s" % (k, groups[k]) for k in ("A", "AAAA", "SRV", "NAPTR", "CNAME", "MX", "TXT", "PTR", "SOA"))
            cases.append({"cat": "rootptr", "tag": "type %d RDATA pointer to the root label at offset size-%d" % (t, 1 + trailing), "ops": ["parse " + hexs(w)], "expect": [exp],
                          "root_kinds": ["fwd-bare"], "fwd": 1})
    return cases


def gen_deep_chain_cases(rng, n):
    """Valid responses whose record OWNER and RDATA names reach their labels through pointer chains of 10 - 128 hops (inside whole
    messages, not only as bare `name` ops), and two 60 KB responses in the lockstep."""
    cases = []
    for i in range(n):
        hops = rng.choice([10, 17, 60, 100, 127, 128])
        # first record: opaque RDATA holding `03 'end' 00` and then a backward chain of `hops - 1` pointers
        owner = b"\x00"
        rd_start = 12 + len(owner) + 10
        body = bytearray(b"\x03end\x00")
        offs = [rd_start]
        for _ in range(hops - 1):
            off = rd_start + len(body)
            body += bytes([0xC0 | (offs[-1] >> 8), offs[-1] & 255])
            offs.append(off)
        head = offs[-1]
        ptr = bytes([0xC0 | (head >> 8), head & 255])           # following it = `hops` pointers in all
        recs = [owner + rr_fixed(99, 1, bytes(body))]
        raws = ["-:99:1:1:%d:%s" % (len(body), hexs(bytes(body)))]
        typed = {k: [] for k in ("A", "AAAA", "SRV", "NAPTR", "CNAME", "MX", "TXT", "PTR", "SOA")}
        # owner name through the chain + CNAME / MX RDATA through the chain
        recs.append(ptr + rr_fixed(T_CNAME, 30, ptr)); raws.append("656e64:5:1:30:2:%s" % hexs(ptr)); typed["CNAME"].append("656e64:656e64:30")
        mxrd = b"\x00\x05" + b"\x01m" + ptr
        recs.append(ptr + rr_fixed(T_MX, 31, mxrd)); raws.append("656e64:15:1:31:%d:%s" % (len(mxrd), hexs(mxrd))); typed["MX"].append("656e64:5:6d2e656e64:31")
        w = hdr(an=len(recs)) + b"".join(recs)
        exp = "ok h=4660,1,0,0,0,1,1,0,0,0,%d,0,0 q=- an=%s ns=- ar=- " % (len(recs), ";".join(raws)) + " ".join("%s=%s" % (k, sep(typed[k])) for k in ("A", "AAAA", "SRV", "NAPTR", "CNAME", "MX", "TXT", "PTR", "SOA"))
        if hops <= MAX_JUMPS - 0 and hops + 0 <= MAX_JUMPS:
            cases.append({"cat": "chain", "tag": "valid message, owner and RDATA names through %d pointers" % hops, "ops": ["parse " + hexs(w)], "expect": [exp], "hops": hops})
    for _ in range(2):
        msg = None
        while msg is None or len(msg["wire"]) < 50000:
            msg = build_message(rng, p_compress=90, p_forward=0, counts=(rng.range(8, 14), 1, 1), ballast=rng.choice([52000, 60000]),
                                kinds=[T_CNAME, T_MX, T_SRV, T_A, T_TXT, T_SOA])
        cases.append({"cat": "valid-large", "ops": ["parse " + hexs(msg["wire"])], "expect": [show_msg(msg)], "carve": sorted(carve_out(msg)),
                      "stats": msg["stats"], "size": len(msg["wire"]), "high_pointers": msg["stats"]["high_pointers"]})
    return cases


# ================================================================== TCP reassembly: the real handleTcpData / handleUdpData
def be16(n):
    return int(n).to_bytes(2, "big")


def cut(rng, stream, mode):
    """a segmentation of `stream`"""
    n = len(stream)
    if mode == "whole" or n == 0:
        return [stream]
    if mode == "bytes":
        return [stream[i:i + 1] for i in range(n)]
    if mode == "pairs":
        return [stream[i:i + 2] for i in range(0, n, 2)]
    k = rng.range(1, min(8, n))
    points = sorted(set(rng.range(1, n - 1) for _ in range(k))) if n > 2 else []
    out = []
    a = 0
    for pnt in points + [n]:
        out.append(stream[a:pnt])
        a = pnt
    if rng.chance(1, 5):
        out.insert(rng.below(len(out) + 1), b"")             # an empty read
    return out


def small_response(rng):
    k = rng.below(10)
    msg = None
    while msg is None:
        msg = build_message(rng, counts=(rng.choice([0, 1, 2]), rng.choice([0, 1]), 0))
    w = msg["wire"]
    if k < 6:
        return w
    if k < 8:
        w, _ = mutate(rng, w, msg["name_starts"])
        return w or b"\x00"
    if k < 9:
        return rng.bytes(rng.choice([1, 2, 3, 11, 12, 20]))
    return w[:rng.choice([1, 2, 5, 12])]


def gen_tcp_cases(rng, n):
    """Streams of length-prefixed responses through the REAL handleTcpData: every cut point (byte by byte), random cuts, several
    messages per read, cuts inside the length prefix; pending queries at three server:port pairs (same id at several servers);
    plus `dirty` histories: zero / oversize length prefixes, reads that overflow maxTcpBufferSize, unknown sessions, handleClose
    in mid-message, UDP datagrams in between."""
    cases = []
    SESS = {5: 0, 6: 1, 7: 2}
    for ci in range(n):
        if ci % 7 == 6:
            cases.append(gen_fallback_case(rng))
            continue
        dirty = ci % 4 == 3
        cap = rng.choice([65536, 65536, 65536, 4096, 700]) if not dirty else rng.choice([65536, 300, 64, 700])
        ops = ["t reset %d %s" % (cap, rng.choice(["udp", "tcp"]))]
        for sid, si in SESS.items():
            ops.append("t sess %d %d" % (sid, si))
        sid = rng.choice([5, 6, 7])
        srv = SESS[sid]
        msgs = []
        for _ in range(rng.choice([1, 2, 2, 3, 4])):
            m = small_response(rng)
            if 2 + len(m) > cap // 2:
                m = m[:max(1, cap // 4)]
            msgs.append(m)
        if rng.chance(1, 3) and len(msgs) >= 2 and len(msgs[0]) >= 2:
            msgs[1] = msgs[0][:2] + msgs[1][2:] if len(msgs[1]) >= 2 else msgs[1]      # the same id twice in one stream
        pend = set()
        for m in msgs:
            if len(m) >= 2:
                wid = int.from_bytes(m[:2], "big")
                if rng.chance(4, 5):
                    pend.add((wid, srv))
                if rng.chance(1, 3):
                    pend.add((wid, (srv + 1) % 3))           # same id pending at ANOTHER server: must stay pending
                if rng.chance(1, 8):
                    pend.add((wid ^ 1, srv))
        for _ in range(rng.choice([0, 1, 2])):
            pend.add((rng.below(65536), rng.below(3)))
        ops.append("t pend " + (",".join("%d@%d" % x for x in sorted(pend)) if pend else "-"))
        stream = b"".join(be16(len(m)) + m for m in msgs)
        if not dirty:
            mode = rng.choice(["bytes", "bytes", "pairs", "random", "random", "random", "whole", "two-per-read"]) if len(stream) <= 400 else rng.choice(["random", "random", "whole", "two-per-read"])
            if mode == "two-per-read":
                segs = []
                for j in range(0, len(msgs), 2):
                    segs.append(b"".join(be16(len(m)) + m for m in msgs[j:j + 2]))
            else:
                segs = cut(rng, stream, mode)
            # the growth check is per read: keep every read within the limit (hypothesis Fits of N6_tcp_segmentation)
            if len(stream) > cap:
                segs = [stream[j:j + cap // 4] for j in range(0, len(stream), cap // 4)]
            for sg in segs:
                ops.append("t tcp %d %s" % (sid, hexs(sg)))
            cases.append({"cat": "tcp", "ops": ops, "msgs": [hexs(m) for m in msgs], "srv": srv, "sid": sid, "pending": sorted(pend), "mode": mode, "cap": cap,
                          "n_msgs": len(msgs), "clean": True})
        else:
            kinds = []
            segs = cut(rng, stream, "random")
            for sg in segs:
                k = rng.below(12)
                if k == 0:
                    ops.append("t tcp %d %s" % (sid, hexs(b"\x00\x00" + rng.bytes(rng.choice([0, 3])))))            # zero length prefix
                    kinds.append("zero-length")
                elif k == 1:
                    big = cap + rng.choice([1, 2, 100])
                    if big <= 65535:
                        ops.append("t tcp %d %s" % (sid, hexs(be16(big))))                                      # announced length > maxTcpBufferSize
                        kinds.append("length>cap")
                elif k == 2 and cap <= 700:
                    ops.append("t tcp %d %s" % (sid, hexs(rng.bytes(cap + 1 - rng.choice([0, 0, 1])))))            # a read that trips (or just fits) the growth check
                    kinds.append("overflow")
                elif k == 3:
                    ops.append("t tcp 9 %s" % hexs(sg))                                                         # unknown session: popped and dropped
                    kinds.append("unknown-session")
                elif k == 4:
                    ops.append("t close %d" % sid)                                                              # handleClose in mid-stream
                    ops.append("t sess %d %d" % (sid, srv))
                    kinds.append("close")
                elif k == 5:
                    m = small_response(rng)
                    ops.append("t udp %d %s" % (rng.choice([5, 6, 7, 9]), hexs(m)))
                    kinds.append("udp")
                ops.append("t tcp %d %s" % (sid, hexs(sg)))
            cases.append({"cat": "tcp", "ops": ops, "srv": srv, "sid": sid, "pending": sorted(pend), "mode": "dirty", "cap": cap, "kinds": kinds, "clean": False,
                          "n_msgs": len(msgs)})
    return cases


def tiny_answer(hid, tc, rng):
    """a minimal well-formed answer with the given id; TC bit as asked"""
    flags = 0x8180 | (0x0200 if tc else 0)
    if rng.chance(1, 2):
        return hdr(hid, flags)
    return hdr(hid, flags, an=1) + b"\x01a\x00" + rr_fixed(T_A, 60, bytes([10, 0, 0, rng.below(256)]))


def gen_fallback_case(rng):
    """transport mode Both: truncated UDP answers (TC = 1) make processResponse re-send the query over TCP (sendTcpQuery on the scripted
    engine: sessions 1, 2, 3 are created on demand) instead of completing it; the TCP answer, a second truncated answer, non-truncated
    answers, answers from the wrong server, handleClose of the fallback session."""
    SESS = {5: 0, 6: 1, 7: 2}
    ops = ["t reset 65536 both"] + ["t sess %d %d" % kv for kv in SESS.items()]
    ids = [rng.below(65536) for _ in range(rng.choice([1, 2, 3]))]
    pend = set((i, rng.below(3)) for i in ids)
    if rng.chance(1, 2):
        i0, s0 = sorted(pend)[0]
        pend.add((i0, (s0 + 1) % 3))
    ops.append("t pend " + ",".join("%d@%d" % x for x in sorted(pend)))
    tc_ops = {}
    for _ in range(rng.range(3, 10)):
        hid, srv = rng.choice(sorted(pend))
        k = rng.below(10)
        usid = [s for s, v in SESS.items() if v == srv][0]
        if k < 5:
            tc_ops[len(ops)] = [hid, srv]
            ops.append("t udp %d %s" % (usid, hexs(tiny_answer(hid, True, rng))))
        elif k < 6:
            ops.append("t udp %d %s" % (usid, hexs(tiny_answer(hid, False, rng))))
        elif k < 8:
            m = tiny_answer(hid, rng.chance(1, 4), rng)
            ops.append("t tcp %d %s" % (rng.choice([1, 1, 2, 3]), hexs(be16(len(m)) + m)))       # the TCP answer on a fallback session (or one that does not exist yet)
        elif k < 9:
            ops.append("t close %d" % rng.choice([1, 2, 3]))
        else:
            ops.append("t pend %d@%d" % (hid, srv))
    return {"cat": "tcp", "ops": ops, "clean": False, "mode": "fallback", "kinds": ["tc-fallback"], "tc_ops": tc_ops, "n_msgs": 0, "srv": 0, "sid": 5,
            "pending": sorted(pend), "cap": 65536}


def monitor_tcp(c, impl):
    """N6 on the implementation's answers alone.  Reference = the SPEC of RFC 1035 4.2.2 applied to the whole stream (not an
    incremental reassembly): message i completes the pending query (first two bytes, server of the session) iff it is pending then."""
    bad = []
    events = []
    pend_now = None
    fell_back = set()
    tc_ops = {int(k): tuple(v) for k, v in (c.get("tc_ops") or {}).items()}
    for oi, (op, l) in enumerate(zip(c["ops"], impl)):
        if l.startswith("throw") or l.startswith("crash:") or l.startswith("ESCAPED"):
            return ["N6: a failure escapes the data callback (%s): %s -> %s" % ("heap over-read / sanitizer abort" if "crash" in l else "exception", op[:100], l[:80])]
        t = op.split()
        if t[1] in ("tcp", "udp", "pend", "close"):
            parts = l.split(" | ")
            ev = [] if parts[0] == "-" else parts[0].split(";")
            newp = parts[-1][len("pending="):]
            newp = set() if newp == "-" else set(tuple(int(y) for y in x.split("@")) for x in newp.split(","))
            if oi in tc_ops and pend_now is not None and tc_ops[oi] in pend_now and tc_ops[oi] not in fell_back:
                # mode Both, first truncated answer for a pending query: re-sent over TCP, NOT completed
                if any(e[0] in "RE" for e in ev) or sum(1 for e in ev if e[0] == "F") != 1 or tc_ops[oi] not in newp:
                    bad.append("N6f: a truncated UDP answer (TC=1, transport mode Both) for the pending query %d@%d must be retried over TCP exactly once and not completed: %s -> %s"
                               % (tc_ops[oi][0], tc_ops[oi][1], op[:80], l[:80]))
                fell_back.add(tc_ops[oi])
            if t[1] in ("tcp", "udp"):
                for e in ev:
                    f = e.split(":")
                    if f[0] in ("R", "E"):
                        key = tuple(int(y) for y in f[1].split("@"))
                        if pend_now is not None and key not in pend_now:
                            bad.append("N6: completed %s which was not pending: %s" % (f[1], op[:80]))
                        events.append((f[0], key))
                        fell_back.discard(key)
                    elif f[0] == "C":
                        events.append(("C", int(f[1])))
                if pend_now is not None and not newp <= pend_now:
                    bad.append("N6: the pending set grew during a data callback: %s" % op[:80])
            pend_now = newp
    if bad or not c.get("clean"):
        return bad
    srv = c["srv"]
    pending = set(tuple(x) for x in c["pending"])
    want = []
    for mh in c["msgs"]:
        m = unhex(mh)
        if len(m) >= 2:
            key = (int.from_bytes(m[:2], "big"), srv)
            if key in pending:
                pending.discard(key)
                want.append(key)
    got = [e[1] for e in events if e[0] in ("R", "E")]
    if any(e[0] == "C" for e in events):
        bad.append("N6t: a well-formed stream of %d length-prefixed messages (cut: %s) made the transport close the session" % (c["n_msgs"], c["mode"]))
    elif got != want:
        bad.append("N6t: a stream of %d length-prefixed messages (cut: %s) completed the queries %s, but the messages in it answer %s, in this order"
                   % (c["n_msgs"], c["mode"], ["%d@%d" % k for k in got], ["%d@%d" % k for k in want]))
    elif pend_now is not None and pend_now != pending:
        bad.append("N6t: pending set after the stream is %s, expected %s" % (sorted(pend_now), sorted(pending)))
    else:
        last = impl[-1].split(" | ")
        if len(last) == 3 and last[1] != "buf=0":
            bad.append("N6t: %s bytes are left in the reassembly buffer after a complete stream" % last[1][4:])
    return bad



def monitor_transport(c, impl):
    """N6 on the implementation's answer alone: nothing escapes the callback; at most one completion, and only of the query
    whose id is the first two bytes; every other pending query stays pending; a message that the decoder rejects completes with an error."""
    bad = []
    l = impl[0]
    if l.startswith("throw") or l.startswith("crash:"):
        return ["N6: a failure escapes the data callback: %s -> %s" % (c["ops"][0][:100], l[:80])]
    ev, _, pend = l.partition(" | pending=")
    left = [] if pend in ("-", "") else [int(x) for x in pend.split(",")]
    events = [] if ev == "-" else ev.split(";")
    if len(events) > 1:
        bad.append("N6: more than one completion for one message: %s" % l[:100])
    wid = c["wire_id"]
    for e in events:
        p = e.split(":")
        if wid is None or int(p[1]) != wid:
            bad.append("N6: completed query %s although the message's first two bytes are %s: %s" % (p[1], wid, c["ops"][0][:80]))
    want_left = [x for x in c["pending"] if x != wid]
    if wid is not None and wid in c["pending"] and not events:
        bad.append("N6: the pending query %d (id = first two bytes) was neither completed nor failed: %s" % (wid, c["ops"][0][:80]))
    if sorted(left) != sorted(want_left) and not bad:
        bad.append("N6: pending set afterwards is %s, expected %s: %s" % (left, want_left, c["ops"][0][:80]))
    return bad


def hdr(hid=0x1234, flags=0x8180, qd=0, an=0, ns=0, ar=0):
    return b"".join(int(x).to_bytes(2, "big") for x in (hid, flags, qd, an, ns, ar))


def rr_fixed(t, ttl, rdata, cls=1):
    return t.to_bytes(2, "big") + cls.to_bytes(2, "big") + ttl.to_bytes(4, "big") + len(rdata).to_bytes(2, "big") + rdata


def gen_gadget_cases(rng):
    """Malformed inputs with a definite verdict: loops / out-of-range pointers are ALWAYS errors at the name level."""
    cases = []

    def must_err(tag, wire, kind=None):
        cases.append({"cat": "gadget", "tag": tag, "ops": ["parse " + hexs(wire)], "must_err": True, "kind": kind})

    q_tail = b"\x00\x01\x00\x01"
    must_err("self-pointer qname", hdr(qd=1) + b"\xc0\x0c" + q_tail, "loop")
    must_err("two-pointer cycle", hdr(qd=1) + b"\xc0\x0e\xc0\x0c" + q_tail, "loop")
    must_err("label then pointer back", hdr(qd=1) + b"\x01a\xc0\x0c" + q_tail, "loop")
    must_err("three-cycle with labels", hdr(qd=1) + b"\x01a\xc0\x10" + b"\x01b\xc0\x14\x01c\xc0\x0c" + q_tail, "loop")
    for sz_delta in (0, 1, 2, 100):
        w = hdr(qd=1) + b"\xc0\x00" + q_tail
        tgt = len(w) + sz_delta
        w = hdr(qd=1) + bytes([0xC0 | (tgt >> 8), tgt & 255]) + q_tail
        must_err("pointer to size+%d" % sz_delta, w, "badPointer")
    must_err("pointer 0x3fff", hdr(qd=1) + b"\xff\xff" + q_tail, "badPointer")
    must_err("truncated pointer", hdr(qd=1) + b"\xc0", "bounds")
    must_err("pointer into header then garbage", hdr(hid=0x4141, qd=1) + b"\xc0\x00" + q_tail, None)   # follows 'AA' as a 65-byte label -> labelTooLong
    for b in (0x40, 0x7F, 0x80, 0xBF):
        must_err("label length %#x" % b, hdr(qd=1) + bytes([b]) + b"a" * 70 + b"\x00" + q_tail, "labelTooLong")
    must_err("label runs past the end", hdr(qd=1) + b"\x05ab", "bounds")
    must_err("unterminated qname at end", hdr(qd=1) + b"\x03abc", None)
    must_err("count exceeds content (qd)", hdr(qd=2) + b"\x01a\x00" + q_tail, None)
    must_err("count exceeds content (an)", hdr(an=1), None)
    must_err("count 65535", hdr(qd=65535, an=65535, ns=65535, ar=65535) + b"\x01a\x00" + q_tail, None)
    must_err("rdlength beyond message", hdr(an=1) + b"\x01a\x00" + b"\x00\x10\x00\x01\x00\x00\x00\x05\x00\x09abc", "bounds")
    must_err("truncated ttl", hdr(an=1) + b"\x01a\x00\x00\x01\x00\x01\x00\x00", "bounds")
    for n in range(0, 12):
        must_err("short header %d" % n, rng.bytes(n), "tooShort")
    # owner-name loops in each record section
    for sec in ("an", "ns", "ar"):
        must_err("owner loop in " + sec, hdr(**{sec: 1}) + b"\xc0\x0c" + rr_fixed(1, 5, b"\x01\x02\x03\x04"), "loop")
    # name length boundary (RFC 1035 2.3.4): 254 octets + root label = 255 accepted, more rejected
    for total, ok in ((252, True), (253, True), (254, True), (255, False), (256, False), (300, False)):
        labels = []
        left = total
        while left > 0:
            l = min(63, left - 1)
            if left - (l + 1) == 1:
                l -= 1
            labels.append(b"x" * l)
            left -= l + 1
        assert wire_len(labels) == total
        w = hdr(qd=1) + b"".join(bytes([len(l)]) + l for l in labels) + b"\x00" + q_tail
        if ok:
            exp = "ok h=4660,1,0,0,0,1,1,0,0,1,0,0,0 q=%s:1:1 an=- ns=- ar=- A=- AAAA=- SRV=- NAPTR=- CNAME=- MX=- TXT=- PTR=- SOA=-" % hx(dotted(labels))
            c = {"cat": "boundary", "tag": "name wire %d" % total, "ops": ["parse " + hexs(w)], "expect": [exp]}
            cases.append(c)
        else:
            cases.append({"cat": "boundary", "tag": "name wire %d" % total, "ops": ["parse " + hexs(w)], "must_err": True, "kind": "nameTooLong"})
        # the same name reached through a pointer after a prefix: the running length spans the jump
    for l in (62, 63, 64):
        w = hdr(qd=1) + bytes([l & 0xFF]) + b"y" * l + b"\x00" + q_tail
        if l <= 63:
            cases.append({"cat": "boundary", "tag": "label %d" % l, "ops": ["parse " + hexs(w)],
                          "expect": ["ok h=4660,1,0,0,0,1,1,0,0,1,0,0,0 q=%s:1:1 an=- ns=- ar=- A=- AAAA=- SRV=- NAPTR=- CNAME=- MX=- TXT=- PTR=- SOA=-" % hx(b"y" * l)]})
        else:
            cases.append({"cat": "boundary", "tag": "label %d" % l, "ops": ["parse " + hexs(w)], "must_err": True, "kind": "labelTooLong"})
    # loops / bad pointers INSIDE RDATA: the message is accepted, the raw record kept, the typed record omitted (stated exactly so)
    for t, pre in ((T_CNAME, b""), (T_PTR, b""), (T_MX, b"\x00\x0a"), (T_SRV, b"\x00\x01\x00\x02\x00\x03")):
        for tag, mk in (("self-loop", lambda off: bytes([0xC0 | (off >> 8), off & 255])), ("out-of-range", lambda off: b"\xff\xf0"),
                        ("label-loop", lambda off: b"\x01z" + bytes([0xC0 | (off >> 8), off & 255]))):
            owner = b"\x01a\x00"
            rd_start = 12 + len(owner) + 10
            name_off = rd_start + len(pre)
            rdata = pre + mk(name_off)
            w = hdr(an=1) + owner + rr_fixed(t, 77, rdata) + b"\x00\x00"
            raw = "61:%d:1:77:%d:%s" % (t, len(rdata), hexs(rdata))
            groups = {"A": "-", "AAAA": "-", "SRV": "-", "NAPTR": "-", "CNAME": "-", "MX": "-", "TXT": "-", "PTR": "-", "SOA": "-"}
            exp = "ok h=4660,1,0,0,0,1,1,0,0,0,1,0,0 q=- an=%s ns=- ar=- " % raw + " ".join("%s=%s" % (k, groups[k]) for k in ("A", "AAAA", "SRV", "NAPTR", "CNAME", "MX", "TXT", "PTR", "SOA"))
            cases.append({"cat": "gadget-rdata", "tag": "%s in type %d RDATA" % (tag, t), "ops": ["parse " + hexs(w)], "expect": [exp]})
    for t, pre, grp in ((T_CNAME, b"", "CNAME"), (T_PTR, b"", "PTR"), (T_MX, b"\x00\x0a", "MX")):
        rdata = pre + b"\x03abc"                     # labels run up to the end of the message, no root label
        w = hdr(an=1) + b"\x01a\x00" + rr_fixed(t, 77, rdata)
        exp = "ok h=4660,1,0,0,0,1,1,0,0,0,1,0,0 q=- an=61:%d:1:77:%d:%s ns=- ar=- A=- AAAA=- SRV=- NAPTR=- CNAME=- MX=- TXT=- PTR=- SOA=-" % (t, len(rdata), hexs(rdata))
        cases.append({"cat": "gadget-rdata", "tag": "unterminated name at the end of the message in type %d RDATA" % t, "ops": ["parse " + hexs(w)], "expect": [exp]})
    cases.append({"cat": "gadget", "tag": "unterminated name (decodeName)", "ops": ["name %s 12" % hexs(hdr() + b"\x03abc"), "name %s 12" % hexs(hdr() + b"\x03abc\x02de")],
                  "must_err": True, "kind": "unterminated"})
    # RDLENGTH 0 for every typed record type (F12 witnesses for TXT / AAAA)
    for t in (T_A, T_AAAA, T_TXT, T_CNAME, T_PTR, T_MX, T_SRV, T_SOA, T_NAPTR, T_NS, 99):
        w = hdr(an=1) + b"\x01a\x00" + rr_fixed(t, 60, b"")
        typed = {T_TXT: ("TXT", "61:~:60"), T_CNAME: ("CNAME", "61:-:60"), T_PTR: ("PTR", "61:-:60")}.get(t)
        groups = {k: "-" for k in ("A", "AAAA", "SRV", "NAPTR", "CNAME", "MX", "TXT", "PTR", "SOA")}
        if typed:
            groups[typed[0]] = typed[1]
        exp = "ok h=4660,1,0,0,0,1,1,0,0,0,1,0,0 q=- an=61:%d:1:60:0:- ns=- ar=- " % t + " ".join("%s=%s" % (k, groups[k]) for k in ("A", "AAAA", "SRV", "NAPTR", "CNAME", "MX", "TXT", "PTR", "SOA"))
        cases.append({"cat": "boundary", "tag": "rdlength 0 type %d" % t, "ops": ["parse " + hexs(w)], "expect": [exp]})
    # long pointer chains (prompt termination): every hop is a fresh target
    for hops in (10, 127, 128, 129, 200, 1500):
        body = bytearray(b"\x03end\x00")
        first = 12
        offs = [first]
        for i in range(hops):
            off = 12 + len(body)
            tgt = offs[-1]
            body += bytes([0xC0 | (tgt >> 8), tgt & 255])
            offs.append(off)
        start = offs[-1]
        w = hdr() + bytes(body)
        if hops <= MAX_JUMPS:
            cases.append({"cat": "chain", "tag": "chain of %d pointers" % hops, "ops": ["name %s %d" % (hexs(w), start)], "expect": ["ok %s %d" % (hx(b"end"), start + 2)]})
        else:       # beyond the documented bound on compression pointers per name (legal per RFC, refused by design: N1 hypothesis hops <= 128)
            cases.append({"cat": "chain", "tag": "chain of %d pointers" % hops, "ops": ["name %s %d" % (hexs(w), start)], "must_err": True, "kind": "tooManyJumps"})
        # and the same chain closed into a loop
        w2 = bytearray(w)
        w2[12:14] = bytes([0xC0 | (start >> 8), start & 255])
        cases.append({"cat": "chain", "tag": "closed chain of %d" % hops, "ops": ["name %s %d" % (hexs(bytes(w2)), start)], "must_err": True, "kind": "loop"})
    # amplification: many records whose owner names walk a 120-hop chain kept in the RDATA of a first opaque record
    nrec = 150
    shift = 1 + 10
    body2 = bytearray(b"\x01z\x00")
    offs = [12 + shift]
    for i in range(120):
        off = 12 + shift + len(body2)
        body2 += bytes([0xC0 | (offs[-1] >> 8), offs[-1] & 255])
        offs.append(off)
    recs = b"".join(bytes([0xC0 | (offs[-1] >> 8), offs[-1] & 255]) + rr_fixed(99, 1, b"") for _ in range(nrec))
    w = hdr(an=1 + nrec) + b"\x00" + rr_fixed(99, 1, bytes(body2)) + recs
    raws = ["-:99:1:1:%d:%s" % (len(body2), hexs(bytes(body2)))] + ["7a:99:1:1:0:-"] * nrec
    exp = "ok h=4660,1,0,0,0,1,1,0,0,0,%d,0,0 q=- an=%s ns=- ar=- A=- AAAA=- SRV=- NAPTR=- CNAME=- MX=- TXT=- PTR=- SOA=-" % (1 + nrec, ";".join(raws))
    cases.append({"cat": "chain", "tag": "150 records x 121-hop chain", "ops": ["parse " + hexs(w)], "expect": [exp]})
    return cases


# ------------------------------------------------------------------ queries (reference: RFC 1035 4.1.2 + the documented limits of encodeName)
def ref_encode_name(name):
    if name in (b"", b"."):
        return b"\x00", None
    labels = [l for l in name.split(b".") if l]
    for l in labels:
        if len(l) > 63:
            return None, "encLabel"
    enc = b"".join(bytes([len(l)]) + l for l in labels) + b"\x00"
    if len(enc) > 255:
        return None, "encName"
    return enc, None


def rand_text_name(rng):
    k = rng.below(12)
    if k == 0:
        return rng.choice([b"", b".", b"..", b"a.", b".a", b"a..b", b"a.b.", b"..."])
    if k == 1:
        return b".".join([b"x" * rng.choice([63, 64, 62])] + [b"com"])
    if k == 2:
        n = rng.choice([250, 251, 252, 253, 254, 255])     # presentation length around the limit (253 characters = 255 octets)
        parts = []
        left = n
        while left > 0:
            l = min(left, 50)
            parts.append(b"a" * l)
            left -= l + 1
        return b".".join(parts)
    labels = [rand_label(rng).replace(b".", b"-") for _ in range(rng.range(1, 5))]
    return b".".join(labels)


def gen_query_cases(rng, n):
    cases = []
    for i in range(n):
        nq = rng.choice([0, 1, 1, 1, 2, 3])
        qs = [(rand_text_name(rng), rng.choice([1, 28, 33, 35, 255, rng.below(65536)]), rng.choice([1, 255, 3])) for _ in range(nq)]
        rd = rng.below(2)
        hid = rng.range(1, 65535) if rng.chance(5, 6) else 0      # 0: the code generates the id; both sides print xxxx for it
        op = "query %d %d" % (rd, hid) + "".join(" %s %d %d" % (hexs(nm), t, c) for nm, t, c in qs)
        body = b""
        err = None
        for nm, t, c in qs:
            e, k = ref_encode_name(nm)
            if e is None:
                err = k
                break
            body += e + t.to_bytes(2, "big") + c.to_bytes(2, "big")
        if err:
            cases.append({"cat": "query", "ops": [op], "expect": ["err " + err]})
            continue
        wire = hdr(hid, 0x0100 if rd else 0, nq) + body
        qtxt = sep(["%s:%d:%d" % (hx(b".".join(l for l in nm.split(b".") if l)), t, c) for nm, t, c in qs])
        dump = "ok h=%d,0,0,0,0,%d,0,0,0,%d,0,0,0 q=%s an=- ns=- ar=- A=- AAAA=- SRV=- NAPTR=- CNAME=- MX=- TXT=- PTR=- SOA=-" % (hid, rd, nq, qtxt)
        if hid == 0:
            cases.append({"cat": "query", "ops": [op], "expect": ["xxxx" + hexs(wire)[4:]]})
        else:
            c = {"cat": "query", "ops": [op, "parse " + hexs(wire)], "expect": [hexs(wire), dump]}
            if rd == 1 and i % 3 == 0:
                # the public overloads: buildQuery(questions, id) sets RD; buildQuery(question, id) = one question
                c["ops"].append("queryd %d" % hid + "".join(" %s %d %d" % (hexs(nm), t, cl) for nm, t, cl in qs)); c["expect"].append(hexs(wire))
                if nq == 1:
                    c["ops"].append("query1 %d %s %d %d" % (hid, hexs(qs[0][0]), qs[0][1], qs[0][2])); c["expect"].append(hexs(wire))
            cases.append(c)
    for i in range(n // 2):
        nm = rand_text_name(rng)
        e, k = ref_encode_name(nm)
        c = {"cat": "encode", "ops": ["enc " + hexs(nm)], "expect": [hexs(e) if e is not None else "err " + k]}
        if e is not None:
            c["ops"].append("name %s 0" % hexs(e))
            c["expect"].append("ok %s %d" % (hx(b".".join(l for l in nm.split(b".") if l)), len(e)))
        cases.append(c)
    return cases


# ================================================================== cache histories + reference
def lower(b):
    return bytes(c + 32 if 65 <= c <= 90 else c for c in b)


def soa_msg(rng, hid, soa_ttl, minimum, with_soa=True, broken_soa=False, extra_ttls=()):
    """NXDOMAIN-style response: SOA in the authority section."""
    enc = Enc(rng, 100)
    enc.u16(hid); enc.u16(0x8183); enc.u16(0); enc.u16(len(extra_ttls)); enc.u16(1 if with_soa else 0); enc.u16(0)
    for t in extra_ttls:
        emit_rr(enc, rng, {"name": [b"x"], "type": T_A, "cls": 1, "ttl": t, "spec": {"addr": [1, 2, 3, 4]}})
    if with_soa:
        if broken_soa:
            emit_rr(enc, rng, {"name": [b"zone"], "type": T_SOA, "cls": 1, "ttl": soa_ttl, "spec": {"raw": b"\x00\x00" + bytes(10)}})   # too short: typed parse fails
        else:
            emit_rr(enc, rng, {"name": [b"zone"], "type": T_SOA, "cls": 1, "ttl": soa_ttl,
                               "spec": {"mname": [b"ns", b"zone"], "rname": [b"admin", b"zone"], "serial": 1, "refresh": 2, "retry": 3, "expire": 4, "minimum": minimum}})
    return bytes(enc.b)


def soa_rootptr_msg(hid, soa_ttl, minimum):
    """NXDOMAIN response whose SOA MNAME is a FORWARD pointer to the root label in the LAST byte of the message (the null MX `0 .`
    of an additional record) — the FC19f shape chained to the negative-caching TTL."""
    soa_rd_len = 2 + 1 + 20
    rec1_start = 12
    total = 12 + (3 + 10 + soa_rd_len) + (3 + 10 + 3)
    last = total - 1
    soa_rd = bytes([0xC0 | (last >> 8), last & 255]) + b"\x00" + b"".join(int(x).to_bytes(4, "big") for x in (1, 2, 3, 4, minimum))
    w = hdr(hid, 0x8183, 0, 0, 1, 1) + b"\x01z\x00" + rr_fixed(T_SOA, soa_ttl, soa_rd) + b"\x01b\x00" + rr_fixed(T_MX, 60, b"\x00\x00\x00")
    assert len(w) == total
    return w


def answer_msg(rng, hid, ttls):
    enc = Enc(rng, 100)
    enc.u16(hid); enc.u16(0x8180); enc.u16(0); enc.u16(len(ttls)); enc.u16(0); enc.u16(0)
    for i, t in enumerate(ttls):
        kind = rng.choice([T_A, T_AAAA, T_TXT, T_CNAME, T_MX])
        r = rand_record(rng, [b"h", b"example"], [kind])
        if kind == T_A:
            r["spec"] = {"addr": [10, 1, 2, 3]}
        r["ttl"] = t
        r["name"] = [b"h", b"example"]
        emit_rr(enc, rng, r)
    return bytes(enc.b)


def gen_cache_cases(rng, n):
    cases = []
    NAMES = [b"example.com", b"EXAMPLE.com", b"Example.COM", b"a.example.com", b"b", b"B", b"", b"x\xc3\x89", b"[", b"@", b"`", b"{",
             b"\xdd", b"\xfd", b"i", b"I", b"\xc0", b"\xe0"]       # 0xDD/0xFD: 'İ'/'ı' in ISO-8859-9 (a locale tolower maps 0xDD to 'i')
    for ci in range(n):
        default = rng.choice([300, 300, 60, 1, 0, 5])
        ops = ["c new %d" % default]
        now = 0
        cur_default = default
        ref = {}                    # key -> dict(id, t_put_ms, ttl_s)   (the SPEC: smallest record TTL / negative TTL, from put time)
        pending = []                # boundary instants worth visiting
        next_id = ci * 64 % 60000 + 1
        for step in range(rng.range(6, 28)):
            k = rng.below(100)
            nm = rng.choice(NAMES[:6]) if rng.chance(3, 4) else rng.choice(NAMES)
            qt = rng.choice([1, 1, 1, 28, 28, 33, 15, 6, 255, 0, 65535])
            qc = rng.choice([1, 1, 1, 255, 3, 0, 65535])
            key = (lower(nm), qt, qc)
            qtxt = "%s %d %d" % (hexs(nm), qt, qc)
            if k < 28:
                # time step: prefer a TTL boundary (t-1 ms, t, t+1 ms)
                if pending and rng.chance(4, 5):
                    b = rng.choice(pending)
                    t = b + rng.choice([-1, 0, 1, -1, 0, 1, 1000, -1000])
                else:
                    t = now + rng.choice([0, 1, 999, 1000, 1001, 4999, 5000, 59999, 60000, 300000, 299999, 86400000, 10 ** 9])
                if t < now:
                    t = now          # steady clock
                if t > 4400000000000:
                    t = now
                now = t
                ops.append("c t %d" % now)
            elif k < 50:
                hid = next_id; next_id += 1
                nt = rng.choice([0, 1, 1, 2, 3])
                ttls = [rng.choice([0, 1, 2, 5, 30, 60, 300, 3600, 0xFFFFFFFF, 0xFFFFFFFE, 0x7FFFFFFF, rng.range(1, 100)]) for _ in range(nt)]
                if rng.chance(1, 4) and ttls:
                    ops.append("c putmsg %s %s" % (qtxt, hexs(answer_msg(rng, hid, ttls))))
                else:
                    ops.append("c put %s %d %s" % (qtxt, hid, ",".join(map(str, ttls)) if ttls else "-"))
                ttl = min(ttls) if ttls else cur_default
                ref[key] = {"id": hid, "t": now, "ttl": ttl}
                pending.append(now + ttl * 1000)
            elif k < 62:
                hid = next_id; next_id += 1
                if rng.chance(1, 2):
                    ttl = rng.choice([0, 1, 5, 60, 300, 900, rng.range(1, 100)])
                    ops.append("c putneg %s %d %d %s" % (qtxt, hid, ttl, rng.choice(["-", "60", "5,9"])))
                else:
                    soa_ttl = rng.choice([0, 5, 60, 3600])
                    minimum = rng.choice([0, 1, 30, 60, 7200])
                    mode = rng.below(5)
                    if mode == 4:
                        w = soa_rootptr_msg(hid, soa_ttl, minimum)
                        ttl = min(soa_ttl, minimum)
                    elif mode == 0:
                        w = soa_msg(rng, hid, soa_ttl, minimum, with_soa=False)
                        ttl = cur_default
                    elif mode == 1:
                        w = soa_msg(rng, hid, soa_ttl, minimum, broken_soa=True)
                        ttl = soa_ttl                                   # untyped SOA: the code falls back to the record TTL
                    else:
                        w = soa_msg(rng, hid, soa_ttl, minimum)
                        ttl = min(soa_ttl, minimum)
                    ops.append("c putnegmsg %s %s" % (qtxt, hexs(w)))
                ref[key] = {"id": hid, "t": now, "ttl": ttl}
                pending.append(now + ttl * 1000)
            elif k < 86:
                ops.append("c get %s" % qtxt)
                e = ref.get(key)
            elif k < 91:
                ops.append("c remove %s" % qtxt)
                ref.pop(key, None)
            elif k < 94:
                ops.append("c clear %d" % rng.below(2))
                ref.clear()
            elif k < 96:
                cur_default = rng.choice([0, 1, 60, 300, 7])
                ops.append("c setdefault %d" % cur_default)
            elif k < 98:
                ops.append("c purge")
            else:
                ops.append("c stats")
        # sweep every key at the end, at the last boundary
        for key in list(ref.keys())[:4]:
            ops.append("c get %s %d %d" % (hexs(key[0]), key[1], key[2]))
        cases.append({"cat": "cache", "ops": ops})
    return cases


def monitor_cache(c, impl, bump=None):
    """Property N5 on the implementation's answers alone.  The reference is the SPEC, re-derived from the op texts: an entry stored
    under (lower-cased name, type, class) at time t with smallest record TTL / negative TTL s may be served only while now < t + s."""
    bad = []
    ref = {}
    now = 0
    cur_default = 300
    for op, l in zip(c["ops"], impl):
        if l.startswith("purge-stuck"):
            bad.append("MACHINERY: purge gate did not complete within 30 s: %s" % op[:80])     # load-sensitive: judged in run()
            break
        if l.startswith("throw") or l.startswith("crash:"):
            bad.append("N5: cache operation failed: %s -> %s" % (op[:80], l[:80]))
            break
        t = op.split()
        if t[1] == "new":
            cur_default = int(t[2]); ref = {}; now = 0
        elif t[1] == "t":
            now = int(t[2])
        elif t[1] == "setdefault":
            cur_default = int(t[2])
        elif t[1] == "clear":
            ref = {}
        elif t[1] in ("put", "putneg", "putmsg", "putnegmsg", "get", "remove"):
            key = (lower(unhex(t[2])), int(t[3]), int(t[4]))
            if t[1] == "remove":
                ref.pop(key, None)
            elif t[1] == "get":
                e = ref.get(key)
                a = l.split()
                if bump and e is not None and not e.get("unknown"):
                    d = now - (e["t"] + e["ttl"] * 1000)
                    if d in (-1, 0, 1):
                        bump("cache-get-at-expiry%+dms:%s" % (d, a[0] if a else "?"))
                    tq = op.split()
                    bump("cache-key-qtype:%s" % tq[3]); bump("cache-key-qclass:%s" % tq[4])
                if a and a[0] == "hit":
                    hid = int(a[1])
                    if e is None:
                        bad.append("N5: answer served for a question that has no cached entry under the same (lower-cased name, type, class): %s -> %s" % (op, l[:40]))
                    elif e.get("unknown"):
                        pass
                    elif hid != e["id"]:
                        bad.append("N5: answer %d served, but the entry stored last under this key is %d: %s" % (hid, e["id"], op))
                    elif not (now < e["t"] + e["ttl"] * 1000):
                        bad.append("N5: answer served at t=%d ms although it was stored at t=%d ms with smallest TTL %d s (expired at %d ms): %s"
                                   % (now, e["t"], e["ttl"], e["t"] + e["ttl"] * 1000, op))
            elif l.startswith("ok"):
                if t[1] == "put":
                    ttls = [] if t[6] == "-" else [int(x) for x in t[6].split(",")]
                    ref[key] = {"id": int(t[5]), "t": now, "ttl": min(ttls) if ttls else cur_default}
                elif t[1] == "putneg":
                    ref[key] = {"id": int(t[5]), "t": now, "ttl": int(t[6])}
                else:
                    ref[key] = ref_from_msg(unhex(t[5]), now, cur_default, t[1] == "putnegmsg")
            else:
                ref.pop(key, None)      # the message was rejected: nothing may be served from it (an older entry may legitimately remain)
                ref[key] = {"id": -1, "t": now, "ttl": 0, "unknown": True}
    return [b for b in bad]


# ================================================================== monitors for message cases
def monitor_msg(c, impl):
    bad = []
    for op, l in zip(c["ops"], impl):
        if l == "crash:timeout":
            bad.append("N4: decoding does not terminate promptly (watchdog): %s" % op[:120])
        elif l.startswith("throw") or l.startswith("crash:"):
            bad.append("N3: input makes the decoder crash / throw a foreign exception: %s -> %s" % (op[:90], l[:80]))
        elif not (l.startswith("ok") or l.startswith("err ") or l == "bad-op" or all(ch in "0123456789abcdef-x" for ch in l)):
            bad.append("N3: unexpected outcome: %s -> %s" % (op[:90], l[:80]))
    if bad:
        return bad
    if c.get("must_err") or c.get("must_err_ops"):
        for i, (op, l) in enumerate(zip(c["ops"], impl)):
            if c.get("must_err_ops") is not None and i not in c["must_err_ops"]:
                continue
            if not l.startswith("err "):
                pre = "N4j: more than 128 compression pointers in one name are followed" if c.get("kind") == "tooManyJumps" else "N4: malformed input"
                bad.append("%s (%s) is not reported as an error: %s -> %s" % (pre, c.get("tag", ""), op[:90], l[:80]))
    if "expect" in c and not c.get("carve"):
        tag = {"valid": "N2", "name": "N1", "query": "N1q", "encode": "N1", "boundary": "N2", "gadget-rdata": "N4", "chain": "N4", "corpus": "N2"}.get(c["cat"], "N2")
        for op, l, e in zip(c["ops"], impl, c["expect"]):
            if e is not None and l != e:
                bad.append("%s: decoded result differs from what the reference encoder encoded: %s -> got `%s` want `%s`" % (tag, op[:70], diff_snip(l, e), diff_snip(e, l)))
    return bad


def diff_snip(a, b):
    i = 0
    while i < min(len(a), len(b)) and a[i] == b[i]:
        i += 1
    return ("…" if i > 20 else "") + a[max(0, i - 20):i + 60]


# ================================================================== run
def confirm_timeouts(ctx, hb, part, solo=25):
    """A watchdog that expires on a BATCH of thousands of cases says little on a loaded host: the case it expired on is run again
    ALONE under a short watchdog; only a case that does not finish alone is reported as non-terminating (N4)."""
    out = []
    for c, impl, model in part:
        if any(l == "crash:timeout" for l in impl):
            c2 = dict(c)
            c2.pop("crash", None)
            (c3, impl2, model2), = ctx.lockstep("dns", hb, [c2], timeout=solo)
            if not any(l == "crash:timeout" for l in impl2):
                ctx.notes.append("a batch watchdog expired on a case that completes promptly when run alone (host load): not a finding")
                out.append((c3, impl2, model2))
                continue
        out.append((c, impl, model))
    return out


def replay(ctx):
    """Re-run the op list of a replay file on the real code and the model; exit 1 if the failure is still there."""
    obj = json.load(open(ctx.replay))
    ops = obj.get("ops") or []
    ctx.translate(["dns"])
    ctx.lake_build(MODULES)
    if not ops:
        print("replay: nothing to run (kind=%s): the broken obligation is %s" % (obj.get("kind"), json.dumps(obj.get("broken"))[:400]))
        return 1 if ctx.violations else 0
    transport = ops[0].startswith("resp ") or ops[0].startswith("t ")
    tcp = ops[0].startswith("t ")
    hb = ctx.build_harness("harness/c19_dns_transport.cpp" if transport else "harness/c19_dns.cpp", sanitize=True,
                           defines=[] if transport else ["_GLIBCXX_SANITIZE_VECTOR"])
    if not hb:
        return 1
    cat = obj.get("category") or ("cache" if ops[0].startswith("c ") else "corpus")
    if cat == "cost":
        out, rc, err = ctx.run_lines([hb], ["timed 3 " + hexs(_cost_gadget(0, 4700)), ops[0].replace("parse ", "timed 3 ")], timeout=300)
        print("benign: %s\ninput:  %s" % tuple((out + ["crash/timeout"] * 2)[:2]))
        try:
            base = max(int(out[0].split()[1]), 200); us = int(out[1].split()[1])
            still = us > 120 * base and us > 400000
        except (IndexError, ValueError):
            still = True
        print("replay: %s" % ("still failing" if still else "no longer failing"))
        return 1 if still else 0
    c = {"cat": cat, "ops": ops, "tag": obj.get("tag")}
    if obj.get("expected_by_reference"):
        c["expect"] = obj["expected_by_reference"]
    if tcp:
        for k in ("msgs", "srv", "sid", "pending", "mode", "cap", "clean", "n_msgs"):
            if k in obj:
                c[k] = obj[k]
    elif transport:
        w = unhex(ops[0].split()[3])
        c["wire_id"] = int.from_bytes(w[:2], "big") if len(w) >= 2 else None
        c["pending"] = [] if ops[0].split()[2] == "-" else [int(x) for x in ops[0].split()[2].split(",")]
    (c, impl, model), = ctx.lockstep("dns", hb, [c], timeout=120)
    for o, a, b in zip(ops, impl, model):
        print("op    %s\n impl  %s\n model %s" % (o[:200], a[:200], b[:200]))
    fails = monitor_tcp(c, impl) if tcp else monitor_transport(c, impl) if transport else (monitor_cache(c, impl) if cat == "cache" else monitor_msg(c, impl))
    for f in fails:
        print("PROPERTY FAILS:", f[:300])
    still = bool(fails) or impl != model
    print("replay: %s" % ("still failing" if still else "no longer failing"))
    import shutil
    shutil.rmtree(ctx.work, ignore_errors=True)
    return 1 if still else 0


def run(ctx: Ctx):
    if ctx.replay:
        return replay(ctx)
    quick = ctx.tier == "quick"
    scale = 1 if quick else 15
    rng = ctx.rng
    ctx.translate(["dns"])
    ok_build = ctx.lake_build(MODULES)
    if ok_build:
        ctx.audit(MODULES, OBLIGATIONS)
        if not quick:
            ctx.leanchecker(LEANCHECK)
    else:
        ctx.cov["obligations"] = len(OBLIGATIONS)
    import threading
    built = {}
    th = threading.Thread(target=lambda: built.__setitem__("t", ctx.build_harness("harness/c19_dns_transport.cpp", sanitize=True)))
    th.start()                                # the two sanitizer compiles run side by side
    hb = ctx.build_harness("harness/c19_dns.cpp", sanitize=True, defines=["_GLIBCXX_SANITIZE_VECTOR"])
    th.join()
    hbt = built.get("t")
    dist = {}
    carve_counts = {}
    known = [k for k in load_known_findings() if k.get("property") == ID and k["kind"] == "finding"]
    known_ids = {k.get("id") for k in known}
    if hb:
        corpus = load_corpus()
        cases = list(corpus)
        cases += gen_gadget_cases(rng.fork("gadget"))
        cases += gen_valid_cases(rng.fork("valid"), 4000 * scale)
        cases += gen_large_cases(rng.fork("large"), 60 * scale)
        cases += gen_rootptr_cases(rng.fork("rootptr"), 500 * scale)
        cases += gen_deep_chain_cases(rng.fork("deepchain"), 12 * scale)
        cases += gen_name_cases(rng.fork("name"), 800 * scale)
        cases += gen_mutated_cases(rng.fork("mut"), 6000 * scale)
        for k, c in enumerate(cases):
            # the public vector wrapper on mutated / truncated input too (spare capacity of the vector is poisoned: a wrapper handing
            # capacity() to the parser reads into it as soon as the counts exceed the content)
            if c["cat"] == "mutated" and k % 6 == 0 and c["ops"][0].startswith("parse "):
                c["ops"] = c["ops"] + ["parsev " + c["ops"][0][6:]]
        cases += gen_query_cases(rng.fork("query"), 600 * scale)
        cases += gen_cache_cases(rng.fork("cache"), 1000 * scale)
        # Phase 1: corpus, gadgets, chains (small, and the ones that would hang a decoder without loop detection) under a short
        # watchdog; later phases only run while nothing has timed out (a non-terminating decoder would otherwise cost the
        # watchdog time once per restart).
        first = [c for c in cases if c["cat"] in ("corpus", "gadget", "gadget-rdata", "chain", "boundary") or c.get("file")]
        rest = [c for c in cases if not (c["cat"] in ("corpus", "gadget", "gadget-rdata", "chain", "boundary") or c.get("file"))]
        probe = [c for c in first if c.get("tag") in ("self-pointer qname", "two-pointer cycle")]
        first = [c for c in first if c not in probe]
        res = []
        hung = False
        for c in probe:                      # a decoder without loop detection never returns from these two: find out in 15 s each
            if not hung:
                part = ctx.lockstep("dns", hb, [c], timeout=15)
                hung = any(l == "crash:timeout" for _, impl, _ in part for l in impl)
                res += part
        if not hung:
            part = confirm_timeouts(ctx, hb, ctx.lockstep("dns", hb, first + [{"cat": "counters", "ops": ["counters"]}], timeout=60))
            hung = any(l == "crash:timeout" for _, impl, _ in part for l in impl)
            res += part
        else:
            ctx.notes.append("corpus and gadget cases not run: the decoder does not terminate on a pointer loop")
        chunk = 4000
        for i in range(0, len(rest), chunk):
            if hung:
                ctx.notes.append("%d generated cases not run: the decoder did not terminate on an earlier input" % (len(rest) - i))
                break
            # every batch is one harness process: its branch counters (evidence only) are read by a last pseudo-case and summed
            part = confirm_timeouts(ctx, hb, ctx.lockstep("dns", hb, rest[i:i + chunk] + [{"cat": "counters", "ops": ["counters"]}], timeout=120 if quick else 400))
            hung = any(l == "crash:timeout" for _, impl, _ in part for l in impl)
            res += part
        n_mismatch = 0
        skipped_after_crash_cap = 0
        ptr_total = fwd_total = high_ptr = root_ptr = 0
        max_chain = 0
        branch = {}                  # measured from the implementation's answers: which branches the correspondence run reached

        def bump(k, n=1):
            branch[k] = branch.get(k, 0) + n
        GROUPS = (("A", T_A), ("AAAA", T_AAAA), ("SRV", T_SRV), ("NAPTR", T_NAPTR), ("CNAME", T_CNAME), ("MX", T_MX), ("TXT", T_TXT), ("PTR", T_PTR), ("SOA", T_SOA))
        machinery = []
        mut_kinds = {}
        outcome = {}
        for c, impl, model in res:
            if c["cat"] == "counters":
                continue
            dist[c["cat"]] = dist.get(c["cat"], 0) + 1
            if "stats" in c:
                ptr_total += c["stats"]["pointers"]; fwd_total += c["stats"]["forward"]; max_chain = max(max_chain, c["stats"]["max_chain"])
                high_ptr += c["stats"].get("high_pointers", 0)
                root_ptr += c["stats"].get("root_pointers", 0)
            if c["cat"] == "rootptr":
                for k in c.get("root_kinds", []):
                    bump("rdata-name-root:" + k)
            if c["cat"] == "chain" and c.get("hops"):
                bump("valid-message-chain-hops:%d" % c["hops"])
            if c["cat"] == "valid-large" and c.get("size", 0) > 50000:
                bump("lockstep-message>50KB")
            for op, l in zip(c["ops"], impl):
                if l.startswith("ok h=") and c["cat"] != "cache":
                    # typed records decoded per type / typed parser threw (raw record of a typed type without its typed record)
                    f = dict(x.split("=", 1) for x in l.split(" ")[1:] if "=" in x)
                    raws = [r.split(":") for sec in ("an", "ns", "ar") for r in (f.get(sec, "-").split(";") if f.get(sec, "-") != "-" else [])]
                    for g, tn in GROUPS:
                        nt = 0 if f.get(g, "-") == "-" else len(f[g].split(";"))
                        nr = sum(1 for r in raws if len(r) > 1 and r[1] == str(tn))
                        if nt:
                            bump("typed-decoded:" + g, nt)
                        if nr > nt:
                            bump("typed-parser-threw:" + g, nr - nt)
                    if f.get("ns", "-") == "-" and f.get("SOA", "-") != "-":
                        bump("soa-outside-authority")
                    hf = f.get("h", "").split(",")
                    if len(hf) > 4 and hf[4] == "1":
                        bump("tc-bit-set")
                if c["cat"] == "cache" and op.startswith("c get"):
                    bump("cache-get:" + l.split()[0])
            for k in c.get("mut", []):
                mut_kinds[k] = mut_kinds.get(k, 0) + 1
            for l in impl:
                key = l.split()[0] + (" " + l.split()[1] if l.startswith("err ") else "") if l else "?"
                if key and all(ch in "0123456789abcdefx" for ch in key):
                    key = "hex"
                outcome[key] = outcome.get(key, 0) + 1
            ctx.count_case("\n".join(c["ops"]), nontrivial=any(not l.startswith("err tooShort") for l in impl))
            if c["cat"] in ("valid", "cache", "mutated") and len(ctx.cov["samples"]) < 6 and ctx.rng.chance(1, 200):
                ctx.sample({"cat": c["cat"], "ops": [o[:200] for o in c["ops"][:5]], "impl": [l[:200] for l in impl[:5]]})
            if any(l == "crash:too-many-crashes" for l in impl):
                skipped_after_crash_cap += 1          # the harness was not run on this case at all (vlib's crash cap): nothing to judge
                continue
            if c["cat"] == "counters":
                continue
            fails = monitor_cache(c, impl, bump) if c["cat"] == "cache" else monitor_msg(c, impl)
            if fails and fails[0].startswith("MACHINERY"):
                # the purge gate of the HARNESS timed out (load-sensitive): only a solo reproduction makes it a finding about the code
                out2, rc2, _ = ctx.run_lines([hb], c["ops"], timeout=300)
                if any(l.startswith("purge-stuck") for l in out2):
                    fails = ["N5: the purge thread does not complete a sweep within 30 s even when the history is run alone: %s" % c["ops"][-1][:80]]
                else:
                    machinery.append(fails[0])
                    continue
            mism = [(i, a, b) for i, (a, b) in enumerate(zip(impl, model)) if a != b]
            if c.get("carve"):
                # hypothesis of a partial theorem fails on this input: counted under the finding iff it is listed (DESIGN 5.3)
                for fid in c["carve"]:
                    carve_counts[fid] = carve_counts.get(fid, 0) + 1
                    if fid not in known_ids and not impl[0].startswith("ok"):
                        report_property(ctx, hb, c, impl, model, ["N2: well-formed input rejected (finding %s is not listed in KNOWN_FINDINGS.txt): %s -> %s"
                                                                   % (fid, c["ops"][0][:80], impl[0][:60])])
            if fails:
                report_property(ctx, hb, c, impl, model, fails)
            elif mism:
                n_mismatch += 1
                if n_mismatch <= 3:
                    i, a, b = mism[0]
                    ctx.violation("correspondence", "model and implementation disagree (no property monitor fails on this case): op `%s` impl=`%s` model=`%s`"
                                  % (c["ops"][i][:120], diff_snip(a, b), diff_snip(b, a)),
                                  {"broken": {"correspondence": "dns lockstep (harness/c19_dns.cpp vs Model/Dns.lean, Model/DnsCache.lean)",
                                              "detail": "first differing op index %d, category %s" % (i, c["cat"])},
                                   "ops": c["ops"], "observed": impl, "expected_by_model": model}, found_input=False)
        if skipped_after_crash_cap:
            ctx.notes.append("%d cases not judged: the harness crashed more than 50 times and ctx.lockstep stopped restarting it" % skipped_after_crash_cap)
        if hbt and not hung:
            tcases = gen_transport_cases(rng.fork("transport"), 1500 * scale)
            for c, impl, model in ctx.lockstep("dns", hbt, tcases, timeout=120 if quick else 600):
                dist[c["cat"]] = dist.get(c["cat"], 0) + 1
                ctx.count_case(c["ops"][0], nontrivial=not impl[0].startswith("- |"))
                if impl[0] == "crash:too-many-crashes":
                    continue
                fails = monitor_transport(c, impl)
                if fails:
                    report_property(ctx, hbt, c, impl, model, fails)
                elif impl != model:
                    n_mismatch += 1
                    if n_mismatch <= 3:
                        ctx.violation("correspondence", "model and implementation disagree on processResponse: op `%s` impl=`%s` model=`%s`"
                                      % (c["ops"][0][:120], impl[0][:100], model[0][:100]),
                                      {"broken": {"correspondence": "dns lockstep (harness/c19_dns_transport.cpp vs Model/DnsTransport.lean)"},
                                       "ops": c["ops"], "observed": impl, "expected_by_model": model}, found_input=False)
        if hbt and not hung:
            tcp_cases = []
            for fn in sorted(os.listdir(corpus_dir())) if os.path.isdir(corpus_dir()) else []:
                if fn.endswith(".json"):
                    cc = json.load(open(os.path.join(corpus_dir(), fn)))
                    if cc.get("cat") == "tcp":
                        cc["file"] = fn
                        cc.setdefault("mode", "corpus")
                        tcp_cases.append(cc)
            tcp_cases += gen_tcp_cases(rng.fork("tcp"), 700 * scale)
            tcp_cases.append({"cat": "counters", "ops": ["t counters"]})
            modes = {}
            for c, impl, model in ctx.lockstep("dns", hbt, tcp_cases, timeout=150 if quick else 900):
                if c["cat"] == "counters":
                    ctx.extra["transport_counters"] = dict(zip(("tcp_reads", "udp_reads", "completions", "closes", "tcp_fallback_resends", "results", "parse_errors", "reads_with_2+_completions"),
                                                               impl[0].split()[1:])) if impl and impl[0].startswith("counters") else impl
                    continue
                dist["tcp-" + ("clean" if c.get("clean") else "dirty")] = dist.get("tcp-" + ("clean" if c.get("clean") else "dirty"), 0) + 1
                modes[c["mode"]] = modes.get(c["mode"], 0) + 1
                for k in c.get("kinds", []):
                    bump("tcp-dirty:" + k)
                ctx.count_case("\n".join(c["ops"]), nontrivial=any(("R:" in l or "E:" in l or "C:" in l) for l in impl))
                if any(l == "crash:too-many-crashes" for l in impl):
                    continue
                for l in impl:
                    ev = l.split(" | ")[0]
                    if ev != "-" and not ev.startswith("ok"):
                        for e in ev.split(";"):
                            bump("transport-event:" + e[0])
                        if sum(1 for e in ev.split(";") if e[0] in "RE") >= 2:
                            bump("tcp-read-completing-2+-queries")
                    elif " | buf=" in l:
                        bump("transport-event:none")
                fails = monitor_tcp(c, impl)
                if fails:
                    report_property(ctx, hbt, c, impl, model, fails)
                elif impl != model:
                    n_mismatch += 1
                    if n_mismatch <= 3:
                        i = next(i for i, (a, b) in enumerate(zip(impl, model)) if a != b)
                        ctx.violation("correspondence", "model and implementation disagree on handleTcpData/handleUdpData: op `%s` impl=`%s` model=`%s`"
                                      % (c["ops"][i][:120], impl[i][:100], model[i][:100]),
                                      {"broken": {"correspondence": "dns lockstep (harness/c19_dns_transport.cpp vs Model/DnsTcp.lean)"},
                                       "ops": c["ops"], "observed": impl, "expected_by_model": model}, found_input=False)
            ctx.extra["tcp_segmentation_modes"] = modes
        if machinery:
            ctx.notes.append("%d cache histories not judged: harness purge gate timed out under load, not reproduced solo" % len(machinery))
        if not hung:
            cost_monitor(ctx, hb)
        ctx.extra["generator"] = {"pointers_emitted": ptr_total, "forward_pointers": fwd_total, "longest_pointer_chain_in_valid_messages": max_chain,
                                  "pointers_to_offsets_above_0x07ff_in_valid_messages": high_ptr, "pointers_to_a_root_label_in_valid_messages": root_ptr,
                                  "branches_reached": dict(sorted(branch.items())),
                                  "mutation_kinds": mut_kinds, "impl_outcomes": dict(sorted(outcome.items(), key=lambda kv: -kv[1])[:30])}
        # recorded finding F13A: replay its witness against the real code
        replay_known(ctx, hb, known_ids, carve_counts, hbt)
        hc = {}
        for c, impl, _ in res:
            if c["cat"] == "counters" and impl and impl[0].startswith("counters"):
                for x in impl[0].split()[1:]:
                    k, v = x.split("=")
                    hc[k] = hc.get(k, 0) + int(v)
        ctx.extra["harness_counters"] = hc
        out, rc, err = ctx.run_lines([hb], ["c new 300", "c put 61 1 1 1 5", "c t 6000", "c purge", "c interposer"], timeout=60)
        ctx.extra["interposer_counts"] = out[-1] if out else "?"
        import re as _re
        mi = _re.match(r"clock_reads=(\d+) sweeps=(\d+)$", out[-1] if out else "")
        if not mi or int(mi.group(1)) < 3 or int(mi.group(2)) != 1 or out[3].split(" | ")[0] != "ok" or "n=0" not in out[3]:
            # the virtual clock / purge gate are the tie of every N5 case: if they do not fire, those cases prove nothing
            ctx.violation("correspondence", "interposers did not fire as expected (virtual steady clock / purge-thread gate): %s" % (out[-2:] if out else out),
                          {"broken": {"correspondence": "harness/c19_dns.cpp interposers", "detail": str(out)}}, found_input=False)
    ctx.extra["input_distribution"] = dist
    ctx.extra["partial_hypotheses"] = carve_counts
    ctx.extra["repo_tree_sha"] = ctx.repo_tree_sha(ANCHOR_FILES)
    ctx.extra["refuted"] = [{"statement": "Iora.C19.N2_A_statement", "finding": "F13A"}, {"statement": "Iora.C19.N6_question_checked_statement", "finding": "FC19e"}]
    ctx.extra["not_proved"] = NOT_PROVED
    gen_text = ""
    try:
        from vlib.core import LEAN as _LEAN
        gen_text = open(os.path.join(_LEAN, "IoraModel", "Gen", "Dns.lean")).read()
    except OSError:
        pass
    if "def lowerAsciiOnly : Bool := true" not in gen_text:
        ctx.assumptions.append("the process runs in the \"C\" locale: DnsCacheKey::fromQuestion calls <cctype> tolower, which equals the model's ASCII fold there only "
                               "(::tolower on a char >= 0x80 is undefined; an 8-bit Turkish locale maps 0xDD to 'i' and merges keys)")
    ctx.assumptions += ["steady_clock reading + TTL·10^9 < 2^63 ns (no overflow of the expiration time point; uptime far below 146 years)",
                        "DnsCache default TTL in [0, 2^32) seconds",
                        "AAAA text form: inet_ntop/inet_pton (libc) round-trip the 16 RDATA bytes; the harness canonicalises the text through inet_pton",
                        "message size < 2^63 (offset arithmetic is modelled in Nat; checkBounds cannot wrap)",
                        "server:port are part of the pending-query key (three servers in the lockstep); in transport mode Both the TCP connect/send of a fallback succeed (scripted engine)",
                        "cache operations %sare atomic steps: the translator checks on every run that each ExpiringCache method and the purge sweep use _cache only inside the scope of a "
                        "lock_guard/unique_lock over _mutex (Gen.cacheLockedMethods, N5_lock_skeleton); the purge thread is modelled as an operation of the history%s"
                        % (("", "") if "def clearSwapUnderLock : Bool := true" in gen_text else
                           ("other than clear ", "; DnsCache::clear replaces the cache_ pointer with NO lock (Gen.clearSwapUnderLock = false), so it is atomic only when no other "
                                                 "cache operation runs concurrently (the property's quantifier is sequences of operations)")),
                        "TCP: no single read trips the growth check buffer.size() + data.size() > maxTcpBufferSize (hypothesis Fits of N6_tcp_segmentation); messages are non-empty",
                        "names: at most 128 compression pointers are followed per name (documented bound DNS_MAX_COMPRESSION_JUMPS; longer chains, legal per RFC 1035, are rejected by design)"]
    return ctx.finish(level="proof", rule="a case = one op list (parse/name/rdname/enc/query ops on one generated or mutated message, or one cache history on a fresh DnsCache); "
                      "distinct = distinct op lists; non-trivial = at least one answer other than `err tooShort`")


NOT_PROVED = [
    "N6f: the TCP-fallback branch is modelled for the decision and the re-send (handleUdpDataBoth, sendTcpQuery's session lookup/connect); a failing connect()/send() inside sendTcpQuery "
    "(exception caught by processResponse, query completed with an error) and the timeout timers are not modelled",
    "N6t: N6_tcp_segmentation needs `Fits` (no single read trips buffer.size() + data.size() > maxTcpBufferSize); with the default limit 65536 a message of 65535 bytes "
    "(65537 with its prefix) can never be received — it closes the session (a rejection, allowed by the property; stated, not proved as a theorem)",
    "parse(): `reserve(count)` with header counts of 0xFFFF allocates 65535 x sizeof(record) per section before the first record fails (about 5 MB per section, at most four sections: "
    "bounded by a constant, not by the message size; allocation is not part of the model)",
    "DnsCache::clear swaps the cache_ unique_ptr without a lock (Gen.clearSwapUnderLock = false): clear || put/get on two threads is a data race; the property quantifies over "
    "SEQUENCES of operations, which the model and N5 cover; concurrent clear is outside it (observation, reachable via DnsClient::clearCache while queryAsync completes)",
    "inet_ntop text form of AAAA addresses (libc; the harness canonicalises through inet_pton)",
]


def _cost_gadget(hops, nrec):
    """One opaque record whose RDATA holds a FORWARD chain of `hops` pointers ending in `01 'z' 00`, then `nrec` records whose owner
    name is a pointer to the head of the chain: every record walks the whole chain."""
    shift = 12 + 1 + 10
    body = bytearray()
    for i in range(hops):
        t = shift + 2 * (i + 1)
        body += bytes([0xC0 | (t >> 8), t & 255])
    body += b"\x01z\x00"
    recs = b"".join(bytes([0xC0 | (shift >> 8), shift & 255]) + rr_fixed(99, 1, b"") for _ in range(nrec))
    return hdr(an=1 + nrec) + b"\x00" + rr_fixed(99, 1, bytes(body)) + recs


def cost_monitor(ctx, hb):
    """N4 at message level, on the implementation alone (hook-free proxy for the number of loop iterations: wall time of
    DnsMessage::parse, best of 3, NORMALISED by the time of a benign message of the same size and record count in the same process).
    The model's theorem says work <= ((size + 11) / 5) * 771 iterations, i.e. a bounded multiple of the benign cost; a decoder whose
    work is records x chain length (no bound on pointers per name) is two orders of magnitude above."""
    benign = _cost_gadget(0, 4700)
    worst_legal = _cost_gadget(127, 4700)          # 128 pointers per owner name: the most a name may cost
    review = _cost_gadget(8172, 4098)              # the reviewer's counter-example: 4 098 records x 8 172-hop forward chain, 65 546 bytes
    ops = ["timed 3 " + hexs(benign), "timed 3 " + hexs(worst_legal), "timed 3 " + hexs(review)]
    out, rc, err = ctx.run_lines([hb], ops, timeout=120)
    tags = ["benign", "128 pointers per name x 4700 records", "8172-hop chain x 4098 records"]
    res = {}
    for tag, op, l in zip(tags, ops, out + ["crash:timeout" if rc == -999 else "crash:%s" % rc] * (len(ops) - len(out))):
        t = l.split()
        if not t or t[0] != "timed":
            ctx.violation("property", "N4: decoding does not terminate promptly (cost monitor, watchdog 120 s): %s -> %s" % (tag, l[:60]),
                          {"ops": [op.replace("timed 3 ", "parse ")], "observed": [l], "category": "cost"}, found_input=True, cls="property:N4-cost")
            return
        res[tag] = (int(t[1]), " ".join(t[2:]))
    base = max(res["benign"][0], 200)               # microseconds; floor against timer granularity
    ctx.extra["cost_monitor_us"] = {k: v[0] for k, v in res.items()}
    ctx.extra["cost_monitor_ratio"] = {k: round(v[0] / base, 1) for k, v in res.items()}
    for tag, op in zip(tags[1:], ops[1:]):
        us = res[tag][0]
        if us > 120 * base and us > 400000:
            ctx.violation("property", "N4: work is not linear in the message size: %s takes %.3f s, %d x the time of a benign message of the same size (bound from the model: a constant factor)"
                          % (tag, us / 1e6, us // base),
                          {"ops": [op.replace("timed 3 ", "parse ")], "observed": [out[tags.index(tag)]], "benign_us": base, "category": "cost"}, found_input=True,
                          cls="property:N4-cost")
    if not res["128 pointers per name x 4700 records"][1].startswith("ok"):
        ctx.violation("property", "N1: a well-formed response whose owner names follow 128 pointers each is rejected: %s" % res["128 pointers per name x 4700 records"][1],
                      {"ops": ["parse " + hexs(worst_legal)], "category": "cost"}, found_input=True)


RECORDED = {   # finding id -> (witness file, answer of the real code while the defect is present, text)
    "F13A": ("F13A-a-record-192-x-0-0.json", "err malicious",
             "well-formed A record 192.x.0.0 (x<64) rejected as a 'malicious compression pointer'"),
    "FC19e": ("FC19e-response-for-another-question.json", "R:4660:",
              "a response with the pending query's id but a DIFFERENT question section completes the query (processResponse / DnsResolver never compare "
              "result.questions with the request) and is then cached under the asked question"),
}


def replay_known(ctx, hb, known_ids, carve_counts, hbt=None):
    """DESIGN 5.3: every recorded finding's witness is replayed against the real code on every run."""
    for fid, (fn, bad_answer, text) in RECORDED.items():
        d = os.path.join(corpus_dir(), fn)
        if not os.path.exists(d):
            ctx.violation("correspondence", "witness file of recorded finding %s is missing: %s" % (fid, fn), {"broken": {"correspondence": fn}})
            continue
        w = json.load(open(d))
        h = hbt if w["ops"][0].startswith("resp ") else hb
        if not h:
            continue
        out, rc, err = ctx.run_lines([h], w["ops"], timeout=60)
        still = bool(out) and out[0].startswith(bad_answer)
        if still and fid in known_ids:
            ctx.known_lines.append("KNOWN-FINDING: property=C19 id=%s %s (witness corpus/C19/%s; %d generated cases in the carve-out this run)"
                                   % (fid, text, fn, carve_counts.get(fid, 0)))
        elif still:
            ctx.violation("property", "N2: %s and the finding %s is not listed in KNOWN_FINDINGS.txt" % (text, fid),
                          {"ops": w["ops"], "observed": out, "expected": w.get("expect")}, found_input=True)
        # if it no longer fails, the lockstep on the corpus case has already reported that model and implementation disagree


def report_property(ctx, hb, c, impl, model, fails, extra=None):
    ops = c["ops"]
    if not ctx.violation_budget("property", fails[0]):
        ctx.violation("property", fails[0])
        return
    if len(ops) > 2 and c["cat"] == "cache":
        cls = fails[0].split(":")[0]

        def still(sub):
            if not sub or not sub[0].startswith("c new"):
                return False
            out, rc, err = ctx.run_lines([hb], sub, timeout=60)
            out = out + ["crash:" + str(rc)] * (len(sub) - len(out))
            return bool(monitor_cache({"ops": sub}, out))
        try:
            if still(ops):
                ops = [ops[0]] + ddmin(ops[1:], lambda s: still([ops[0]] + s), max_tests=80)
        except Exception:
            pass
    obj = {"ops": ops, "observed": impl if ops is c["ops"] else None, "expected_by_model": model, "expected_by_reference": c.get("expect"),
           "failures": fails[:5], "category": c["cat"], "tag": c.get("tag")}
    if c.get("crash"):
        obj["crash"] = c["crash"]
    for k in ("msgs", "srv", "sid", "pending", "mode", "cap", "clean", "n_msgs"):
        if c["cat"] == "tcp" and k in c:
            obj[k] = c[k]
    if extra:
        obj.update(extra)
    ctx.violation("property", fails[0], obj, found_input=True)


def ref_from_msg(w, now, cur_default, negative):
    """Smallest record TTL (or the SOA-derived negative TTL) of a message WRITTEN BY THIS GENERATOR (plain walk over the sections)."""
    hid = int.from_bytes(w[0:2], "big")
    qd, an, ns, ar = (int.from_bytes(w[i:i + 2], "big") for i in (4, 6, 8, 10))
    off = 12

    def skip_name(o):
        while True:
            b = w[o]
            if b >= 0xC0:
                return o + 2
            if b == 0:
                return o + 1
            o += 1 + b
    for _ in range(qd):
        off = skip_name(off) + 4
    ttls = []
    soa = None
    for i in range(an + ns + ar):
        off = skip_name(off)
        t = int.from_bytes(w[off:off + 2], "big")
        ttl = int.from_bytes(w[off + 4:off + 8], "big")
        rdl = int.from_bytes(w[off + 8:off + 10], "big")
        rd = w[off + 10:off + 10 + rdl]
        ttls.append(ttl)
        if t == T_SOA and soa is None and an <= i < an + ns:
            soa = (ttl, int.from_bytes(rd[-4:], "big") if rdl >= 22 else None)
        off += 10 + rdl
    if negative:
        if soa is None:
            ttl = cur_default
        elif soa[1] is None:
            ttl = soa[0]
        else:
            ttl = min(soa)
    else:
        ttl = min(ttls) if ttls else cur_default
    return {"id": hid, "t": now, "ttl": ttl}


def corpus_dir():
    return os.path.join(os.path.dirname(os.path.dirname(os.path.abspath(__file__))), "corpus", "C19")


def load_corpus():
    d = corpus_dir()
    out = []
    if os.path.isdir(d):
        for fn in sorted(os.listdir(d)):
            if fn.endswith(".json"):
                c = json.load(open(os.path.join(d, fn)))
                if c.get("cat") in ("transport-witness", "tcp"):
                    continue                      # replayed by replay_known() / run with the tcp cases through the transport harness
                c.setdefault("cat", "corpus")
                c["file"] = fn
                out.append(c)
    return out
