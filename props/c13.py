"""C13 — JSON texts and values round-trip and agree with RFC 8259 (DESIGN §7 C13).

Extension round: the numeric-locale repair FC13b (detail::jsonToDouble + std::to_chars) is modelled (Model/JsonApi.lean: Libc, opsIn) and
run under locales built with localedef (`locale` op); JsonStreamParser, the parse/serialize wrappers and the value-construction API are in
the Model with theorems (S1-S3, W1-W3) and `api` ops; NaN/Infinity (J3_nonfinite); J2's `within lim` at the default limits (`serlim`).

Tie: translator unit `json` (limits, guards, escape tables, surrogate/UTF-8 constants, double format recipe, error messages)
+ lockstep of the real parser/serializer (ASan+UBSan, text in an exactly sized heap block) against the Lean model's driver.
Independent reference for the monitors: Python's `json` (strict RFC 8259 decoder once NaN/Infinity are refused), `float()`,
`'%.17g'`, `struct` — nothing of the model is used by a monitor.
"""
import json, os, re, resource, struct, subprocess, sys
from vlib.core import Ctx, hexs, unhex, ddmin, LEAN, ModelBuildError

try:
    sys.set_int_max_str_digits(0)
except AttributeError:
    pass

ID = "C13"
MODULES = ["IoraModel.Props.C13"]
OBLIGATIONS = [
    {"id": "C13_J1", "theorem": "Iora.C13.J1_accept_and_decode", "kind": "proved",
     "statement": "for every RFC 8259 syntax tree t (all escape forms incl. \\uXXXX either case, surrogate pairs, all number forms, white space, nesting, duplicate keys) within the limits: parse (render t) = ok (denote t)"},
    {"id": "C13_J2_fmt", "theorem": "Iora.C13.J2_formatDouble", "kind": "proved",
     "statement": "_formatDouble (15..17 precision loop with double ==, find_first_of(.eE), .0 suffix) yields for every finite double a number token with fraction/exponent that strtod reads back to the same bits - proved from the four explicit libc facts LibcOk"},
    {"id": "C13_LibcOk_sat", "theorem": "Iora.C13.LibcOk_satisfiable", "kind": "proved",
     "statement": "the libc hypotheses LibcOk are satisfiable (a toy libc has them): J2/J3 are not vacuous"},
    {"id": "C13_J2", "theorem": "Iora.C13.J2_roundtrip", "kind": "proved",
     "statement": "for every value made of finite numbers (int64 ints, FINITE doubles, strings, nested arrays/objects with distinct keys) within the limits, compact or pretty, any white-space indent, under LibcOk: parse (serialize v) = ok v"},
    {"id": "C13_J2_sorted", "theorem": "Iora.C13.J2_roundtrip_sorted", "kind": "proved",
     "statement": "with sortKeys: parse (serialize v) = ok (sortDeep v) and sortDeep v == v for Json::operator== (unordered_map equality)"},
    {"id": "C13_J3", "theorem": "Iora.C13.J3_output_in_grammar", "kind": "proved",
     "statement": "for values with well-formed UTF-8 strings the serializer output is the rendering of a well-formed AND STRICT RFC 8259 syntax tree (control characters escaped, raw bytes = UTF-8 of scalar values >= U+0020 other than quote/backslash) denoting the value (resp. sortDeep of it)"},
    {"id": "C13_J3_strict_ok", "theorem": "Iora.C13.J3_strict_is_ok", "kind": "proved",
     "statement": "the strict RFC 8259 string grammar is contained in the grammar J1 is proved for"},
    {"id": "C13_J4_offset", "theorem": "Iora.C13.J4_error_offset", "kind": "proved",
     "statement": "arbitrary bytes/limits: a parse failure reports an offset <= input length and is never the model's budget outcome (recursion bounds never hit: totality)"},
    {"id": "C13_J4_limits", "theorem": "Iora.C13.J4_limits", "kind": "proved",
     "statement": "arbitrary bytes: an accepted value has depth <= depthMax, arrays <= arrayItemsMax, objects <= membersMax, strings/keys <= stringLengthMax + 4, and distinct keys"},
    {"id": "C13_J5", "theorem": "Iora.C13.J5_last_wins", "kind": "proved",
     "statement": "for every object text within the limits the decoded object maps each key to the value of the LAST member of that name; keys are distinct"},
    {"id": "C13_J5_bigint", "theorem": "Iora.C13.J5_big_integer", "kind": "proved",
     "statement": "an integer token outside int64 is accepted and denotes strtod of its own text (Double)"},
    {"id": "C13_J5_assign", "theorem": "Iora.C13.J5_assign", "kind": "proved",
     "statement": "lookup after obj[k] = v yields v for k and is unchanged for every other key"},
    {"id": "C13_U1", "theorem": "Iora.C13.U1_utf8", "kind": "proved",
     "statement": "_appendUtf8 = Lean's String.utf8EncodeChar on every Char; every \\u escape decodes to a Unicode scalar value appended as its UTF-8 encoding"},
    {"id": "C13_L0", "theorem": "Iora.C13.L0_toDouble_locale_free", "kind": "proved",
     "statement": "detail::jsonToDouble (find('.'), replace by localeconv()->decimal_point, strtod) returns for every JSON number token, under ANY non-empty LC_NUMERIC decimal point for which strtod reads the localised token as the C strtod reads the JSON token, what the C-locale strtod returns (repair FC13b)"},
    {"id": "C13_L1", "theorem": "Iora.C13.L1_decode_any_locale", "kind": "proved",
     "statement": "J1 without the C-locale assumption: every RFC 8259 text within the limits is accepted under every such decimal point and decodes to the value it denotes in the C locale"},
    {"id": "C13_L2", "theorem": "Iora.C13.L2_roundtrip_any_locale", "kind": "proved",
     "statement": "J2 without the C-locale assumption: LibcOk is assumed for the C locale only; parse (serialize v) = ok v in every process locale"},
    {"id": "C13_L2_sorted", "theorem": "Iora.C13.L2_roundtrip_sorted_any_locale", "kind": "proved",
     "statement": "the sorted round trip in every process locale"},
    {"id": "C13_L3", "theorem": "Iora.C13.L3_output_any_locale", "kind": "proved",
     "statement": "J3 in every process locale: the output is strict RFC 8259 text (std::to_chars is locale independent; the read-back test of _formatDouble goes through jsonToDouble)"},
    {"id": "C13_L4", "theorem": "Iora.C13.L4_output_bytes_locale_free", "kind": "proved",
     "statement": "serialize/dump() of ANY value writes byte for byte the C-locale output under every such decimal point"},
    {"id": "C13_Locale_sat", "theorem": "Iora.C13.LocaleLibc_satisfiable", "kind": "proved",
     "statement": "the hypotheses of L0-L3 are satisfiable with a decimal comma (toy libc)"},
    {"id": "C13_J3_nonfinite", "theorem": "Iora.C13.J3_nonfinite", "kind": "proved",
     "statement": "NaN/+-Infinity: for EVERY value whose finite part is good, serialize v = serialize (v with every non-finite double replaced by null), strict RFC 8259 text denoting that value (valid JSON; the round trip yields null there, J2 is not claimed)"},
    {"id": "C13_S1", "theorem": "Iora.C13.S1_stream_accepts", "kind": "proved",
     "statement": "JsonStreamParser: for EVERY chunking of a text that parse accepts under the limits, after the feeds finish() is true, complete() holds and value() = parse of the concatenation"},
    {"id": "C13_S2", "theorem": "Iora.C13.S2_stream_error", "kind": "proved",
     "statement": "JsonStreamParser: if not complete after finish(), finish() is false, parse of the concatenation fails and error() is exactly that failure (offset inside the input by J4)"},
    {"id": "C13_S3", "theorem": "Iora.C13.S3_stream_value", "kind": "proved",
     "statement": "JsonStreamParser: a latched value is parse of the concatenation of a prefix of the chunks and respects the limits, whatever is fed afterwards"},
    {"id": "C13_W1", "theorem": "Iora.C13.W1_parseOrThrow", "kind": "proved",
     "statement": "parseOrThrow (and through it parse(string), parseString, operator>>) returns exactly what parse accepts and throws exactly parse's error with _getLocation's line/column"},
    {"id": "C13_W3", "theorem": "Iora.C13.W3_location", "kind": "proved",
     "statement": "_getLocation: the line of offset off is 1 + the number of line feeds before it, the column lies in 1 .. off + 1"},
    {"id": "C13_W2", "theorem": "Iora.C13.W2_stream_operators_gap", "kind": "proved",
     "statement": "the gap J2's `within lim` leaves (review F3): operator>> reads with DEFAULT ParseLimits, so a good value beyond them (10 001 array elements) does NOT come back through operator<< / operator>> - proved as an existence statement, not hidden"},
    {"id": "C13_gen", "theorem": "Iora.C13.gen_conformance", "kind": "proved",
     "statement": "what the model hard-codes (error messages per function, literals, dispatch bytes, delegated primitives, hex ranges, UTF-8 literals, format recipe std::to_chars/general + detail::jsonToDouble + std::strtod, buffer >= the 24 characters of the longest %.17g text, separators, and the statement text of the 22 public-surface functions Model/JsonApi.lean mirrors: constructors, push_back, operator[], dump, stream operators, parse wrappers, JsonStreamParser::feed/finish) equals the facts regenerated from the source"},
]
ANCHOR_FILES = ["include/iora/parsers/json.hpp"]
NOT_PROVED = ["LibcOk for the real libc in the C locale (the four facts about std::to_chars(general, 15..17) / strtod that J2/J3 assume: token shape, the 17-digit text reads back exactly, the "
              "sign of zero survives, `.0` does not change the value) and LocaleLibc (strtod under a decimal point dp reads the token with dp in place of `.` as the C strtod reads "
              "the JSON token): validated bit for bit by the lockstep against Model/JsonFloat.lean (exact big-integer arithmetic, locale-aware strtod) under the C locale, a decimal "
              "comma and a two-byte decimal point (locales built with localedef on every run), and against Python's float()/'%.17g'; _formatDouble's and jsonToDouble's own logic "
              "IS proved from them (J2_formatDouble, L0)",
              "`without undefined behaviour` has no theorem: the model is total and never reads outside the text by construction (J4), but UB freedom of the C++ itself is "
              "only searched for (ASan+UBSan on every generated input, text in an exactly sized heap block, default-depth nesting in a child with the default 8 MiB stack)",
              "stack depth (review F2): the model has no stack. parse, dump()/serialize, the copy constructor, operator== and ~Json recurse once per nesting level; J1-J4 are "
              "claimed for values and limits of nesting depth <= stackSafeDepth (1000) only: gen_conformance pins depthMaxDefault <= stackSafeDepth, the plugin measures the real "
              "bytes per level on every run (budget: a quarter of the default 8 MiB stack) and runs dump/re-parse/copy/compare/destroy of programmatically built values at depth "
              "101 and stackSafeDepth in an 8 MiB child. Far beyond that the code overflows the stack (measured at -O1, 8 MiB: parse with depthMax raised survives 25 000 "
              "levels and dies at 30 000; dump() survives 40 000 and dies at 50 000; ~Json dies near 400 000 - so a value the parser produced never overflows dump(), a "
              "programmatically built one can); an iterative rewrite of parser+serializer is not a small repair, so this is a stated hypothesis, not a theorem and not a finding",
              "J2's hypothesis `v.within lim` is real (review F3): Json::parse's default ParseLimits reject the program's own dump() of a value with > 10 000 elements/members, a "
              "string > 1 000 000 bytes or depth > 100; operator>> and JsonFileStore (property C11) always read with the defaults. W2_stream_operators_gap proves the gap exists; "
              "the serlim ops run it at both sides of every default limit"]


# ------------------------------------------------------------------------------------------------ reference decoder
class Obj:
    __slots__ = ("pairs",)

    def __init__(self, pairs):
        self.pairs = pairs


def _refuse_constant(x):
    raise ValueError("NaN/Infinity are not JSON")


def py_ref(text):
    """('ok', tree) | ('reject',) | None (no reference: not UTF-8, or the reference itself gave up)"""
    try:
        s = text.decode("utf-8")
    except UnicodeDecodeError:
        return None
    try:
        return ("ok", json.loads(s, parse_constant=_refuse_constant, object_pairs_hook=Obj))
    except RecursionError:
        return None
    except ValueError:
        return ("reject",)


def utf8_of(s):
    """bytes of a decoded JSON string; an unpaired surrogate escape has no scalar value: U+FFFD (RFC 8259 §8.2 leaves it open)"""
    if any(0xD800 <= ord(ch) <= 0xDFFF for ch in s):
        s = "".join("\ufffd" if 0xD800 <= ord(ch) <= 0xDFFF else ch for ch in s)
    return s.encode("utf-8")


def dbits(f):
    return "d%016x" % struct.unpack(">Q", struct.pack(">d", f))[0]


def canon_ref(v):
    """canonical dump (object keys sorted bytewise, last duplicate wins) of a value produced by py_ref"""
    if v is None:
        return "n"
    if v is True:
        return "t"
    if v is False:
        return "f"
    if isinstance(v, int):
        if -2 ** 63 <= v < 2 ** 63:
            return "i%d;" % v
        try:
            return dbits(float(v))
        except OverflowError:
            return dbits(float("inf") if v > 0 else float("-inf"))
    if isinstance(v, float):
        return dbits(v)
    if isinstance(v, str):
        return "s%s;" % utf8_of(v).hex()
    if isinstance(v, list):
        return "[" + "".join(canon_ref(x) for x in v) + "]"
    if isinstance(v, Obj):
        d = {}
        for k, x in v.pairs:
            d[utf8_of(k)] = x
        return "{" + "".join("s%s;%s" % (k.hex(), canon_ref(d[k])) for k in sorted(d)) + "}"
    raise TypeError(type(v))


def measure_ref(v, depth=0):
    """(max depth of any value, longest array, most members in one object incl. duplicates, longest string) of a reference tree"""
    if isinstance(v, str):
        return depth, 0, 0, len(utf8_of(v))
    if isinstance(v, list):
        m = (depth, len(v), 0, 0)
        for x in v:
            m = tuple(map(max, m, measure_ref(x, depth + 1)))
        return m
    if isinstance(v, Obj):
        m = (depth, 0, len(v.pairs), 0)
        for k, x in v.pairs:
            m = tuple(map(max, m, measure_ref(x, depth + 1), (0, 0, 0, len(utf8_of(k)))))
        return m
    return depth, 0, 0, 0


def has_lone_surrogate(v):
    if isinstance(v, str):
        return any(0xD800 <= ord(ch) <= 0xDFFF for ch in v)
    if isinstance(v, list):
        return any(has_lone_surrogate(x) for x in v)
    if isinstance(v, Obj):
        return any(has_lone_surrogate(k) or has_lone_surrogate(x) for k, x in v.pairs)
    return False


# ------------------------------------------------------------------------------------------------ value syntax (plugin side)
# python form of a value: None | bool | int | ("d", bits) | bytes | list | ("o", [(bytes, value)])
def v_canon(v, sort=False):
    if v is None:
        return "n"
    if v is True:
        return "t"
    if v is False:
        return "f"
    if isinstance(v, int):
        return "i%d;" % v
    if isinstance(v, bytes):
        return "s%s;" % v.hex()
    if isinstance(v, list):
        return "[" + "".join(v_canon(x, sort) for x in v) + "]"
    if v[0] == "d":
        return "d%016x" % v[1]
    ms = v[1]
    if sort:
        d = {}
        for k, x in ms:
            d[k] = x
        ms = [(k, d[k]) for k in sorted(d)]
    return "{" + "".join("s%s;%s" % (k.hex(), v_canon(x, sort)) for k, x in ms) + "}"


def read_dump(s):
    """reader of the value syntax -> python form (members in the order given)"""
    pos = 0

    def val():
        nonlocal pos
        c = s[pos]
        pos += 1
        if c == "n":
            return None
        if c == "t":
            return True
        if c == "f":
            return False
        if c == "i":
            j = s.index(";", pos)
            r = int(s[pos:j])
            pos = j + 1
            return r
        if c == "d":
            r = ("d", int(s[pos:pos + 16], 16))
            pos += 16
            return r
        if c == "s":
            j = s.index(";", pos)
            r = bytes.fromhex(s[pos:j])
            pos = j + 1
            return r
        if c == "[":
            xs = []
            while s[pos] != "]":
                xs.append(val())
            pos += 1
            return xs
        if c == "{":
            ms = []
            while s[pos] != "}":
                if s[pos] != "s":
                    raise ValueError("member without key")
                k = val()
                ms.append((k, val()))
            pos += 1
            return ("o", ms)
        raise ValueError("bad value syntax at %d" % (pos - 1))

    r = val()
    if pos != len(s):
        raise ValueError("trailing characters in dump")
    return r


def measure_dump(v, depth=0):
    if isinstance(v, bytes):
        return depth, 0, 0, len(v)
    if isinstance(v, list):
        m = (depth, len(v), 0, 0)
        for x in v:
            m = tuple(map(max, m, measure_dump(x, depth + 1)))
        return m
    if isinstance(v, tuple) and v[0] == "o":
        m = (depth, 0, len(v[1]), 0)
        for k, x in v[1]:
            m = tuple(map(max, m, measure_dump(x, depth + 1), (0, 0, 0, len(k))))
        return m
    return depth, 0, 0, 0


def all_finite(v):
    if isinstance(v, list):
        return all(all_finite(x) for x in v)
    if isinstance(v, tuple) and v[0] == "d":
        return (v[1] >> 52) & 0x7FF != 0x7FF
    if isinstance(v, tuple) and v[0] == "o":
        return all(all_finite(x) for _, x in v[1])
    return True


def nullify_py(v):
    """every non-finite double replaced by null (what the serializer writes)"""
    if isinstance(v, list):
        return [nullify_py(x) for x in v]
    if isinstance(v, tuple) and v[0] == "d":
        return v if (v[1] >> 52) & 0x7FF != 0x7FF else None
    if isinstance(v, tuple) and v[0] == "o":
        return ("o", [(k, nullify_py(x)) for k, x in v[1]])
    return v


def f32_to_double_bits(bits):
    f = struct.unpack(">f", struct.pack(">I", bits))[0]
    return struct.unpack(">Q", struct.pack(">d", f))[0]


def api_reference(t):
    """(result, operand) of an api op in python form, computed independently of model and implementation"""
    k = t[1]
    if k == "u64":
        n = int(t[2])
        return (n if n < 2 ** 63 else n - 2 ** 64), None
    if k == "f32":
        return ("d", f32_to_double_bits(int(t[2], 16))), None
    if k == "initlist":
        a = read_dump(t[2])
        return list(a), a
    if k == "pushback":
        base, v = read_dump(t[2]), read_dump(t[3])
        return (base + [v] if isinstance(base, list) else [v]), base
    if k == "setidx":
        base, i, v = read_dump(t[2]), int(t[3]), read_dump(t[4])
        xs = list(base) if isinstance(base, list) else []
        xs += [None] * (i + 1 - len(xs))
        xs[i] = v
        return xs, base
    if k == "setkey":
        base, key, v = read_dump(t[2]), unhex(t[3]), read_dump(t[4])
        ms = list(base[1]) if isinstance(base, tuple) and base[0] == "o" else []
        if any(kk == key for kk, _ in ms):
            ms = [(kk, v if kk == key else x) for kk, x in ms]
        else:
            ms.append((key, v))
        return ("o", ms), base
    raise ValueError(k)


def strings_utf8(v):
    def ok(b):
        try:
            b.decode("utf-8")
            return True
        except UnicodeDecodeError:
            return False
    if isinstance(v, bytes):
        return ok(v)
    if isinstance(v, list):
        return all(strings_utf8(x) for x in v)
    if isinstance(v, tuple) and v[0] == "o":
        return all(ok(k) and strings_utf8(x) for k, x in v[1])
    return True


# ------------------------------------------------------------------------------------------------ generators
RFC_WS = [b" ", b"\n", b"\t", b"\r", b"  ", b" \n", b"\r\n\t ", b"    "]
SIMPLE_ESC = [b'\\"', b"\\\\", b"\\/", b"\\b", b"\\f", b"\\n", b"\\r", b"\\t"]
BOUNDARY_CPS = [0x0000, 0x0001, 0x001F, 0x0020, 0x0022, 0x005C, 0x007F, 0x0080, 0x07FF, 0x0800, 0x0FFF, 0x1000, 0xD7FF, 0xE000, 0xFFFD, 0xFFFE, 0xFFFF]
BOUNDARY_SUPP = [0x10000, 0x10FFFF, 0x1F600, 0xFFFFF, 0x100000, 0x2FFFF]
INT_EDGES = [0, 1, 9, 10, 2 ** 31 - 1, 2 ** 31, 2 ** 32, 2 ** 53 - 1, 2 ** 53, 2 ** 53 + 1, 2 ** 63 - 2, 2 ** 63 - 1, 2 ** 63, 2 ** 63 + 1, 2 ** 64 - 1, 2 ** 64,
             10 ** 18, 10 ** 19, 9223372036854775807, 9223372036854775808, 18446744073709551615, 10 ** 22, 10 ** 23, 123456789012345678901234567890]
NUM_EDGES = [b"0", b"-0", b"0.0", b"-0.0", b"0e0", b"0E+0", b"0e-0", b"1e0", b"1E400", b"-1e400", b"1e-400", b"-1e-400", b"4.9e-324", b"5e-324", b"2.4703282292062327e-324",
             b"2.4703282292062328e-324", b"2.2250738585072014e-308", b"2.2250738585072011e-308", b"2.2250738585072009e-308", b"1.7976931348623157e308",
             b"1.7976931348623158e308", b"1.7976931348623159e308", b"1.797693134862315807e308", b"0.1", b"0.2", b"0.30000000000000004", b"1e-7", b"1E-7", b"1e23", b"8.5e-5",
             b"9007199254740993.0", b"9007199254740992.5", b"9007199254740993.5", b"4503599627370496.5", b"4503599627370497.5", b"1.0000000000000002", b"1.00000000000000011102230246251565404236316680908203125",
             b"1.00000000000000011102230246251565404236316680908203124", b"1.00000000000000011102230246251565404236316680908203126", b"0.000001", b"0.0000001", b"123456.789e3", b"1e1", b"1e01", b"1e+007",
             b"100000000000000000000", b"1e22", b"1e23", b"3.141592653589793", b"2.718281828459045e0", b"6.02214076E23", b"1.6e-19", b"0.5", b"0.25", b"1.5e300", b"1.5E-300",
             b"179769313486231580793728971405303415079934132710037826936173778980444968292764750946649017977587207096330286416692887910946555547851940402630657488671505820681908902000708383676273854845817711531764475730270069855571366959622842914819860834936475292719074168444365510704342711559699508093042880177904174497791.9999999999999999999999999999999999999999999999999999999999999999999999",
             b"0.000000000000000000000000000000000000000000000000000000000000000000000000000000000000000000000000000000000000000000000000000000000000000000000000000000000000000000000000000000000000000000000000000000000000000000000000000000000000000000000000000000000000000000000000000000000000000000000000000000000000000000000000000000000000000000024703282292062327208051355972539706"]


def gen_ws(rng):
    return rng.choice(RFC_WS) if rng.chance(1, 4) else b""


def u4(rng, cu):
    h = "%04x" % cu
    return b"\\u" + "".join(ch.upper() if rng.chance(1, 2) else ch for ch in h).encode()


def rand_scalar_cp(rng):
    k = rng.below(8)
    if k < 3:
        return rng.range(0x20, 0x7E)
    if k < 4:
        return rng.range(0x80, 0x7FF)
    if k < 6:
        return rng.choice([rng.range(0x800, 0xD7FF), rng.range(0xE000, 0xFFFF)])
    if k < 7:
        return rng.range(0x10000, 0x10FFFF)
    return rng.choice(BOUNDARY_CPS + BOUNDARY_SUPP)


def gen_string_items(rng, n, st):
    out = []
    for _ in range(n):
        k = rng.below(100)
        if k < 35:
            c = rng.range(0x20, 0x7E)
            if c in (0x22, 0x5C):
                c = 0x61
            out.append(bytes([c]))
            st["raw"] += 1
        elif k < 48:
            cp = rand_scalar_cp(rng)
            if cp < 0x20 or cp in (0x22, 0x5C) or 0xD800 <= cp <= 0xDFFF:
                cp = 0xE9
            out.append(chr(cp).encode("utf-8"))
            st["raw-utf8"] += 1
        elif k < 63:
            out.append(rng.choice(SIMPLE_ESC))
            st["esc"] += 1
        elif k < 80:
            cp = rng.choice(BOUNDARY_CPS) if rng.chance(1, 3) else rng.choice([rng.range(0, 0xD7FF), rng.range(0xE000, 0xFFFF), rng.range(0, 0x7F)])
            out.append(u4(rng, cp))
            st["u-bmp"] += 1
        elif k < 95:
            cp = rng.choice(BOUNDARY_SUPP) if rng.chance(1, 3) else rng.range(0x10000, 0x10FFFF)
            v = cp - 0x10000
            out.append(u4(rng, 0xD800 + (v >> 10)) + u4(rng, 0xDC00 + (v & 0x3FF)))
            st["u-pair"] += 1
        else:
            hi = rng.choice([0xD800, 0xDBFF, rng.range(0xD800, 0xDBFF)])
            lo = rng.choice([0xDC00, 0xDFFF, rng.range(0xDC00, 0xDFFF)])
            out.append(rng.choice([u4(rng, hi), u4(rng, lo), u4(rng, hi) + u4(rng, hi), u4(rng, lo) + u4(rng, hi), u4(rng, hi) + b"\\n", u4(rng, hi) + b"x",
                                   u4(rng, hi) + u4(rng, 0x41), u4(rng, hi) + u4(rng, hi) + u4(rng, lo)]))
            st["u-lone"] += 1
    return out


def gen_string(rng, st, maxitems=12):
    return b'"' + b"".join(gen_string_items(rng, rng.below(maxitems + 1), st)) + b'"'


def digits(rng, n, lead_nonzero=False):
    s = "".join(str(rng.below(10)) for _ in range(n))
    if lead_nonzero and s[0] == "0":
        s = str(rng.range(1, 9)) + s[1:]
    return s


def gen_number(rng, st):
    k = rng.below(20)
    if k < 2:
        st["num-edge"] += 1
        return rng.choice(NUM_EDGES)
    sign = "-" if rng.chance(1, 3) else ""
    if k < 6:
        st["num-int"] += 1
        return (sign + str(rng.below(1000))).encode()
    if k < 9:
        st["num-int-edge"] += 1
        return (sign + str(max(0, rng.choice(INT_EDGES) + rng.range(-2, 2)))).encode()
    if k < 11:
        st["num-int-big"] += 1
        return (sign + digits(rng, rng.range(17, 40), True)).encode()
    st["num-float"] += 1
    ip = "0" if rng.chance(1, 3) else digits(rng, rng.range(1, 20), True)
    frac = ""
    exp = ""
    if rng.chance(2, 3):
        frac = "." + digits(rng, rng.range(1, 22))
    if not frac or rng.chance(1, 2):
        e = rng.choice(["e", "E"]) + rng.choice(["", "+", "-"])
        mag = rng.choice([rng.below(30), rng.below(330), rng.choice([307, 308, 309, 310, 323, 324, 325, 400])])
        ds = str(mag)
        if rng.chance(1, 6):
            ds = "0" * rng.range(1, 3) + ds
        exp = e + ds
    return (sign + ip + frac + exp).encode()


def gen_text(rng, st, depth, maxdepth, keys=None):
    """one RFC 8259 value as text"""
    k = rng.below(12)
    if depth >= maxdepth:
        k = k % 8
    if k < 1:
        return rng.choice([b"null", b"true", b"false"])
    if k < 4:
        return gen_number(rng, st)
    if k < 8:
        return gen_string(rng, st)
    if k < 10:
        n = rng.choice([0, 0, 1, 2, 3, rng.below(8)])
        if n == 0:
            return b"[" + gen_ws(rng) + b"]"
        return b"[" + b",".join(gen_ws(rng) + gen_text(rng, st, depth + 1, maxdepth) + gen_ws(rng) for _ in range(n)) + b"]"
    n = rng.choice([0, 0, 1, 2, 3, rng.below(8)])
    if n == 0:
        return b"{" + gen_ws(rng) + b"}"
    ms = []
    used = []
    for _ in range(n):
        if used and rng.chance(1, 5):
            key = rng.choice(used)
            st["dup-key"] += 1
            if rng.chance(1, 2) and len(key) > 2:      # the same key spelled with an escape
                body = key[1:-1]
                if body[:1].isalnum():
                    key = b'"' + u4(rng, body[0]) + body[1:] + b'"'
                    st["dup-key-respelled"] += 1
        else:
            key = gen_string(rng, st, 4)
            used.append(key)
        ms.append(gen_ws(rng) + key + gen_ws(rng) + b":" + gen_ws(rng) + gen_text(rng, st, depth + 1, maxdepth) + gen_ws(rng))
    return b"{" + b",".join(ms) + b"}"


def nest(d, inner, rng=None):
    """`inner` wrapped in d containers (arrays/objects mixed when rng is given)"""
    t = inner
    for _ in range(d):
        if rng is not None and rng.chance(1, 3):
            t = b'{"k":' + t + b"}"
        else:
            t = b"[" + t + b"]"
    return t


def parse_op(lim, text):
    return "parse %d %d %d %d %s" % (lim[0], lim[1], lim[2], lim[3], hexs(text))


def gen_parse_cases(rng, scale, dflt, st):
    cases = []
    # (a) grammar-generated valid texts, default limits
    for i in range(6000 * scale):
        t = gen_ws(rng) + gen_text(rng, st, 0, rng.choice([0, 1, 2, 3, 4, 6])) + gen_ws(rng)
        cases.append({"cat": "grammar", "ops": [parse_op(dflt, t)]})
    # F6: structured texts beyond 1 KiB (arrays / objects of many generated values)
    for i in range(40 * scale):
        n = rng.range(20, 120)
        if rng.chance(1, 2):
            t = b"[" + b",".join(gen_ws(rng) + gen_text(rng, st, 1, 3) for _ in range(n)) + b"]"
        else:
            t = b"{" + b",".join(gen_string(rng, st, 8) + b":" + gen_text(rng, st, 1, 3) for _ in range(n)) + b"}"
        cases.append({"cat": "grammar-large", "ops": [parse_op(dflt, t)]})
    # every single escape form / every code-point boundary on its own
    for e in SIMPLE_ESC:
        cases.append({"cat": "escape-forms", "ops": [parse_op(dflt, b'"' + e + b'"'), parse_op(dflt, b'"x' + e + b'y"')]})
    for cp in BOUNDARY_CPS:
        cases.append({"cat": "escape-forms", "ops": [parse_op(dflt, b'"' + u4(rng, cp) + b'"'), parse_op(dflt, b'"a' + ("\\u%04X" % cp).encode() + b'b"')]})
    for cp in BOUNDARY_SUPP + [rng.range(0x10000, 0x10FFFF) for _ in range(20)]:
        v = cp - 0x10000
        cases.append({"cat": "escape-forms", "ops": [parse_op(dflt, b'"' + u4(rng, 0xD800 + (v >> 10)) + u4(rng, 0xDC00 + (v & 0x3FF)) + b'"')]})
    for n in NUM_EDGES:
        cases.append({"cat": "number-forms", "ops": [parse_op(dflt, n), parse_op(dflt, b"[" + n + b"]"), parse_op(dflt, b"-" + n if not n.startswith(b"-") else n[1:])]})
    for n in INT_EDGES:
        cases.append({"cat": "number-forms", "ops": [parse_op(dflt, str(n + d).encode()) for d in (-1, 0, 1)] + [parse_op(dflt, str(-(n + d)).encode()) for d in (-1, 0, 1)]})
    # (b) boundary stream around every limit (configured small limits: the comparisons are the same code)
    for L in (0, 1, 2, 3, 7):
        for d in (L - 1, L, L + 1, L + 2, L + 3):
            if d < 0:
                continue
            for inner in (b"", b"1", b'"s"', b"{}", b"[]"):
                lim = (L, 10000, 10000, 1000000)
                cases.append({"cat": "limit-depth", "ops": [parse_op(lim, nest(d, inner)), parse_op(lim, nest(d, inner, rng))] if d else [parse_op(lim, inner or b"0")]})
        for n in (L - 1, L, L + 1, L + 2):
            if n < 0:
                continue
            lim = (100, L, 10000, 1000000)
            cases.append({"cat": "limit-array", "ops": [parse_op(lim, b"[" + b",".join([b"1"] * n) + b"]"), parse_op(lim, b"[[" + b",".join([b"[]"] * n) + b"]]")]})
            lim = (100, 10000, L, 1000000)
            distinct = b"{" + b",".join(b'"k%d":%d' % (i, i) for i in range(n)) + b"}"
            dups = b"{" + b",".join(b'"k%d":%d' % (i % 2, i) for i in range(n)) + b"}"
            cases.append({"cat": "limit-members", "ops": [parse_op(lim, distinct), parse_op(lim, dups), parse_op(lim, b"[" + distinct + b"]")]})
        for n in range(max(0, L - 2), L + 7):
            lim = (100, 10000, 10000, L)
            raw = b"a" * n
            ops = [parse_op(lim, b'"' + raw + b'"'), parse_op(lim, b'{"' + raw + b'":0}')]
            if n >= 1:
                ops.append(parse_op(lim, b'"' + raw[:-1] + b'\\n"'))
                ops.append(parse_op(lim, b'"' + raw[:-1] + b'\\u0041"'))
            if n >= 2:
                ops.append(parse_op(lim, b'"' + raw[:-2] + b'\\u00e9"'))
            if n >= 3:
                ops.append(parse_op(lim, b'"' + raw[:-3] + b'\\u20ac"'))
                ops.append(parse_op(lim, b'"' + raw[:-3] + b"\xe2\x82\xac" + b'"'))
            if n >= 4:
                ops.append(parse_op(lim, b'"' + raw[:-4] + b'\\ud83d\\ude00"'))
            cases.append({"cat": "limit-string", "ops": ops})
    # the defaults themselves: ALWAYS probed (a default beyond the caps is probed at the cap and fails gen_conformance)
    D, A, M, S = dflt
    if D <= DEPTH_LOCKSTEP:
        for d in (D - 1, D, D + 1, D + 2, D + 3):
            if d >= 0:
                cases.append({"cat": "limit-default", "ops": [parse_op(dflt, nest(d, b"")), parse_op(dflt, nest(d, b"null")), parse_op(dflt, nest(d, b"0", rng))]})
    # (deeper defaults: gen_deep_cases - run against the real parser alone, in a child with the default 8 MiB stack)
    for n in sorted(set(max(0, min(A, SIZE_CAP) + k) for k in (-1, 0, 1))):
        cases.append({"cat": "limit-default", "ops": [parse_op(dflt, b"[" + b",".join([b"0"] * n) + b"]")]})
    for n in sorted(set(max(0, min(M, SIZE_CAP) + k) for k in (0, 1))):
        cases.append({"cat": "limit-default", "ops": [parse_op(dflt, b"{" + b",".join(b'"%d":0' % i for i in range(n)) + b"}")]})
    for n in sorted(set(min(S, STRING_CAP) + k for k in (0, 1, 2))):
        cases.append({"cat": "limit-default", "ops": [parse_op(dflt, b'"' + b"x" * n + b'"')]})
    return cases


DEPTH_LOCKSTEP = 2000       # deepest nesting sent through the lockstep (the native model driver recurses too)
DEPTH_CAP = 400000          # deepest nesting ever generated
SIZE_CAP = 100000           # = Iora.C13.sizeCap
STRING_CAP = 2000000        # = Iora.C13.stringCap
STACK_BYTES = 8 << 20       # default main-thread stack (ulimit -s 8192)


def gen_deep_cases(dflt):
    """texts nested up to the DEFAULT depthMax (and just beyond), whatever it is: `parsing terminates within its limits without
    undefined behaviour` includes not overflowing the stack at the depth the default limits admit"""
    D = dflt[0]
    out = []
    for d in sorted(set(min(x, DEPTH_CAP) for x in (D // 2, D, D + 1, D + 2)) ):
        if d > DEPTH_LOCKSTEP:
            out.append(parse_op(dflt, nest(d, b"")))
            out.append(parse_op(dflt, b'{"k":' * d + b"0" + b"}" * d))
    return out


def run_child_8mib(hb, ops, timeout=600):
    """the harness alone, one process per op, RLIMIT_STACK = the default 8 MiB"""
    env = dict(os.environ)
    env.update(HENV)
    env.setdefault("ASAN_OPTIONS", "detect_leaks=0:abort_on_error=0:exitcode=99:detect_stack_use_after_return=0")
    env.setdefault("UBSAN_OPTIONS", "print_stacktrace=1:halt_on_error=1:exitcode=98")
    res = []
    for op in ops:
        try:
            p = subprocess.run([hb], input=(op + "\n").encode(), stdout=subprocess.PIPE, stderr=subprocess.PIPE, timeout=timeout, env=env,
                               preexec_fn=lambda: resource.setrlimit(resource.RLIMIT_STACK, (STACK_BYTES, STACK_BYTES)))
            out = p.stdout.decode("utf-8", "replace").splitlines()
            if out and p.returncode == 0:
                res.append(out[0])
            else:
                m = re.search(r"AddressSanitizer: ([\w-]+)", p.stderr.decode("utf-8", "replace"))
                res.append("crash:" + ("asan:" + m.group(1) if m else "rc=%s" % p.returncode))
        except subprocess.TimeoutExpired:
            res.append("crash:timeout")
    return res


SPECIAL_BYTES = [0x22, 0x5C, 0x7B, 0x7D, 0x5B, 0x5D, 0x2C, 0x3A, 0x2D, 0x2B, 0x2E, 0x65, 0x45, 0x30, 0x31, 0x39, 0x75, 0x6E, 0x74, 0x66, 0x20, 0x0A, 0x09, 0x0D, 0x0B, 0x0C,
                 0x00, 0x1F, 0x7F, 0x80, 0xBF, 0xC0, 0xE2, 0xF0, 0xFF, 0x2F, 0x61, 0x41, 0x64, 0x44, 0x38]


def mutate(rng, t):
    w = bytearray(t)
    for _ in range(rng.range(1, 3)):
        k = rng.below(7)
        if k == 0 and w:
            w[rng.below(len(w))] ^= 1 << rng.below(8)
        elif k == 1 and w:
            del w[rng.below(len(w)):]
        elif k == 2:
            w.insert(rng.below(len(w) + 1), rng.choice(SPECIAL_BYTES))
        elif k == 3 and w:
            w[rng.below(len(w))] = rng.choice(SPECIAL_BYTES)
        elif k == 4 and w:
            a = rng.below(len(w))
            del w[a:a + rng.range(1, 4)]
        elif k == 5 and w:
            a = rng.below(len(w))
            b = min(len(w), a + rng.range(1, 6))
            w[a:a] = w[a:b]
        elif w:
            del w[:rng.below(len(w))]
    return bytes(w)


def gen_mutated_cases(rng, scale, dflt, st):
    cases = []
    seeds = [b'{"a":[1,2.5e3,true,false,null],"b":{"c":"x\\ny\\u00e9\\ud83d\\ude00"},"a":-7}', b'["\\u0041\\uD834\\uDD1E",-0.0,1E+2,{}]', b' [ 1 , "two" , [ ] , { "k" : null } ] ',
             b'"\\ud83d\\ude00"', b'{"":0}', b"-12.5e-3", b'[[[[[[]]]]]]', b'{"a":{"b":{"c":{}}}}', b"true", b"null", b"false", b'"\\"\\\\\\/\\b\\f\\n\\r\\t"']
    # every prefix and every suffix-truncation of small documents
    for s in seeds:
        cases.append({"cat": "prefix", "ops": [parse_op(dflt, s[:i]) for i in range(len(s) + 1)]})
    for i in range(40 * scale):
        t = gen_text(rng, st, 0, 3)
        if len(t) <= 80:
            cases.append({"cat": "prefix", "ops": [parse_op(dflt, t[:i]) for i in range(len(t) + 1)]})
    for i in range(5000 * scale):
        base = rng.choice(seeds) if rng.chance(1, 4) else gen_text(rng, st, 0, rng.choice([1, 2, 3]))
        lim = dflt if rng.chance(3, 4) else (rng.choice([0, 1, 2, 100]), rng.choice([0, 1, 2, 10000]), rng.choice([0, 1, 2, 10000]), rng.choice([0, 1, 3, 1000000]))
        cases.append({"cat": "mutated", "ops": [parse_op(lim, mutate(rng, base))]})
    if scale > 1:
        # thorough: EVERY position of every small seed document replaced by / prefixed with every special byte
        for sd in seeds:
            if len(sd) <= 40:
                ops = []
                for i in range(len(sd) + 1):
                    for b in SPECIAL_BYTES:
                        ops.append(parse_op(dflt, sd[:i] + bytes([b]) + sd[i:]))
                        if i < len(sd):
                            ops.append(parse_op(dflt, sd[:i] + bytes([b]) + sd[i + 1:]))
                cases.append({"cat": "exhaustive-1byte", "ops": ops})
    alpha = bytes(SPECIAL_BYTES)
    for i in range(2000 * scale):
        n = rng.range(0, 24)
        t = bytes(rng.choice(alpha) for _ in range(n)) if rng.chance(2, 3) else rng.bytes(n)
        cases.append({"cat": "random-bytes", "ops": [parse_op(dflt, t)]})
    # truncated escapes / unterminated constructs at the very end of the buffer
    tails = [b'"\\', b'"\\u', b'"\\u0', b'"\\u00', b'"\\u004', b'"\\u0041', b'"\\ud83d', b'"\\ud83d\\', b'"\\ud83d\\u', b'"\\ud83d\\ude0', b'"\\ud83d\\ude00', b"{", b"{ ", b'{"a"', b'{"a":', b'{"a":1',
             b'{"a":1,', b'{"a":1, ', b"[", b"[1", b"[1,", b"[1, ", b"-", b"1.", b"1e", b"1e-", b"n", b"nu", b"nul", b"t", b"f", b"fals", b'{"a":1,}', b"[1,]", b'{"a" 1}', b"{1:2}", b'{"a":}', b'[,]',
             b'"\\x"', b'"\\U0041"', b'"\\u00g1"', b'"\\u 041"', b'"\\u+041"', b'"\\u-041"', b'"\\u0x41"']
    for t in tails:
        cases.append({"cat": "truncated", "ops": [parse_op(dflt, t), parse_op(dflt, b"[" + t), parse_op(dflt, b'{"k":' + t)]})
    return cases


def rand_utf8(rng, n):
    out = []
    for _ in range(n):
        k = rng.below(10)
        if k < 2:
            cp = rng.range(0, 0x1F)
        elif k < 3:
            cp = rng.choice([0x22, 0x5C, 0x2F, 0x7F, 0x08, 0x0C, 0x0A, 0x0D, 0x09])
        else:
            cp = rand_scalar_cp(rng)
            if 0xD800 <= cp <= 0xDFFF:
                cp = 0x41
        out.append(chr(cp))
    return "".join(out).encode("utf-8")


DOUBLE_EDGES = [0x0000000000000000, 0x8000000000000000, 0x0000000000000001, 0x0000000000000002, 0x000FFFFFFFFFFFFF, 0x0010000000000000, 0x0010000000000001,
                0x7FEFFFFFFFFFFFFF, 0xFFEFFFFFFFFFFFFF, 0x3FF0000000000000, 0x3FF0000000000001, 0x3FEFFFFFFFFFFFFF, 0x4340000000000000, 0x4340000000000001,
                0x433FFFFFFFFFFFFF, 0x3E7AD7F29ABCAF48, 0x3FB999999999999A, 0x3FD5555555555555, 0x4415AF1D78B58C40, 0x44B52D02C7E14AF6, 0x3F1A36E2EB1C432D,
                0x3F50624DD2F1A9FC, 0x3EB0C6F7A0B5ED8D, 0x3EE4F8B588E368F1, 0x430C6BF526340000, 0x4330000000000000, 0x4197D78400000000, 0x41DFFFFFFFC00000,
                0x3CB0000000000000, 0x7FE0000000000000, 0x0020000000000000, 0x4024000000000000, 0x40F86A0000000000, 0x412E848000000000, 0x4202A05F20000000]


def gen_double_bits(rng, st):
    k = rng.below(10)
    if k < 2:
        st["dbl-edge"] += 1
        return rng.choice(DOUBLE_EDGES)
    if k < 5:
        st["dbl-random-bits"] += 1
        b = int.from_bytes(rng.bytes(8), "big")
        if (b >> 52) & 0x7FF == 0x7FF:
            b &= ~(1 << 62)
        return b
    if k < 7:
        st["dbl-short-decimal"] += 1
        f = float("%s%d.%se%d" % (rng.choice(["", "-"]), rng.below(1000), digits(rng, rng.range(1, 6)), rng.range(-30, 30)))
        return struct.unpack(">Q", struct.pack(">d", f))[0]
    if k < 8:
        st["dbl-integral"] += 1
        f = float(rng.choice([rng.below(10 ** 6), rng.below(2 ** 60), 10 ** rng.range(0, 22), 2 ** rng.range(0, 70)]) * rng.choice([1, -1]))
        return struct.unpack(">Q", struct.pack(">d", f))[0]
    if k < 9:
        st["dbl-subnormal"] += 1
        return rng.below(2 ** 52) | (rng.below(2) << 63)
    st["dbl-pow10"] += 1
    f = float("1e%d" % rng.range(-323, 308))
    b = struct.unpack(">Q", struct.pack(">d", f))[0]
    return b + rng.choice([-1, 0, 0, 1]) if 1 < b < 0x7FEFFFFFFFFFFFFF else b


def gen_value(rng, st, depth, maxdepth):
    k = rng.below(14)
    if depth >= maxdepth:
        k = k % 10
    if k < 1:
        return rng.choice([None, True, False])
    if k < 3:
        return rng.choice([rng.range(-1000, 1000), rng.choice(INT_EDGES[:12]) * rng.choice([1, -1]), -2 ** 63, 2 ** 63 - 1, rng.range(-2 ** 63, 2 ** 63 - 1)])
    if k < 7:
        return ("d", gen_double_bits(rng, st))
    if k < 10:
        return rand_utf8(rng, rng.below(10))
    if k < 12:
        return [gen_value(rng, st, depth + 1, maxdepth) for _ in range(rng.choice([0, 1, 2, 3, rng.below(7)]))]
    ms = []
    seen = set()
    for _ in range(rng.choice([0, 1, 2, 3, rng.below(9)])):
        key = rand_utf8(rng, rng.below(5))
        if key in seen:
            continue
        seen.add(key)
        ms.append((key, gen_value(rng, st, depth + 1, maxdepth)))
    return ("o", ms)


INDENTS = [b"  ", b"  ", b"", b" ", b"\t", b"    ", b" \t"]

# ------------------------------------------------------------------------------------------------ extension round: locale, API, limits
LOCALES = [("xx_XX", "<U002C>", b","), ("yy_YY", "<U066B>", b"\xd9\xab")]      # decimal comma; a two-byte decimal point (ARABIC DECIMAL SEPARATOR)
LOCALE_RESET = "locale C 2e"
HENV = {}


def build_locales(ctx):
    """LC_NUMERIC-only locales built with localedef into ctx.work/locales (LOCPATH of every harness process).  Returns the list of
    (name, decimal point bytes) that exist; [] when localedef is unavailable (noted in the evidence, not a violation)."""
    d = os.path.join(ctx.work, "locales")
    os.makedirs(d, exist_ok=True)
    HENV["LOCPATH"] = d
    cm = "<code_set_name> VERIF\n<comment_char> %\n<escape_char> /\n<mb_cur_min> 1\n<mb_cur_max> 2\nCHARMAP\n" + \
         "".join("<U%04X> /x%02x c%d\n" % (i, i, i) for i in range(128)) + "<U066B> /xd9/xab ARABIC_DECIMAL_SEPARATOR\nEND CHARMAP\n"
    open(os.path.join(d, "charmap"), "w").write(cm)
    out = []
    for name, sym, dp in LOCALES:
        src = os.path.join(d, name + ".src")
        open(src, "w").write('comment_char %%\nescape_char /\nLC_NUMERIC\ndecimal_point "%s"\nthousands_sep ""\ngrouping -1\nEND LC_NUMERIC\n' % sym)
        try:
            subprocess.run(["localedef", "-c", "-i", src, "-f", os.path.join(d, "charmap"), "--no-archive", os.path.join(d, name)],
                           stdout=subprocess.PIPE, stderr=subprocess.PIPE, timeout=120)
        except (OSError, subprocess.TimeoutExpired):
            continue
        if os.path.exists(os.path.join(d, name, "LC_NUMERIC")):
            out.append((name, dp))
    return out


def probe_locales(ctx, hb, locs):
    """keep the locales the harness process can really switch to (and that report the decimal point they were built with)"""
    ok = []
    for name, dp in locs:
        out, rc, err = ctx.run_lines([hb], ["locale %s %s" % (name, dp.hex())], env=HENV)
        if out and out[0] == "locale " + dp.hex():
            ok.append((name, dp))
    return ok


def gen_float_text(rng, st):
    """a number token that takes the floating path (fraction and/or exponent), or an integer beyond int64"""
    for _ in range(50):
        t = rng.choice(NUM_EDGES) if rng.chance(1, 4) else gen_number(rng, st)
        if b"." in t or b"e" in t or b"E" in t or len(t) > 19:
            return t
    return b"1.5"


def gen_locale_cases(rng, scale, dflt, st, locs):
    """F1 (review): parse / serialize / wrappers of texts and values with doubles while LC_NUMERIC has a decimal comma (resp. a
    two-byte decimal point); every case starts with `locale <name> <dp>` and ends with the reset"""
    cases = []
    for name, dp in locs:
        lop = "locale %s %s" % (name, dp.hex())
        for i in range(4 * scale):
            ops = [lop]
            for _ in range(20):
                k = rng.below(6)
                n = gen_float_text(rng, st)
                if k == 0:
                    t = n
                elif k == 1:
                    t = b"[" + b",".join(gen_float_text(rng, st) for _ in range(rng.range(1, 4))) + b"]"
                elif k == 2:
                    t = b'{"a":' + n + b',"b":[' + gen_float_text(rng, st) + b"]}"
                elif k == 3:
                    t = gen_ws(rng) + n + gen_ws(rng)
                else:
                    t = gen_text(rng, st, 0, 2)
                w = rng.below(8)
                if w == 0:
                    ops.append("pvia %s %s" % (rng.choice(WRAPPERS), hexs(t)))
                elif w == 1:
                    cuts = sorted(rng.below(len(t) + 1) for _ in range(rng.choice([0, 1, 2])))
                    ops.append("stream %s %s %s" % (" ".join(map(str, dflt)), ",".join(map(str, cuts)) or "-", hexs(t)))
                else:
                    ops.append(parse_op(dflt, t))
            for _ in range(20):
                ds = [("d", gen_double_bits(rng, st)) for _ in range(rng.range(1, 4))]
                v = rng.choice([ds[0], ds, [ds[0], ("o", [(b"k", ds[-1])])], ("o", [(b"x", ds)])])
                src = "v" + v_canon(v)
                w = rng.below(6)
                if w == 0:
                    ops.append("svia dump %d 32 0 %d %s -" % (rng.choice([-1, 0, 2]), rng.below(2), src))
                elif w == 1:
                    ops.append("svia ostream %s -" % src)
                else:
                    ops.append("ser %d %d %s %s -" % (rng.below(2), rng.below(2), hexs(rng.choice(INDENTS)), src))
            ops.append(LOCALE_RESET)
            cases.append({"cat": "locale-" + name, "ops": ops})
    return cases


def small_value(rng, st):
    return gen_value(rng, st, 0, rng.choice([0, 0, 1, 2]))


F32_EDGES = [0x00000000, 0x80000000, 0x00000001, 0x007FFFFF, 0x00800000, 0x7F7FFFFF, 0xFF7FFFFF, 0x3F800000, 0x3DCCCCCD, 0x7F800000, 0xFF800000, 0x7FC00000,
             0x7FA00000, 0xFFC00001, 0x00400000, 0x80000002, 0x4B800000, 0x33800000]
U64_EDGES = [0, 1, 2 ** 31, 2 ** 32, 2 ** 53, 2 ** 63 - 1, 2 ** 63, 2 ** 63 + 1, 2 ** 64 - 1, 2 ** 64 - 2, 10 ** 19, 12345678901234567890]


def gen_api_cases(rng, scale, st):
    """F4.4 (review): Json(uint64_t) incl. values above INT64_MAX (wrap negative), Json(float), the initializer-list constructor,
    copy assignment + push_back / operator[](index) / operator[](key) incl. on a value of another type"""
    cases = []
    ops = ["api u64 %d" % n for n in U64_EDGES] + ["api u64 %d" % rng.below(2 ** 64) for _ in range(20 * scale)]
    cases.append({"cat": "api-u64", "ops": ops})
    ops = ["api f32 %08x" % b for b in F32_EDGES] + ["api f32 %08x" % rng.below(2 ** 32) for _ in range(60 * scale)]
    cases.append({"cat": "api-float", "ops": ops})
    for i in range(150 * scale):
        k = rng.below(4)
        if k == 0:
            a = [small_value(rng, st) for _ in range(rng.below(5))]
            op = "api initlist %s" % v_canon(a)
        elif k == 1:
            base = rng.choice([small_value(rng, st), [small_value(rng, st) for _ in range(rng.below(4))]])
            op = "api pushback %s %s" % (v_canon(base), v_canon(small_value(rng, st)))
        elif k == 2:
            base = rng.choice([small_value(rng, st), [small_value(rng, st) for _ in range(rng.below(4))]])
            op = "api setidx %s %d %s" % (v_canon(base), rng.choice([0, 0, 1, 2, 3, 7, rng.below(20)]), v_canon(small_value(rng, st)))
        else:
            base = small_value(rng, st)
            if rng.chance(2, 3):
                ms, seen = [], set()
                for _ in range(rng.below(5)):
                    key = rand_utf8(rng, rng.below(3))
                    if key not in seen:
                        seen.add(key)
                        ms.append((key, small_value(rng, st)))
                base = ("o", ms)
            key = rng.choice([kk for kk, _ in base[1]]) if isinstance(base, tuple) and base[0] == "o" and base[1] and rng.chance(1, 2) else rand_utf8(rng, rng.below(3))
            op = "api setkey %s %s %s" % (v_canon(base), hexs(key), v_canon(small_value(rng, st)))
        cases.append({"cat": "api-build", "ops": [op]})
    return cases


def gen_limit_ser_cases(dflt):
    """F3 (review): J2's hypothesis `v.within lim` at its boundary: values AT and just BEYOND every default limit, serialized and
    re-parsed under the default limits (must come back iff within) and under limits that admit them (must come back)"""
    D, A, M, S = dflt
    big = (D + 8, A + 8, M + 8, S + 8)
    cases = []

    def nestv(d):
        v = 7
        for _ in range(d):
            v = [v]
        return v
    shapes = []
    for n in (min(A, SIZE_CAP), min(A, SIZE_CAP) + 1):
        shapes.append(("array-%d" % n, list(range(n)), 0))
    for n in (min(M, SIZE_CAP), min(M, SIZE_CAP) + 1):
        shapes.append(("object-%d" % n, ("o", [(b"%d" % i, i) for i in range(n)]), 1))
    for n in (min(S, STRING_CAP), min(S, STRING_CAP) + 2):      # (a raw string of S + 1 bytes is still accepted: the guard runs before the append, J4_limits)
        shapes.append(("string-%d" % n, b"x" * n, 0))
    if D <= DEPTH_LOCKSTEP:
        for d in (D, D + 1):
            shapes.append(("depth-%d" % d, nestv(d), 0))
    for name, v, sort in shapes:
        src = "v" + v_canon(v)
        ops = ["serlim %d %d %d %d 0 %d 2020 %s -" % (lim[0], lim[1], lim[2], lim[3], sort, src) for lim in (dflt, big)]
        cases.append({"cat": "limit-ser", "ops": ops, "shape": name})
    return cases



def has_object(v):
    if isinstance(v, list):
        return any(has_object(x) for x in v)
    return isinstance(v, tuple) and v[0] == "o" and (len(v[1]) >= 2 or any(has_object(x) for _, x in v[1]))


def gen_ser_specs(rng, scale, st):
    """(pretty, sort, indent, src, value or None)"""
    specs = []
    for i in range(4000 * scale):
        v = gen_value(rng, st, 0, rng.choice([0, 0, 1, 2, 3, 4]))
        specs.append((rng.below(2), rng.below(2), rng.choice(INDENTS), "v" + v_canon(v), v))
    for b in DOUBLE_EDGES:
        specs.append((0, 0, b"  ", "v" + v_canon(("d", b)), ("d", b)))
        specs.append((1, 1, b"  ", "v" + v_canon([("d", b), ("o", [(b"x", ("d", b ^ (1 << 63)))])]), [("d", b), ("o", [(b"x", ("d", b ^ (1 << 63)))])]))
    for c in range(0, 0x22):
        s = bytes([0x61, c, 0x62])
        specs.append((0, 0, b"  ", "v" + v_canon(s), s))
        specs.append((1, 1, b" ", "v" + v_canon(("o", [(s, s)])), ("o", [(s, s)])))
    for e in INT_EDGES:
        for x in (e, -e, e - 1, -e - 1):
            if -2 ** 63 <= x < 2 ** 63:
                specs.append((0, 0, b"  ", "v" + v_canon(x), x))
    # texts: parse, then serialize what was parsed
    for i in range(1200 * scale):
        t = gen_text(rng, st, 0, rng.choice([1, 2, 3, 4]))
        specs.append((rng.below(2), rng.below(2), rng.choice(INDENTS), "t" + t.hex(), NOVALUE))
    # F4.5 / J3_nonfinite: NaN and +-Infinity inside values (the serializer writes null)
    NONFINITE = [0x7FF8000000000000, 0x7FF0000000000000, 0xFFF0000000000000, 0x7FF0000000000001, 0xFFFFFFFFFFFFFFFF, 0x7FF4000000000000]
    for i in range(60 * scale):
        nf = ("d", rng.choice(NONFINITE))
        v = rng.choice([nf, [nf], [1, nf, ("d", 0x3FF8000000000000)], ("o", [(b"a", nf)]), [gen_value(rng, st, 0, 1), nf, ("o", [(b"k", [nf])])]])
        specs.append((rng.below(2), rng.below(2), rng.choice(INDENTS), "v" + v_canon(v), v))
        st["ser-nonfinite"] += 1
    # F6: containers beyond 16 elements (std::sort's introsort path for the keys), long strings, long keys
    for i in range(25 * scale):
        k = rng.below(3)
        if k == 0:
            n = rng.choice([17, 33, 64, rng.range(17, 200)])
            keys = set()
            while len(keys) < n:
                keys.add(rand_utf8(rng, rng.range(1, 6)))
            ks = sorted(keys)
            for j in range(n - 1, 0, -1):
                r = rng.below(j + 1)
                ks[j], ks[r] = ks[r], ks[j]
            v = ("o", [(kk, rng.choice([j, None, True, ("d", gen_double_bits(rng, st))])) for j, kk in enumerate(ks)])
        elif k == 1:
            v = [gen_value(rng, st, 1, 2) for _ in range(rng.range(17, 300))]
        else:
            v = [rand_utf8(rng, rng.range(65, 3000)), ("o", [(rand_utf8(rng, rng.range(65, 400)), 1)])]
        specs.append((rng.below(2), 1 if k == 0 else rng.below(2), rng.choice(INDENTS), "v" + v_canon(v), v))
        st["ser-big"] += 1
    # F5.5: strings that are NOT UTF-8 (outside J3's hypothesis; lockstep only: the serializer copies the bytes)
    for i in range(40 * scale):
        raw = rng.bytes(rng.range(1, 12))
        v = rng.choice([raw, [raw], ("o", [(raw, raw)])])
        specs.append((rng.below(2), rng.below(2), b"  ", "v" + v_canon(v), v))
        st["ser-not-utf8"] += 1
    # deep values (serializer recursion, pretty indentation at depth)
    for d in (5, 30, 99, 100):
        v = 7
        for _ in range(d):
            v = [v] if rng.chance(1, 2) else ("o", [(b"k", v)])
        specs.append((1, 0, b" ", "v" + v_canon(v), v))
        specs.append((0, 1, b" ", "v" + v_canon(v), v))
    return specs


# ------------------------------------------------------------------------------------------------ monitors
SLACK = 4   # a \u escape appends up to 4 bytes after the length guard was passed (theorem J4_limits states this bound)


def monitor_parse(op, line):
    """property failures visible in the implementation's answer to one parse op"""
    t = op.split()
    lim = tuple(int(x) for x in t[1:5])
    text = unhex(t[5])
    bad = []
    if line == "crash:too-many-crashes":
        return [], None
    if line.startswith("throw") or line.startswith("crash:"):
        return ["J4: input makes the parser throw/crash: %s -> %s" % (op[:120], line)], None
    a = line.split()
    if not a or a[0] not in ("ok", "err") or (a[0] == "err" and len(a) != 5) or (a[0] == "ok" and len(a) != 2):
        return ["J4: unexpected answer `%s`" % line[:80]], None
    if a[0] == "err":
        if a[1].startswith("unknown") or a[1] in ("generic", "lbracket", "lbrace"):
            bad.append("J4: unexpected error message kind `%s` for %s" % (a[1], op[:100]))
        if int(a[2]) > len(text):
            bad.append("J4: error offset %d is beyond the %d input bytes: %s" % (int(a[2]), len(text), op[:120]))
    ref = py_ref(text)
    info = {"ref": None if ref is None else ref[0], "accepted": a[0] == "ok"}
    if a[0] == "ok":
        try:
            dv = read_dump(a[1])
        except Exception as e:
            return ["J4: malformed dump `%s` (%s)" % (a[1][:60], e)], info
        d, n, m, s = measure_dump(dv)
        if d > lim[0] or n > lim[1] or m > lim[2] or s > lim[3] + SLACK:
            bad.append("J4: accepted value exceeds the limits %s: depth %d, array %d, members %d, string %d: %s" % (lim, d, n, m, s, op[:100]))
    if ref is not None and ref[0] == "ok":
        tree = ref[1]
        d, n, m, s = measure_ref(tree)
        within = d <= lim[0] and n <= lim[1] and m <= lim[2] and s <= lim[3]
        info["within"] = within
        info["lone"] = has_lone_surrogate(tree)
        if within:
            want = "ok " + canon_ref(tree)
            if line != want:
                bad.append("J1: RFC 8259 text within the limits decoded differently from the reference decoder: %s -> got `%s` want `%s`" % (op[:120], line[:120], want[:120]))
        elif a[0] == "ok" and a[1] != canon_ref(tree):
            bad.append("J1: text beyond the limits was accepted with a value different from the reference: %s -> `%s`" % (op[:120], line[:100]))
    return bad, info


NOVALUE = object()


def dump_has_nonfinite(d):
    """token-boundary test: does a canonical dump contain a non-finite double?"""
    try:
        return not all_finite(read_dump(d))
    except Exception:
        return True


WS_BYTES = (0x20, 0x09, 0x0A, 0x0D)


def monitor_ser(op, line, value):
    t = op.split()
    if t[0] == "ser":
        sort, src = t[2] == "1", t[4]
        indent_ok = all(b in WS_BYTES for b in unhex(t[3]))
    elif t[1] == "dump":        # svia dump <indent> <char> <ensure_ascii> <sort> <src> <order>
        sort, src = t[5] == "1", t[6]
        indent_ok = int(t[2]) <= 0 or int(t[3]) in WS_BYTES
    else:                       # svia ostream|string <src> <order>
        sort, src = False, t[2]
        indent_ok = True
    if line == "crash:too-many-crashes":
        return []
    if line.startswith("throw") or line.startswith("crash:"):
        return ["J2: serializing/parsing throws or crashes: %s -> %s" % (op[:120], line)]
    a = line.split()
    if line.startswith("err ") and src[0] == "t":
        r = py_ref(unhex(src[1:] or "-"))
        if r is not None and r[0] == "ok":
            return ["J1: source text accepted by the reference is rejected: %s -> %s" % (op[:100], line)]
        return []
    if len(a) != 2 or a[1] not in ("0", "1"):
        return ["J2: unexpected answer `%s` to %s" % (line[:80], op[:80])]
    text = unhex(a[0])
    if not indent_ok:
        return []               # indentation that is not JSON white space: outside the hypothesis (lockstep only)
    want = None
    if src[0] == "v" and value is NOVALUE:
        value = read_dump(src[1:])
    if value is not NOVALUE:
        if not strings_utf8(value):
            # strings that are not UTF-8: outside J3's hypothesis (no reference decoder), but J2 does not need it (Good + within):
            # the bytes are copied and must come back
            if all_finite(value) and a[1] != "1" and not (t[0] == "svia" and t[1] == "string" and isinstance(value, bytes)):
                return ["J2: parse(serialize(v)) != v for a value with non-UTF-8 strings: %s -> text %s" % (op[:140], text[:80])]
            return []
        if not all_finite(value):
            # J3_nonfinite: RFC 8259 has no NaN/Infinity; the text must still be valid JSON, denoting the value with null in their place
            if t[0] == "svia" and t[1] == "string" and isinstance(value, bytes):
                return []
            r = py_ref(text)
            if r is None or r[0] != "ok":
                return ["J3: serializer output for a value with NaN/Infinity is not RFC 8259 text: %s -> %r" % (op[:120], text[:80])]
            if canon_ref(r[1]) != v_canon(nullify_py(value), sort=True):
                return ["J3: serializer output for a value with NaN/Infinity does not denote the value with null in their place: %s -> %r" % (op[:120], text[:80])]
            return []
        if t[0] == "svia" and t[1] == "string" and isinstance(value, bytes):
            return []           # operator std::string of a string value is the raw string, not JSON text
        want = v_canon(value, sort=True)
    else:
        r = py_ref(unhex(src[1:] or "-"))
        if r is None or r[0] != "ok":
            return []
        if t[0] == "svia" and t[1] == "string" and isinstance(r[1], str):
            return []
        want = canon_ref(r[1])
        if dump_has_nonfinite(want):
            return []           # the text denotes an infinite double (1e999): not serializable as a number
    bad = []
    if a[1] != "1":
        bad.append("J2: parse(serialize(v)) != v for %s -> text %s" % (op[:140], text[:80]))
    r = py_ref(text)
    if r is None or r[0] != "ok":
        bad.append("J3: serializer output is not RFC 8259 text for the reference decoder: %s -> %r" % (op[:120], text[:80]))
    else:
        got = canon_ref(r[1])
        if got != want:
            bad.append("J2: serialized text denotes another value for the reference decoder: %s -> %r (got %s want %s)" % (op[:100], text[:60], got[:60], want[:60]))
        if sort and not keys_sorted(r[1]):
            bad.append("J2: sortKeys output has unsorted or repeated keys: %s -> %r" % (op[:100], text[:80]))
    return bad


def monitor_api(op, line):
    """api ops: the constructed value against an independent reference, the operand untouched (copy semantics), and J2/J3 on its text"""
    t = op.split()
    if line.startswith("throw") or line.startswith("crash:"):
        return ["J2: the value-construction API throws or crashes: %s -> %s" % (op[:120], line)]
    a = line.split()
    if len(a) != 5 or a[0] != "ok" or a[4] not in ("0", "1"):
        return ["J2: unexpected answer `%s` to %s" % (line[:80], op[:80])]
    try:
        want, operand = api_reference(t)
    except Exception as e:
        return ["correspondence-machinery: api reference failed on %s (%s)" % (op[:100], e)]
    bad = []
    wd = v_canon(want, sort=True)
    got = a[1]
    if t[1] == "f32" and isinstance(want, tuple) and (want[1] >> 52) & 0x7FF == 0x7FF and want[1] & ((1 << 52) - 1):
        if not (got.startswith("d") and (int(got[1:], 16) >> 52) & 0x7FF == 0x7FF and int(got[1:], 16) & ((1 << 52) - 1)):
            bad.append("J2: Json(float NaN) is not a NaN: %s -> %s" % (op[:100], got[:60]))
        wd = got
    elif got != wd:
        bad.append("J2: constructed value differs from the reference: %s -> got %s want %s" % (op[:120], got[:80], wd[:80]))
    if a[2] != v_canon(operand, sort=True):
        bad.append("J2: the operand of a copy was modified: %s -> %s" % (op[:120], a[2][:80]))
    if bad or not strings_utf8(want):
        return bad
    text = unhex(a[3])
    r = py_ref(text)
    if r is None or r[0] != "ok":
        bad.append("J3: serializer output is not RFC 8259 text for the reference decoder: %s -> %r" % (op[:120], text[:80]))
    elif canon_ref(r[1]) != v_canon(nullify_py(want), sort=True):
        bad.append("J2: serialized text denotes another value for the reference decoder: %s -> %r" % (op[:100], text[:60]))
    if all_finite(want) and a[4] != "1":
        bad.append("J2: parse(serialize(v)) != v for %s" % op[:140])
    return bad


def monitor_serlim(op, line):
    """serlim: the value comes back iff it is within the limits given (J2 with its hypothesis, at the boundary)"""
    t = op.split()
    if line.startswith("throw") or line.startswith("crash:"):
        return ["J2: serializing/parsing throws or crashes: %s -> %s" % (op[:120], line)]
    a = line.split()
    if len(a) != 2 or a[1] not in ("0", "1"):
        return ["J2: unexpected answer `%s` to %s" % (line[:80], op[:80])]
    lim = tuple(int(x) for x in t[1:5])
    v = read_dump(t[8][1:])
    d, n, m, sl = measure_dump(v)
    within = d <= lim[0] and n <= lim[1] and m <= lim[2] and sl <= lim[3]
    if within and a[1] != "1":
        return ["J2: a value within the limits %s (depth %d, array %d, members %d, string %d) does not come back from its own serialization: %s" % (lim, d, n, m, sl, op[:100])]
    if a[1] == "1" and (d > lim[0] or n > lim[1] or m > lim[2] or sl > lim[3] + SLACK):
        return ["J4: a value beyond the limits %s (depth %d, array %d, members %d, string %d) was accepted: %s" % (lim, d, n, m, sl, op[:100])]
    return []


def monitor_wrapper(op, line):
    """pvia / pthrow / stream: the public parse wrappers, judged like the parse they wrap"""
    t = op.split()
    if line == "crash:too-many-crashes":
        return [], None
    if line.startswith("throw") or line.startswith("crash:"):
        return ["J4: input makes a parse wrapper throw (other than parse_error) or crash: %s -> %s" % (op[:120], line)], None
    if t[0] == "pvia":
        lim, text, soft = None, unhex(t[2]), t[1] in ("noexc", "safe")
        base = lambda l: "parse %d %d %d %d %s" % (l[0], l[1], l[2], l[3], t[2])
    elif t[0] == "pthrow":
        lim, text, soft = tuple(int(x) for x in t[1:5]), unhex(t[5]), False
        base = lambda l: "parse %d %d %d %d %s" % (l[0], l[1], l[2], l[3], t[5])
    else:
        lim, text, soft = tuple(int(x) for x in t[1:5]), unhex(t[6]), False
        base = lambda l: "parse %d %d %d %d %s" % (l[0], l[1], l[2], l[3], t[6])
    lim = lim or DEFAULTS[0]
    a = line.split()
    if t[0] == "stream":
        if len(a) < 5 or a[0] != "s":
            return ["J4: unexpected answer `%s`" % line[:80]], None
        bits, state = a[1], " ".join(a[3:])
        if bits[-1:] != "1":
            # the whole text did not parse: if the reference accepts it within the limits that is a J1 failure
            ref = py_ref(text)
            if ref is not None and ref[0] == "ok":
                d, n, m, sl = measure_ref(ref[1])
                if d <= lim[0] and n <= lim[1] and m <= lim[2] and sl <= lim[3]:
                    return ["J1: JsonStreamParser does not complete on a valid text within the limits: %s -> %s" % (op[:120], line[:80])], None
            return [], None
        line2 = state
    elif a and a[0] == "errw":
        if len(a) != 4:
            return ["J4: unexpected answer `%s`" % line[:80]], None
        line2 = "err %s 0 %s %s" % (a[1], a[2], a[3])
    else:
        line2 = line
    if soft and line2 == "ok n":
        ref = py_ref(text)
        if ref is not None and ref[0] == "ok" and canon_ref(ref[1]) != "n":
            d, n, m, sl = measure_ref(ref[1])
            if d <= lim[0] and n <= lim[1] and m <= lim[2] and sl <= lim[3]:
                return ["J1: non-throwing wrapper returns null for a valid text within the limits: %s" % op[:120]], None
        return [], None
    return monitor_parse(base(lim), line2)


DEFAULTS = [None]


def keys_sorted(v):
    if isinstance(v, list):
        return all(keys_sorted(x) for x in v)
    if isinstance(v, Obj):
        ks = [utf8_of(k) for k, _ in v.pairs]
        return all(a < b for a, b in zip(ks, ks[1:])) and all(keys_sorted(x) for _, x in v.pairs)
    return True


# ------------------------------------------------------------------------------------------------ run
def gen_defaults():
    """ParseLimits defaults as the translator extracted them (Gen/Json.lean of this run)"""
    p = os.path.join(LEAN, "IoraModel", "Gen", "Json.lean")
    src = open(p).read()
    out = []
    for k in ("depthMax", "arrayItemsMax", "membersMax", "stringLengthMax"):
        m = re.search(r"def %sDefault : Nat := (\d+)" % k, src)
        out.append(int(m.group(1)))
    return tuple(out)


def run(ctx: Ctx):
    if ctx.replay:
        return replay(ctx)
    quick = ctx.tier == "quick"
    scale = 1 if quick else 15
    rng = ctx.rng
    ctx.translate(["json"])
    ok_build = ctx.lake_build(MODULES)
    if ok_build:
        ctx.audit(MODULES, OBLIGATIONS)
        if not quick:
            ctx.leanchecker(MODULES + ["IoraModel.Lemmas.Json", "IoraModel.Lemmas.JsonSpec", "IoraModel.Lemmas.JsonSer", "IoraModel.Lemmas.JsonSort",
                                       "IoraModel.Lemmas.JsonLimits", "IoraModel.Lemmas.JsonApi", "IoraModel.Model.Json", "IoraModel.Model.JsonSpec",
                                       "IoraModel.Model.JsonApi", "IoraModel.Gen.Json"])
    else:
        ctx.cov["obligations"] = len(OBLIGATIONS)
    hb = ctx.build_harness("harness/c13_json.cpp", sanitize=True)
    dist = {}
    st = {k: 0 for k in ("raw", "raw-utf8", "esc", "u-bmp", "u-pair", "u-lone", "num-edge", "num-int", "num-int-edge", "num-int-big", "num-float", "dup-key",
                         "dup-key-respelled", "dbl-edge", "dbl-random-bits", "dbl-short-decimal", "dbl-integral", "dbl-subnormal", "dbl-pow10",
                         "ser-nonfinite", "ser-big", "ser-not-utf8")}
    stats = {"ref_accepts": 0, "ref_rejects": 0, "no_reference": 0, "impl_accepts_ref_rejects": 0, "within_limits": 0, "lone_surrogate_texts": 0,
             "ser_ops": 0, "ser_with_hash_order": 0, "ops_through_public_wrappers": 0}
    if hb:
        dflt = gen_defaults()
        DEFAULTS[0] = dflt
        locs = probe_locales(ctx, hb, build_locales(ctx))
        ctx.extra["numeric_locales"] = {"built_and_usable": ["%s (decimal point %s)" % (n, d.hex()) for n, d in locs],
                                        "note": None if len(locs) == len(LOCALES) else
                                        "localedef unavailable or locale not loadable: the locale family was SKIPPED for the missing ones (not a violation)"}
        usable = set(n for n, _ in locs) | {"C"}
        cases = [c for c in load_corpus() if all(o.split()[1] in usable for o in c["ops"] if o.startswith("locale "))]
        cases += gen_locale_cases(rng.fork("locale"), scale, dflt, st, locs)
        cases += gen_api_cases(rng.fork("api"), scale, st)
        cases += gen_limit_ser_cases(dflt)
        cases += gen_parse_cases(rng.fork("parse"), scale, dflt, st)
        cases += gen_mutated_cases(rng.fork("mut"), scale, dflt, st)
        route_through_wrappers(rng.fork("wrap"), cases, dflt, stats)
        specs = gen_ser_specs(rng.fork("ser"), scale, st)
        # phase 1 (implementation only): the iteration order of the real hash map is an INPUT of the unsorted serializer
        need = [i for i, sp in enumerate(specs) if sp[1] == 0 and (sp[4] is NOVALUE or has_object(sp[4]))]
        orders = {}
        if need:
            out, rc, err = ctx.run_lines([hb], ["order " + specs[i][3] for i in need], env=HENV)
            for i, l in zip(need, out):
                if l and l[0] in "ntfids[{" and not l.startswith("throw") and " " not in l:
                    orders[i] = l
        values = {}
        for i, (pretty, sort, indent, src, v) in enumerate(specs):
            o = orders.get(i, "-")
            op = "ser %d %d %s %s %s" % (pretty, sort, hexs(indent), src, o)
            wr = rng.below(10)
            if wr == 0 and len(set(indent)) <= 1 and (pretty or indent == b"  "):
                # the same serialization through Json::dump(indent, indent_char, ensure_ascii, sort_keys)
                op = "svia dump %d %d %d %d %s %s" % (len(indent) if pretty else -1, indent[0] if indent else 32, rng.below(2), sort, src, o)
                stats["ops_through_public_wrappers"] += 1
            elif wr == 1 and not pretty and not sort:
                op = "svia %s %s %s" % (rng.choice(["ostream", "string"]), src, o)
                stats["ops_through_public_wrappers"] += 1
            elif wr == 2 and i % 7 == 0:
                op = "svia dump %d %d 0 %d %s %s" % (rng.range(1, 4), rng.choice([120, 45, 0]), sort, src, o)      # non-white-space indent_char: lockstep only
            values[op] = v
            cases.append({"cat": "ser-value" if v is not NOVALUE else "ser-text", "ops": [op]})
            stats["ser_ops"] += 1
            stats["ser_with_hash_order"] += o != "-"
        cases.append({"cat": "counters", "ops": ["counters"]})      # harness-side branch counters of the whole run (implementation only)
        res = run_cases(ctx, hb, cases)
        # F8: a timeout of the whole batch is machinery, not a verdict - unless the op also hangs when it runs alone
        for c, impl, model in res:
            for op, l in zip(c["ops"], impl):
                if l == "crash:timeout":
                    alone = run_child_8mib(hb, [op], timeout=300)[0]
                    if alone != "crash:timeout":
                        raise RuntimeError("lockstep batch timed out but op completes alone (machinery, not a verdict): %s" % op[:120])
                    ctx.violation("property", "J4: the parser does not terminate on %s" % op[:160], {"ops": [op], "observed": [alone]}, found_input=True)
        # F1: texts nested to the DEFAULT depth, real parser alone, child process with the default 8 MiB stack
        deep = gen_deep_cases(dflt)
        if deep:
            outs = run_child_8mib(hb, deep)
            res.append(({"cat": "deep-default", "ops": deep}, outs, [None] * len(deep)))
        # F2 (review): dump / re-parse / copy / compare / destroy of programmatically built values at depth 101 and at stackSafeDepth,
        # real code alone, 8 MiB stack
        safe = safe_depth()
        dops = ["deepser %s %d" % (k, d) for d in (dflt[0] + 1, safe) for k in ("a", "o")]
        douts = run_child_8mib(hb, dops)
        ctx.extra["deep_serialize_8MiB"] = dict(zip(dops, douts))
        for o, l in zip(dops, douts):
            if not (l.startswith("ok ") and l.endswith(" 1")):
                ctx.violation("property", "J2: dump()/parse/copy/destroy of a value nested %s deep (<= stackSafeDepth) fails on an 8 MiB stack: %s -> %s" % (o.split()[2], o, l),
                              {"ops": [o], "observed": [l]}, found_input=True)
        stack_check(ctx, hb, dflt)
        n_mismatch = 0
        for c, impl, model in res:
            dist[c["cat"]] = dist.get(c["cat"], 0) + 1
            fails = []
            for op, l in zip(c["ops"], impl):
                ctx.count_case(op, nontrivial=not (l.startswith("err eof 0") or l == "bad-op"))
                if op.startswith("parse "):
                    f, info = monitor_parse(op, l)
                    if info:
                        if info["ref"] == "ok":
                            stats["ref_accepts"] += 1
                            stats["within_limits"] += bool(info.get("within"))
                            stats["lone_surrogate_texts"] += bool(info.get("lone"))
                        elif info["ref"] == "reject":
                            stats["ref_rejects"] += 1
                            stats["impl_accepts_ref_rejects"] += info["accepted"]
                        else:
                            stats["no_reference"] += 1
                elif op.split(" ", 1)[0] in ("pvia", "pthrow", "stream"):
                    f, _ = monitor_wrapper(op, l)
                elif op.startswith("api "):
                    f = monitor_api(op, l)
                elif op.startswith("serlim "):
                    f = monitor_serlim(op, l)
                    if l in ("order-changed", "order-invalid", "bad-op"):
                        f = f or ["correspondence-machinery: `%s` for %s" % (l, op[:100])]
                elif op.startswith("locale "):
                    f = [] if l == "locale " + op.split()[2] or l == "crash:too-many-crashes" else ["correspondence-machinery: `%s` for %s" % (l, op)]
                elif op == "counters":
                    f = []
                    ctx.extra["implementation_branch_counters"] = dict((kv.rsplit("=", 1)[0], int(kv.rsplit("=", 1)[1])) for kv in l.split()[1:]) if l.startswith("counters") else {"error": l}
                elif op.startswith("ser ") or op.startswith("svia "):
                    f = monitor_ser(op, l, values.get(op, NOVALUE))
                    if l in ("order-changed", "order-invalid", "bad-op"):
                        f = f or ["correspondence-machinery: `%s` for %s" % (l, op[:100])]
                else:
                    f = []
                fails += [(op, x) for x in f]
            if len(ctx.cov["samples"]) < 6 and ctx.rng.chance(1, 400):
                ctx.sample({"cat": c["cat"], "ops": [o[:200] for o in c["ops"][:3]], "impl": [l[:200] for l in impl[:3]]})
            mism = [(i, a, b) for i, (a, b) in enumerate(zip(impl, model)) if b is not None and a != b and c["cat"] != "counters"]
            if fails:
                report_property(ctx, hb, c, impl, model, fails)
            elif mism:
                n_mismatch += 1
                i, a, b = mism[0]
                ctx.violation("correspondence", "model and implementation disagree (no property monitor fails on this case): op `%s` impl=`%s` model=`%s`"
                              % (c["ops"][i][:160], a[:120], b[:120]),
                              {"broken": {"correspondence": "json lockstep (harness/c13_json.cpp vs Model/Json.lean)", "detail": "first differing op index %d" % i},
                               "ops": [c["ops"][i]], "observed": [a], "expected_by_model": [b]}, found_input=False)
        ctx.extra["lockstep_mismatches_without_monitor_failure"] = n_mismatch
    ctx.extra["input_distribution"] = dist
    ctx.extra["input_distribution_note"] = "cases per generator family; `implementation_branch_counters` are counted inside the harness process (value kinds incl. NaN/Inf and doubles handled under a non-C locale, error kinds, text sizes, API entry points)"
    ctx.extra["generator_item_counts"] = st
    ctx.extra["reference_statistics"] = stats
    ctx.extra["repo_tree_sha"] = ctx.repo_tree_sha(ANCHOR_FILES)
    ctx.extra["not_proved"] = NOT_PROVED
    ctx.extra["observations"] = [
        "the parser is more lenient than RFC 8259 (accepts \\v and \\f as white space, raw control characters and invalid UTF-8 inside strings); the property only demands acceptance of valid texts",
        "a string may exceed stringLengthMax by up to 4 bytes (the guard runs before the append; J4_limits states the exact bound); membersMax counts distinct keys and is tested before the key is read",
        "an unpaired \\uD800-\\uDFFF escape decodes to U+FFFD (RFC 8259 §8.2 leaves it open; the reference's lone surrogates are mapped the same way before comparing)",
        "NaN and +-Infinity serialize as `null` (RFC 8259 has no text for them): valid JSON, the round trip yields null there (J3_nonfinite; J2 claims finite numbers only)",
        "Json(std::uint64_t) above INT64_MAX stores the value wrapped to a negative int64 (static_cast; Json(18446744073709551615) holds -1): a conversion of the construction API, modelled (ofUInt64) and exercised, outside the property's text",
        "JsonStreamParser keeps a latched value: feed(\"1\") then feed(\" x\") leaves complete() with value 1 although the concatenation is not JSON (S3 states exactly what a latched value is; S1 is the statement for texts that parse as a whole)",
        "operator>> / JsonFileStore read with the DEFAULT ParseLimits whatever was written (W2_stream_operators_gap): see not_proved and the report for C11",
    ]
    ctx.assumptions += [
        "default rounding mode; in the C locale std::strtod and std::to_chars(general, precision) (= the `%.*g` text) are correctly rounded (glibc/libstdc++) - validated bit for bit by the lockstep against an exact big-integer implementation and against Python's float()/repr, not proved",
        "std::isspace / std::isdigit (argument converted to unsigned char, pinned by gen_conformance) in the \"C\" LC_CTYPE: {9..13, 32} / {'0'..'9'}, false for bytes >= 0x80 (a single-byte LC_CTYPE that classifies bytes >= 0x80 as white space would make the parser more lenient, never stricter)",
        "LC_NUMERIC is NOT assumed to be \"C\" any more (repair FC13b): strtod under a locale with decimal point dp reads the token with dp in place of `.` exactly as the C strtod reads the JSON token (LocaleLibc; exercised under a decimal comma and a two-byte decimal point); std::to_chars is locale independent by [charconv.to.chars]",
        "std::from_chars(int64) = exact decimal value or result_out_of_range; std::to_string(int64) = minimal decimal digits",
        "std::unordered_map iteration order is an arbitrary permutation of the members (fed to the model as an input for unsorted serialization); std::sort on std::string keys = bytewise lexicographic order",
    ]
    return ctx.finish(level="proof", rule="a case = one op list (parse of one text under given limits; all prefixes of one text; serialize+reparse of one value/options); "
                      "evaluations = ops; distinct = distinct op lines; non-trivial = any answer other than `err eof 0` / bad-op")


WRAPPERS = ["orthrow", "str", "noexc", "safe", "pstring", "istream"]


def route_through_wrappers(rng, cases, dflt, stats):
    """F4: ~10 % of the single-op parse cases go through the public wrappers (parseOrThrow, parse(text, nullptr, bool), safe_parse,
    parseString, operator>>, JsonStreamParser) instead of Json::parse(string_view, limits); same model answers"""
    for c in cases:
        if c["cat"] not in ("grammar", "mutated", "random-bytes", "truncated", "number-forms", "escape-forms", "limit-depth", "limit-string", "limit-array",
                            "limit-members") or not rng.chance(1, 9):
            continue
        ops = []
        for op in c["ops"]:
            t = op.split()
            lim = tuple(int(x) for x in t[1:5])
            n = 0 if t[5] == "-" else len(t[5]) // 2
            if n > 100000:
                ops.append(op)
                continue
            k = rng.below(3)
            if k == 0 and lim == tuple(dflt):
                ops.append("pvia %s %s" % (rng.choice(WRAPPERS), t[5]))
            elif k == 1:
                ops.append("pthrow %s %s" % (" ".join(t[1:5]), t[5]))
            else:
                cuts = sorted(rng.below(n + 1) for _ in range(rng.choice([0, 1, 1, 2, 3, 5])))
                ops.append("stream %s %s %s" % (" ".join(t[1:5]), ",".join(map(str, cuts)) or "-", t[5]))
            stats["ops_through_public_wrappers"] += 1
        c["ops"] = ops
        c["cat"] = c["cat"] + "+wrapper"


def safe_depth():
    m = re.search(r"def stackSafeDepth : Nat := (\d+)", open(os.path.join(LEAN, "IoraModel", "Props", "C13.lean")).read())
    return int(m.group(1))


def stack_check(ctx, hb, dflt):
    """F1: bytes of C++ stack one nesting level costs the real parser + serializer + destructor (measured on a painted private stack,
    sanitizer build = the larger frames) and the bound `stackSafeDepth` pinned in gen_conformance: the check is only valid while
    stackSafeDepth levels fit comfortably (a quarter of) the default 8 MiB stack"""
    out, rc, err = ctx.run_lines([hb], ["stackuse a 64", "stackuse a 192", "stackuse o 64", "stackuse o 192"], timeout=300, env=HENV)
    try:
        u = [int(l.split()[0]) for l in out]
        per = max((u[1] - u[0]) / 128.0, (u[3] - u[2]) / 128.0)
        base = max(u[0], u[2])
    except Exception:
        raise RuntimeError("stackuse probe failed: %r %s" % (out, err[-300:]))
    m = re.search(r"def stackSafeDepth : Nat := (\d+)", open(os.path.join(LEAN, "IoraModel", "Props", "C13.lean")).read())
    safe = int(m.group(1))
    need = base + per * (safe + 8)
    ctx.extra["stack"] = {"bytes_per_nesting_level_sanitizer_build": round(per, 1), "base_bytes": base, "stackSafeDepth": safe,
                          "bytes_at_stackSafeDepth": int(need), "budget_bytes": STACK_BYTES // 4, "default_depthMax": dflt[0]}
    if need > STACK_BYTES // 4:
        ctx.violation("correspondence", "stack bound no longer justified: %d nesting levels (Iora.C13.stackSafeDepth) need %d bytes of stack at %.0f bytes per level, "
                      "more than a quarter of the default 8 MiB stack" % (safe, need, per),
                      {"broken": {"theorem": "Iora.C13.gen_conformance (depthMaxDefault <= stackSafeDepth)", "detail": str(ctx.extra["stack"])}}, found_input=False)
    if dflt[0] > safe:
        # gen_conformance already fails; give the failing input as well when the real parser cannot take its own default
        pass


def run_cases(ctx, hb, cases):
    """lockstep; when the model driver cannot be built (already reported as a proof violation) the implementation still runs alone,
    so that the property monitors can supply a failing input"""
    try:
        return ctx.lockstep("json", hb, cases, timeout=1800 if ctx.tier == "quick" else 7200, impl_env=HENV)
    except ModelBuildError:
        res = []
        for c in cases:
            out, rc, err = ctx.run_lines([hb], c["ops"], env=HENV)
            out += ["crash:rc=%s" % rc] * (len(c["ops"]) - len(out))
            res.append((c, out, [None] * len(c["ops"])))
        return res


def replay(ctx):
    """Re-run the op list of a replay / corpus file on the real code and the model; exit 1 if the failure is still there."""
    obj = json.load(open(ctx.replay))
    ops = obj.get("ops") or []
    ctx.translate(["json"])
    ctx.lake_build(MODULES)
    hb = ctx.build_harness("harness/c13_json.cpp", sanitize=True)
    if hb:
        build_locales(ctx)
    if not hb or not ops:
        print("replay: nothing to run (kind=%s)" % obj.get("kind"))
        return 1 if ctx.violations else 0
    (c, impl, model), = run_cases(ctx, hb, [{"cat": obj.get("category", "corpus"), "ops": ops}])
    still = False
    for o, a, b in zip(ops, impl, model):
        print("op    %s\n impl  %s\n model %s" % (o[:200], a[:200], (b or "-")[:200]))
        DEFAULTS[0] = DEFAULTS[0] or gen_defaults()
        k = o.split(" ", 1)[0]
        f = monitor_parse(o, a)[0] if k == "parse" else monitor_ser(o, a, NOVALUE) if k in ("ser", "svia") else \
            monitor_wrapper(o, a)[0] if k in ("pvia", "pthrow", "stream") else monitor_api(o, a) if k == "api" else \
            monitor_serlim(o, a) if k == "serlim" else []
        for x in f:
            print("PROPERTY FAILS:", x[:300])
        still = still or bool(f) or (b is not None and a != b)
    print("replay: %s" % ("still failing" if still else "no longer failing"))
    import shutil
    shutil.rmtree(ctx.work, ignore_errors=True)
    return 1 if still else 0


def report_property(ctx, hb, c, impl, model, fails):
    op, what = fails[0]
    if not ctx.violation_budget("property", what):
        ctx.violation("property", what)
        return
    ops = [op]
    cls = what.split(":")[0]
    # an op that ran under a non-C numeric locale is replayed under it
    pre = [c["ops"][0]] if c["ops"] and c["ops"][0].startswith("locale ") and not op.startswith("locale ") else []
    post = [LOCALE_RESET] if pre else []
    # shrink a failing parse input bytewise
    if op.startswith("parse "):
        t = op.split()
        text = unhex(t[5])

        def still(sub):
            o = " ".join(t[:5] + [hexs(bytes(sub))])
            out, rc, err = ctx.run_lines([hb], pre + [o], timeout=60, env=HENV)
            out = out[len(pre):]
            l = out[0] if out else "crash:rc=%s" % rc
            f, _ = monitor_parse(o, l)
            return any(x.split(":")[0] == cls for x in f)
        try:
            if len(text) > 1 and len(text) <= 4000 and still(list(text)):
                small = bytes(ddmin(list(text), still, max_tests=120))
                ops = [" ".join(t[:5] + [hexs(small)])]
        except Exception:
            pass
    ops = pre + ops + post
    out, rc, err = ctx.run_lines([hb], ops, timeout=120, env=HENV)
    san = re.search(r"SUMMARY: (\w+Sanitizer): ([\w-]+)[^\n]*", err or "")
    obj = {"sanitizer": san.group(0)[:300] if san else None, "ops": ops, "observed": out or ["crash:rc=%s" % rc], "original_op": op[:2000], "failures": [w for _, w in fails[:5]], "category": c["cat"],
           "expected_by_model": [m for o, m in zip(c["ops"], model) if o == op][:1], "stderr_tail": err[-800:] if rc else ""}
    ctx.violation("property", what, obj, found_input=True)


def load_corpus():
    d = os.path.join(os.path.dirname(os.path.dirname(os.path.abspath(__file__))), "corpus", "C13")
    out = []
    if os.path.isdir(d):
        for fn in sorted(os.listdir(d)):
            if fn.endswith(".json"):
                c = json.load(open(os.path.join(d, fn)))
                c.setdefault("cat", "corpus")
                out.append(c)
    return out
